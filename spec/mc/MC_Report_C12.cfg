SPECIFICATION Spec
CONSTANT Family = "C12Report"
INVARIANT InvShape
INVARIANT InvAcc
CHECK_DEADLOCK FALSE
