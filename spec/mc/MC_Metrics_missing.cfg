SPECIFICATION Spec
CONSTANT Universe = "missing"
INVARIANT InvPerfectAttains
INVARIANT InvPerfectAgg
INVARIANT InvNeverBetter
INVARIANT InvAggConsistency
INVARIANT InvOrder
INVARIANT InvShift
CHECK_DEADLOCK FALSE
