"""C02 Values matched by coordinates. Spec: Dataset.tla `At` (first occurrence) + verified dimensions; TLC enumerates
inputs listing their coordinates in every order, with extra and repeated entries; replay into text files (rows and
columns additionally shuffled by the materialiser) and NetCDF files."""
import random
from harness import par
from harness.checks import dscommon

replay = dscommon.replay


def run(ctx):
    ctx.rule = ("one case = one dataset whose inputs list times/leads/locations in their own order (all ordered sub-lists of a "
                "3-element pool per dimension, repeated entries for NetCDF) x the request menu; non-trivial = always (orders differ)")
    ctx.assumptions = ["text rows are additionally shuffled with the run's seed; repeated entries only in NetCDF files"]
    rng = random.Random(ctx.seed)
    shuffled = {"row_order": "shuffle", "col_order": "shuffle", "rng": rng}
    if ctx.tier == "quick":
        dscommon.run_family(ctx, "C02Order", fmt="text", variant=shuffled, always_nontrivial=True)
        dscommon.run_family(ctx, "C02Repeat", fmt="auto", always_nontrivial=True)
        # the same coordinates written as date + hour columns, rows grouped by run and rows shuffled
        dscommon.run_family(ctx, "C02Order", fmt="text", variant={"time_format": "datehour"}, limit=150, always_nontrivial=True)
        dscommon.run_family(ctx, "C02Order", fmt="text", variant={"time_format": "datehour", "row_order": "shuffle", "rng": rng}, limit=150, always_nontrivial=True)
        dscommon.run_family(ctx, "C02Sel", fmt="netcdf", limit=300, always_nontrivial=True)
        # lead times that are not whole hours (every lead time divided by 8): each keeps its own slice and its own values (after seed C02-h)
        dscommon.run_family(ctx, "C02Order", fmt="text", variant={"lead_scale": 0.125, "row_order": "shuffle", "rng": rng}, limit=150, always_nontrivial=True)
        dscommon.run_family(ctx, "C02Repeat", fmt="auto", variant={"lead_scale": 0.125}, limit=150, always_nontrivial=True)
        dscommon.run_family(ctx, "C02Three", fmt="text", limit=200, always_nontrivial=True)
        dscommon.run_family(ctx, "C02Close", fmt="text", variant=shuffled, always_nontrivial=True)
        dscommon.run_family(ctx, "C02Close", fmt="netcdf", always_nontrivial=True)
        # values by coordinates also under -T: the windows follow each file's own (unsorted) grid, the results go to the right coordinates
        dscommon.run_family(ctx, "C15T", fmt="netcdf", limit=60, always_nontrivial=True)
        # other fields (quantile columns) by their own coordinates: the second input stores more levels than the first
        dscommon.run_family(ctx, "C01Extra", fmt="text", variant=shuffled, always_nontrivial=True)
        dscommon.run_family(ctx, "C01Extra", fmt="text", fresh=False, always_nontrivial=True)
    else:
        dscommon.run_family(ctx, "C02Order", fmt="text", variant=shuffled, always_nontrivial=True)
        dscommon.run_family(ctx, "C02Order", fmt="netcdf", always_nontrivial=True)
        dscommon.run_family(ctx, "C02Order", fmt="text", variant={"time_format": "datehour"}, always_nontrivial=True)
        dscommon.run_family(ctx, "C02Order", fmt="text", variant={"time_format": "datehour", "row_order": "shuffle", "rng": rng}, always_nontrivial=True)
        dscommon.run_family(ctx, "C02Repeat", fmt="auto", always_nontrivial=True)
        dscommon.run_family(ctx, "C02Sel", fmt="netcdf", always_nontrivial=True)
        dscommon.run_family(ctx, "C02Sel", fmt="text", variant=shuffled, always_nontrivial=True)
        dscommon.run_family(ctx, "C02Order", fmt="text", variant={"lead_scale": 0.125, "row_order": "shuffle", "rng": rng}, always_nontrivial=True)
        dscommon.run_family(ctx, "C02Repeat", fmt="auto", variant={"lead_scale": 0.125}, always_nontrivial=True)
        dscommon.run_family(ctx, "C02All", fmt="text", variant={"row_order": "reverse"}, always_nontrivial=True)
        dscommon.run_family(ctx, "C02Three", fmt="auto", always_nontrivial=True)
        dscommon.run_family(ctx, "C02Close", fmt="text", variant=shuffled, always_nontrivial=True)
        dscommon.run_family(ctx, "C02Close", fmt="netcdf", always_nontrivial=True)
        dscommon.run_family(ctx, "C15T", fmt="netcdf", always_nontrivial=True)
        dscommon.run_family(ctx, "C01Extra", fmt="text", variant=shuffled, always_nontrivial=True)
        dscommon.run_family(ctx, "C01Extra", fmt="text", fresh=False, always_nontrivial=True)
        ctx.exhaustive = True
    par.clean_workdirs()
