SPECIFICATION TraceSpec
CONSTANTS Strict = FALSE
          CopyOnAll = TRUE
INVARIANT HistoryIndependent
INVARIANT EarlierUnaltered
INVARIANT CacheCoherent
CHECK_DEADLOCK FALSE
