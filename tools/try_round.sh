#!/bin/bash
# tools/try_round.sh <round dir prefix, e.g. /tmp/seed3_> <suffix, e.g. c> <id> [<id> ...]: try_seed.sh for every id against its own check
PFX=$1; SFX=$2; shift 2
for id in "$@"; do
  if [ -f $PFX$id/seed_out/patch.diff ]; then
    /verif/tools/try_seed.sh $PFX$id/seed_out $id-$SFX $id
  else
    echo "RESULT $id-$SFX: no patch"
  fi
done
