SPECIFICATION Spec
CONSTANT Kind = "arr"
INVARIANT InvOrder
INVARIANT InvEmpty
INVARIANT InvWindow
CHECK_DEADLOCK FALSE
