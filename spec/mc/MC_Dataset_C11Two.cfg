SPECIFICATION Spec
CONSTANT Family = "C11Two"
INVARIANT InvSameCases
INVARIANT InvSameObs
INVARIANT InvDims
INVARIANT InvPartition
INVARIANT InvNonInterference
CHECK_DEADLOCK FALSE
