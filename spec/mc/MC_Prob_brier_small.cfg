SPECIFICATION Spec
CONSTANTS Kind = "brier"
          Size = "small"
INVARIANT InvDecomposition
INVARIANT InvComplement
INVARIANT InvRange
INVARIANT InvBins
INVARIANT InvEventComplement
INVARIANT InvEnsMonotone
INVARIANT InvPitCounts
CHECK_DEADLOCK FALSE
