"""C18 Query results independent of history. Spec: DataImpl.tla (heap, field cache, request cache, aliasing, in-place
writes) refining Dataset.tla; TLC explores every request sequence up to length 3 over a 24-request menu and checks
HistoryIndependent / EarlierUnaltered / CacheCoherent / CacheGrows; maximal behaviours are replayed on real Data objects
(black box), and hook traces of those executions are validated against the model (white box, MODEL-DRIFT only)."""
import random
from harness import par, tlc, c18replay


def _replay_cfg(ctx, cfg, fmt="text", limit=None):
    res = tlc.run("MC_DataImpl", cfg, tag=ctx.pid + "_" + cfg, timeout_s=1500)
    ctx.add_tlc(cfg, res, {})
    emitted = res.emitted
    if limit and len(emitted) > limit:
        emitted = random.Random(ctx.seed).sample(emitted, limit)
    jobs = [(ds, seqs, fmt) for ds, seqs in c18replay.group(emitted)]
    for out in par.pmap(c18replay.check_group, jobs, chunk=1):
        ctx.traces += out["traces"]
        ctx.evaluations += out["n"]
        for site, detail, rep in out["divs"]:
            ctx.diverge(site, rep, detail=detail)
    for o in emitted:
        rs = [s["r"] for s in o["seq"]]
        if len(set(map(str, rs))) > 1:
            ctx.nontriv(str((o["inputs"], rs)))
    if emitted:
        o = emitted[len(emitted) // 2]
        ctx.sample({"inputs": o["inputs"], "request_sequence": [s["r"] for s in o["seq"]], "expected_last": o["seq"][-1]["e"]})


def run(ctx):
    ctx.rule = ("case = (dataset with inputs that disagree on missing cells, sequence of <= 3 requests from the 24-request menu); "
                "non-trivial = the sequence contains at least two different requests")
    ctx.assumptions = ["observations of different inputs agree where both are present"]
    if ctx.tier == "quick":
        res = tlc.run("MC_DataImpl", "MC_DataImpl_C18QuickFixed", tag=ctx.pid + "_model", timeout_s=900)
        ctx.add_tlc("MC_DataImpl_C18QuickFixed (all sequences <= 3, 16 datasets)", res, {"MaxLen": 3})
        _replay_cfg(ctx, "MC_DataImpl_C18EmitL2")
        _replay_cfg(ctx, "MC_DataImpl_C18EmitL3", limit=4000)
    else:
        res = tlc.run("MC_DataImpl", "MC_DataImpl_C18QuickFixed", tag=ctx.pid + "_model", timeout_s=900)
        ctx.add_tlc("MC_DataImpl_C18QuickFixed (all sequences <= 3, 16 datasets)", res, {"MaxLen": 3})
        res = tlc.run("MC_DataImpl", "MC_DataImpl_C18MixFixed", tag=ctx.pid + "_model2", timeout_s=1500)
        ctx.add_tlc("MC_DataImpl_C18MixFixed (obs-less input, climatology, -obsrange)", res, {"MaxLen": 3})
        _replay_cfg(ctx, "MC_DataImpl_C18EmitL2")
        _replay_cfg(ctx, "MC_DataImpl_C18EmitL2", fmt="netcdf")
        _replay_cfg(ctx, "MC_DataImpl_C18EmitL3")
        _replay_cfg(ctx, "MC_DataImpl_C18EmitMix")
        ctx.exhaustive = True
    par.clean_workdirs()


def replay(ctx, rep):
    out = c18replay.check_group((rep["dataset"], [rep["seq"]] if rep.get("seq") else [], rep.get("format", "text")))
    for site, detail, r in out["divs"]:
        ctx.diverge(site, r, detail=detail)
    print("replay: %d divergence(s)" % len(out["divs"]))
    return 1 if out["divs"] else 0
