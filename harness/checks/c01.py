"""C01 Fair comparison. Spec: Dataset.tla (SameCases, SameObs, NonInterference checked by TLC on every
enumerated dataset); conformance: every TLC dataset is materialised and every request of the menu is
replayed into verif.data.Data on a fresh object."""
from harness import par
from harness.checks import dscommon

replay = dscommon.replay


def run(ctx):
    ctx.rule = ("one case = one TLC-enumerated dataset (all missing patterns of obs/fcst over the grid) with the whole "
                "request menu; non-trivial = some cell is missing in one input and present in another")
    ctx.assumptions = ["observations of different inputs agree where both are present",
                       "text files with an id column, one row per coordinate combination",
                       "values are small integers, exactly representable"]
    if ctx.tier == "quick":
        dscommon.run_family(ctx, "C01Quick", fmt="text")
        dscommon.run_family(ctx, "C01Three", fmt="text", limit=300)
        dscommon.run_family(ctx, "C01Clim", fmt="text", limit=300)
        dscommon.run_family(ctx, "C01Mid", fmt="text", limit=400)
        # the same menu on ONE Data object, as a single command does (several inputs and requests share the caches)
        dscommon.run_family(ctx, "C01ClimNoObs", fmt="text", limit=300, fresh=False)
        dscommon.run_family(ctx, "C01Clim", fmt="text", limit=200, fresh=False)
        # the same cases for every input also under a date / hour-of-day / time selection on files that list their times in different orders
        dscommon.run_family(ctx, "C02Sel", fmt="netcdf", limit=150)
        # missing values marked the NetCDF way (a _FillValue of the file's own choosing, masked by the library)
        dscommon.run_family(ctx, "C01Quick", fmt="netcdf", variant={"nc_missing": "fill"}, limit=150)
        # NetCDF files that list a time, lead time or station twice (the first entry counts), also BEFORE other entries: the cases and the
        # observations of every input are still those at its own coordinates (after seed C01-i)
        dscommon.run_family(ctx, "C02Repeat", fmt="auto", limit=200, always_nontrivial=True)
        # requests that name OTHER fields (quantiles, another score column) together with obs / fcst: every requested field in every input
        dscommon.run_family(ctx, "C01Extra", fmt="text", always_nontrivial=True)
        dscommon.run_family(ctx, "C01Extra", fmt="text", fresh=False, always_nontrivial=True)
        dscommon.run_family(ctx, "C01Close", fmt="text", always_nontrivial=True)
        dscommon.run_family(ctx, "C01Close", fmt="netcdf", always_nontrivial=True)
        # pre-aggregation comes before the comparison of the files: a window that lacks a value in ONE file is no case in ANY file
        dscommon.run_family(ctx, "C15T", fmt="text", limit=120, always_nontrivial=True)
        # scores of several quantities (obs, fcst, two quantiles): each takes the cases in which every quantity IT uses is present
        from harness.checks import c08
        c08._run(ctx, "quant", "small", limit=500)
        ctx.exhaustive = False
    else:
        dscommon.run_family(ctx, "C01Full", fmt="text", timeout_s=1500)
        dscommon.run_family(ctx, "C01NoObs", fmt="text")
        dscommon.run_family(ctx, "C01Three", fmt="text")
        dscommon.run_family(ctx, "C01Clim", fmt="text")
        dscommon.run_family(ctx, "C01Mid", fmt="text")
        dscommon.run_family(ctx, "C01ClimNoObs", fmt="text", fresh=False)
        dscommon.run_family(ctx, "C01ClimNoObs", fmt="text", fresh=True)
        dscommon.run_family(ctx, "C01Clim", fmt="text", fresh=False)
        dscommon.run_family(ctx, "C01NoObs", fmt="text", fresh=False)
        dscommon.run_family(ctx, "C01Quick", fmt="netcdf")
        dscommon.run_family(ctx, "C02Sel", fmt="netcdf")
        dscommon.run_family(ctx, "C02Repeat", fmt="auto", always_nontrivial=True)
        dscommon.run_family(ctx, "C01Extra", fmt="text", always_nontrivial=True)
        dscommon.run_family(ctx, "C01Extra", fmt="text", fresh=False, always_nontrivial=True)
        dscommon.run_family(ctx, "C01Close", fmt="text", always_nontrivial=True)
        dscommon.run_family(ctx, "C01Close", fmt="netcdf", always_nontrivial=True)
        dscommon.run_family(ctx, "C15T", fmt="text", always_nontrivial=True)
        from harness.checks import c08
        c08._run(ctx, "quant", "small")
        ctx.exhaustive = True
    par.clean_workdirs()
