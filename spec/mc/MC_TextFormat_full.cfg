SPECIFICATION Spec
CONSTANT Universe = "full"
INVARIANT InvColumnOrder
INVARIANT InvRowOrder
INVARIANT InvIntended
CHECK_DEADLOCK FALSE
