--------------------------- MODULE Trace_TextFormat ---------------------------
(* Trace validation of verif.input.Text against TextFormat.tla: for every file   *)
(* read with the hooks on, the recorded column classification (TextHeader) and    *)
(* the final dimension lists (TextDims) must be what the specification derives    *)
(* from the literal file.  One trace = one file; a batch holds many.             *)
EXTENDS TextFormat, Json, IOUtils, TLCExt, SequencesExt
VARIABLES tid, l
tvars == <<tid, l>>
Batch == JsonDeserialize(IOEnv.TRACE_FILE)
Traces == Batch.traces
Events == Traces[tid].events
TokOf(t) == [m |-> t.m, v |-> <<t.v[1], t.v[2]>>, txt |-> t.txt]
FileOfTrace(t) == [meta |-> t.meta, header |-> t.header, rows |-> [r \in DOMAIN t.rows |-> [k \in DOMAIN t.header |-> TokOf(t.rows[r][k])]]]
FF == FileOfTrace(Traces[tid])
NamesOfClass(cls) == {FF.header[k] : k \in Col(FF, cls)}
PairSet(s) == {<<s[k][1], s[k][2]>> : k \in DOMAIN s}
Init == tid \in DOMAIN Traces /\ l = 1
TraceHeader == /\ l <= Len(Events) /\ Events[l].ev = "TextHeader"
               /\ ToSet(Events[l].header) = {FF.header[k] : k \in DOMAIN FF.header}
               /\ ToSet(Events[l].threshold) = NamesOfClass("threshold")
               /\ ToSet(Events[l].quantile) = NamesOfClass("quantile")
               /\ ToSet(Events[l].member) = NamesOfClass("member")
               /\ ToSet(Events[l].other) \ {N_pit} = NamesOfClass("other")         \* (pit is also listed there: envelope of C09)
               /\ l' = l + 1 /\ tid' = tid
TraceDims == /\ l <= Len(Events) /\ Events[l].ev = "TextDims"
             /\ LET P == Parse(FF) IN
                /\ PairSet(Events[l].times) = {R(P.times[k]) : k \in DOMAIN P.times}
                /\ PairSet(Events[l].leadtimes) = Elems(P.leads)
                /\ IF HasCol(FF, "id") THEN PairSet(Events[l].ids) = {R(P.ids[k]) : k \in DOMAIN P.ids}
                   ELSE Cardinality(PairSet(Events[l].ids)) = Cardinality(LocationsNoId(FF)) /\ Len(Events[l].ids) = Len(P.ids)   \* the numbers of id-less sites are the reader's own
                /\ PairSet(Events[l].thresholds) = P.thresholds /\ PairSet(Events[l].quantiles) = P.quantiles /\ PairSet(Events[l].members) = P.members
             /\ l' = l + 1 /\ tid' = tid
TraceDone == l = Len(Events) + 1 /\ l' = l + 1 /\ tid' = tid /\ PrintT(ToJson([accept |-> Traces[tid].id]))
Next == TraceHeader \/ TraceDims \/ TraceDone
Spec == Init /\ [][Next]_tvars
InvLoop == LoopRefinesParse(FF)
=============================================================================
