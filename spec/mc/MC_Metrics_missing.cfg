SPECIFICATION Spec
CONSTANT Universe = "missing"
INVARIANT InvPerfectAttains
INVARIANT InvPerfectAgg
INVARIANT InvNeverBetter
INVARIANT InvAggConsistency
INVARIANT InvOrder
CHECK_DEADLOCK FALSE
