"""C09 Text input read faithfully. Spec: TextFormat.tla (column classification by name, coordinates of a row, first-seen
location metadata, Decode of missing tokens, absent combinations missing, metadata lines) with ColumnOrderInvariant /
RowOrderInvariant checked by TLC on every generated file; every literal file is written out and read with
verif.input.Text, whose attributes are projected by coordinates and compared with Parse(file)."""
import math
import os
import random

from harness import tlc, par
from harness.materialize import num, fmt
from harness.dsreplay import quiet, exc_site, close


def render(obj, sep=" ", extra_comment=None):
    lines = []
    for m in obj["meta"]:
        lines.append("# %s: %s" % (m["key"], m["value"]))
    if extra_comment:
        lines.append(extra_comment)
    lines.append(sep.join("".join(name) for name in obj["header"]))
    for row in obj["rows"]:
        toks = []
        for t in row:
            toks.append(t["lit"] if "lit" in t else fmt(num(t["num"]) if isinstance(t["num"], list) else t["num"]))
        lines.append(sep.join(toks))
    return "\n".join(lines) + "\n"


def project(inp):
    """verif.input.Text object -> coordinate-keyed plain data"""
    import numpy as np
    times = [float(t) for t in inp.times]
    leads = [float(x) for x in inp.leadtimes]
    ids = [float(loc.id) for loc in inp.locations]
    out = {"times": times, "leads": leads,
           "locations": {float(loc.id): (float(loc.lat), float(loc.lon), float(loc.elev)) for loc in inp.locations}}

    def field(arr):
        d = {}
        if arr is None:
            return None
        a = np.asarray(arr, float)
        for i, t in enumerate(times):
            for j, l in enumerate(leads):
                for k, s in enumerate(ids):
                    v = float(a[i, j, k])
                    if not math.isnan(v):
                        d[(t, l, s)] = v
        return d
    out["obs"] = field(inp.obs)
    out["fcst"] = field(inp.fcst)
    out["pit"] = field(inp.pit)
    out["cdf"] = {float(th): field(np.asarray(inp.threshold_scores)[:, :, :, n]) for n, th in enumerate(inp.thresholds)}
    out["x"] = {float(q): field(np.asarray(inp.quantile_scores)[:, :, :, n]) for n, q in enumerate(inp.quantiles)}
    members = list(getattr(inp, "members", []))
    out["ens"] = {float(m): field(np.asarray(inp.ensemble)[:, :, :, n]) for n, m in enumerate(members)}
    out["other"] = {name: field(inp.other_score(name)) for name in inp.other_fields}
    v = inp.variable
    out["variable"] = {"name": v.name, "units": v.units, "x0": v.x0, "x1": v.x1}
    return out


def cells(lst):
    return {(float(c[0]), num(c[1]), float(c[2])): num(c[3]) for c in lst}


def _near(a, b):
    return abs(a - b) <= 1e-6 * max(1.0, abs(a), abs(b))


def _rekey(levels, d):
    """match float32-rounded level keys of d to the exact expected levels"""
    out = {}
    for lv in levels:
        for k in d:
            if _near(lv, k):
                out[lv] = d[k]
    return out


def compare(exp, got, ordered=True, rtol=1e-9):
    """returns list of (site, message). ordered=False: dimension lists are compared as sorted lists (a NetCDF input keeps
    the file's own order; the order of an Input's dimension lists is not part of any property)"""
    bad = []
    if not ordered:
        got = dict(got)
        got["times"] = sorted(got["times"])
        got["leads"] = sorted(got["leads"])
    if [float(t) for t in exp["times"]] != got["times"]:
        bad.append(("text:times", "times: expected %r observed %r" % (exp["times"], got["times"])))
    if [num(x) for x in exp["leads"]] != got["leads"]:
        bad.append(("text:leadtimes", "lead times: expected %r observed %r" % ([num(x) for x in exp["leads"]], got["leads"])))
    eloc = {float(l["id"]): (num(l["lat"]), num(l["lon"]), num(l["elev"])) for l in exp["locations"]}
    if eloc != got["locations"]:
        bad.append(("text:locations", "locations: expected %r observed %r" % (eloc, got["locations"])))
    if bad:
        return bad

    def cmp_field(site, name, e, g):
        if g is None:
            g = {}
        if set(e) != set(g):
            bad.append((site, "%s: present cells differ: only expected %r, only observed %r" % (name, sorted(set(e) - set(g))[:4], sorted(set(g) - set(e))[:4])))
            return
        for key in e:
            if not close(e[key], g[key], rtol):
                bad.append((site, "%s at (time, lead, id)=%r: expected %r observed %r" % (name, key, e[key], g[key])))
                return
    for f in ("obs", "fcst", "pit"):
        has = exp["has" + f.capitalize()]
        if has:
            cmp_field("text:" + f, f, cells(exp[f]), got[f])
        elif got[f] is not None and len(got[f]) > 0:
            bad.append(("text:" + f, "%s: file has no such column but the input carries values %r" % (f, list(got[f].items())[:3])))
    for key, levels, gkey in (("cdf", "thresholds", "cdf"), ("x", "quantiles", "x"), ("ens", "members", "ens")):
        elev = sorted(num(v) for v in exp[levels])
        glev = sorted(got[gkey])
        if len(elev) == len(glev) and all(_near(a, b) for a, b in zip(elev, glev)):
            got = dict(got)
            got[gkey] = _rekey(elev, got[gkey])
            glev = elev
        if elev != glev:
            bad.append(("text:" + levels, "%s: expected %r observed %r" % (levels, elev, glev)))
            continue
        for entry in exp[key]:
            cmp_field("text:" + key, "%s[%r]" % (key, num(entry["level"])), cells(entry["cells"]), got[gkey][num(entry["level"])])
    enames = sorted("".join(e["name"]) for e in exp["other"])
    # envelope: the reader also lists a `pit` column among the other-score fields (in addition to input.pit); harmless
    gnames = sorted(nm for nm in got["other"] if nm != "pit")
    if enames != gnames:
        bad.append(("text:other-fields", "other fields: expected %r observed %r" % (enames, gnames)))
    else:
        for entry in exp["other"]:
            nm = "".join(entry["name"])
            cmp_field("text:other", "other field %s" % nm, cells(entry["cells"]), got["other"][nm])
    ev, gv = exp["variable"], got["variable"]
    if ev["name"] != "(default)" and ev["name"] != gv["name"]:
        bad.append(("text:variable", "variable name: expected %r observed %r" % (ev["name"], gv["name"])))
    if ev["units"] != "(default)" and ev["units"] != gv["units"]:
        bad.append(("text:variable", "units: expected %r observed %r" % (ev["units"], gv["units"])))
    for k in ("x0", "x1"):
        if ev[k] != "(default)" and (gv[k] is None or float(ev[k]) != float(gv[k])):
            bad.append(("text:variable", "%s: expected %r observed %r" % (k, ev[k], gv[k])))
        # only a '# x0:' / '# x1:' line gives the variable a discrete mass (TextFormat!NoMassWithoutLine): whatever the variable is called,
        # a file without the line has none -- otherwise its pit column would be randomised at that value instead of being read as written
        if ev[k] == "(default)" and gv[k] is not None:
            bad.append(("text:variable", "%s: the file has no '# %s:' line, yet the variable %r carries %s=%r" % (k, k, gv["name"], k, gv[k])))
    return bad


def _tok_for_tlc(t):
    from fractions import Fraction
    if "lit" in t:
        try:
            f = Fraction(t["lit"])
            return {"m": False, "v": [f.numerator, f.denominator], "txt": t["lit"]}
        except (ValueError, ZeroDivisionError):
            return {"m": True, "v": [0, 0], "txt": t["lit"]}
    v = t["num"]
    return {"m": False, "v": v if isinstance(v, list) else [v, 1], "txt": ""}


def _trace_of(obj, events):
    """literal file + recorded reader events -> a trace for Trace_TextFormat"""
    from harness.c18replay import pair
    evs = []
    for e in events:
        if e["ev"] == "TextHeader":
            evs.append({"ev": "TextHeader", "header": [list(x) for x in e["header"]], "threshold": [list(x) for x in e["threshold"]],
                        "quantile": [list(x) for x in e["quantile"]], "member": [list(x) for x in e["member"]], "other": [list(x) for x in e["other"]]})
        elif e["ev"] == "TextDims":
            evs.append({"ev": "TextDims", "times": [pair(x) for x in e["times"]], "leadtimes": [pair(x) for x in e["leadtimes"]],
                        "ids": [pair(x) for x in e["ids"]], "thresholds": [pair(x) for x in e["thresholds"]],
                        "quantiles": [pair(x) for x in e["quantiles"]], "members": [pair(x) for x in e["members"]]})
    if not evs:
        return {"nohooks": True}
    return {"meta": obj["meta"], "header": obj["header"], "rows": [[_tok_for_tlc(t) for t in row] for row in obj["rows"]], "events": evs}


def noid_variant(obj):
    """the same file WITHOUT its location / id column: the sites are then told apart by latitude, longitude and elevation alone.  Here they
    share latitude and elevation and lie a millionth of a degree apart in longitude (after seed C09-h): still different sites, each
    with its own values.  File and expectation are rewritten together; the ids the reader invents are not compared."""
    import copy
    names = ["".join(h) for h in obj["header"]]
    ki = [k for k, h in enumerate(names) if h in ("location", "id")]
    if len(ki) != 1 or "lat" not in names or "lon" not in names:
        return None
    ki = ki[0]
    o = copy.deepcopy(obj)
    klat, klon = names.index("lat"), names.index("lon")
    kel = [k for k, h in enumerate(names) if h in ("altitude", "elev")]
    lon_of = lambda i: "%.6f" % (10.72 + 1e-6 * float(i))
    rows = []
    for row in o["rows"]:
        t = row[ki]
        i = num(t["num"]) if isinstance(t["num"], list) else t["num"]
        row[klat] = {"lit": "40"}
        row[klon] = {"lit": lon_of(i)}
        for k in kel:
            row[k] = {"lit": "100"}
        rows.append([c for k, c in enumerate(row) if k != ki])
    o["rows"] = rows
    o["header"] = [h for k, h in enumerate(o["header"]) if k != ki]
    for l in o["input"]["locations"]:
        l["lat"], l["lon"] = 40, float(lon_of(l["id"]))
        if kel:
            l["elev"] = 100
    o["noid"] = True
    return o


def _rekey_noid(exp, got):
    """an id-less file: the reader numbers the sites itself; they are matched to the expected ones by their coordinates"""
    want = {(round(num(l["lat"]), 7), round(num(l["lon"]), 7), round(num(l["elev"]), 7)): float(l["id"]) for l in exp["locations"]}
    m = {}
    for gid, c in got["locations"].items():
        key = tuple(round(x, 7) for x in c)
        if key not in want or want[key] in m.values():
            return None
        m[gid] = want[key]
    out = dict(got)
    out["locations"] = {m[g]: c for g, c in got["locations"].items()}

    def rk(d):
        if d is None:
            return None
        if d and not isinstance(next(iter(d)), tuple):
            return {k: rk(v) for k, v in d.items()}
        return {(t, l, m[s]): v for (t, l, s), v in d.items()}
    for name in ("obs", "fcst", "pit", "cdf", "x", "ens", "other"):
        out[name] = rk(got[name])
    return out


def _check_chunk(jobs):
    import json
    import verif.input
    n = 0
    divs = []
    traces = []
    wd = par.workdir()
    hook = os.path.join(wd, "text_hook.ndjson")
    for obj, sep, comment in jobs:
        text = render(obj, sep, comment)
        path = os.path.join(wd, "file.txt")
        with open(path, "w") as f:
            f.write(text)
        spec_noid = not any("".join(h) in ("location", "id") for h in obj["header"])        # id-less by TextFormat!LocationsNoId (emitted by TLC)
        rep = {"kind": "textfile", "file": text, "expected": obj["input"], "gen": obj.get("gen"), "noid": bool(obj.get("noid")) or spec_noid}
        try:
            if obj.get("noid"):
                with quiet():
                    inp = verif.input.Text(path)
                    got = project(inp)
                n += 1
                rk = _rekey_noid(obj["input"], got)
                if rk is None:
                    divs.append(("text:locations:no-id-column", "a file without a location column, sites a millionth of a degree apart: expected the sites %r, "
                                 "observed %r" % ([(l["lat"], l["lon"], l["elev"]) for l in obj["input"]["locations"]], sorted(got["locations"].values())), rep))
                    continue
                for site, msg in compare(obj["input"], rk):
                    divs.append((site + ":no-id-column", msg, rep))
                continue
            open(hook, "w").close()
            os.environ["VERIF_TLA_TRACE"] = hook
            try:
                with quiet():
                    inp = verif.input.Text(path)
            finally:
                os.environ.pop("VERIF_TLA_TRACE", None)
            with open(hook) as hf:
                traces.append(_trace_of(obj, [json.loads(x) for x in hf if x.strip()]))
            with quiet():
                got = project(inp)
            n += 1
            if spec_noid:
                got = _rekey_noid(obj["input"], got)
                if got is None:
                    divs.append(("text:locations:no-id-column", "a file without a location column: expected the sites %r, observed other sites"
                                 % ([(l["lat"], l["lon"], l["elev"]) for l in obj["input"]["locations"]],), rep))
                    continue
            for site, msg in compare(obj["input"], got):
                divs.append((site + (":no-id-column" if spec_noid else ""), msg, rep))
            # the documented way in: verif.input.get_input(file name).  Every file of this process is written to the SAME path, one after the
            # other -- what is read is what the file holds now, not what a file of that name held before (after seed C09-j)
            with quiet():
                got2 = project(verif.input.get_input(path))
            n += 1
            if spec_noid:
                got2 = _rekey_noid(obj["input"], got2)
            bad2 = [("text:locations:no-id-column", "other sites than the file's")] if got2 is None else compare(obj["input"], got2)
            for site, msg in bad2[:2]:
                divs.append((site + ":through-get_input", msg + " [read with verif.input.get_input, the path had held another file before]", rep))
        except SystemExit:
            divs.append(("text:error-exit", "reading a well-formed file ended in an error exit", rep))
        except Exception as e:
            site = exc_site(e)
            divs.append((site, "%r (comment line %r)" % (e, comment), rep))
    return n, divs, traces


def _validate_reader_traces(ctx, recorded):
    """code -> spec: column classification and final dimension lists recorded from the real reader, checked by TLC (Trace_TextFormat)"""
    import json
    from harness import core
    traces = [t for t in recorded if not t.get("nohooks")]
    if len(traces) < len(recorded):
        ctx.note_drift("text reader hooks absent or silent for %d of %d files; reader trace validation skipped for them" % (len(recorded) - len(traces), len(recorded)))
    if not traces:
        return
    for k, t in enumerate(traces):
        t["id"] = k + 1
    os.makedirs(os.path.join(core.BUILD, "traces"), exist_ok=True)
    path = os.path.join(core.BUILD, "traces", "C09_reader.json")
    with open(path, "w") as f:
        json.dump({"traces": traces}, f)
    res = tlc.run("Trace_TextFormat", "Trace_TextFormat", tag=ctx.pid + "_trace", workers=8, timeout_s=1800, env={"TRACE_FILE": path}, require_emit=False)
    ctx.add_tlc("Trace_TextFormat (%d recorded reads)" % len(traces), res)
    ok = set(o["accept"] for o in res.emitted if "accept" in o)
    ctx.extra["reader_traces_recorded"] = len(traces)
    ctx.extra["reader_traces_accepted_by_tlc"] = len(ok)
    for t in [t for t in traces if t["id"] not in ok][:3]:
        ctx.note_drift("the reader's recorded column classification / dimension lists are not what TextFormat.tla derives from the file with header %r: %r"
                       % (["".join(h) for h in t["header"]], [{k: v for k, v in e.items() if k != "header"} for e in t["events"]]))


def run(ctx):
    ctx.rule = ("case = one literal text file generated by MC_TextFormat (column subset/order/spelling, time format, row order, absent "
                "rows, missing tokens, metadata lines) x separator (blank, tab, several blanks) x optional comment line; "
                "non-trivial = every file (all differ from the base layout in at least one respect)")
    ctx.assumptions = ["one row per coordinate combination; the same lat/lon/elev on every row of an id; no blank lines",
                       "defaults of absent metadata lines are not compared"]
    u = "quick" if ctx.tier == "quick" else "full"
    res = tlc.run("MC_TextFormat", "MC_TextFormat_" + u, tag=ctx.pid + "_" + u, timeout_s=3000)
    ctx.add_tlc("MC_TextFormat/" + u, res, {"Universe": u})
    rng = random.Random(ctx.seed)
    jobs = []
    for o in res.emitted:
        jobs.append((o, " ", None))
        jobs.append((o, rng.choice(["\t", "   ", " \t "]), rng.choice([None, "# a comment line", "#comment without blank", "#"])))
    # the same files without their location column (sites told apart by coordinates that differ by a millionth of a degree)
    noid = [v for v in (noid_variant(o) for o in res.emitted) if v is not None]
    if ctx.tier == "quick":
        noid = rng.sample(noid, min(len(noid), 80))
    jobs += [(o, " ", None) for o in noid]
    ctx.extra["files_without_location_column"] = len(noid)
    chunks = [jobs[i:i + 20] for i in range(0, len(jobs), 20)]
    recorded = []
    for n, divs, traces in par.pmap(_check_chunk, chunks, chunk=1):
        ctx.evaluations += n
        recorded += traces
        for site, detail, rep in divs:
            known = site.startswith("exception:IndexError@input.py") and "'#'" in detail
            ctx.diverge("text:bare-comment-line" if known else site, rep, as_implemented=known, detail=detail)
    _validate_reader_traces(ctx, recorded)
    ctx.traces += len(jobs)
    for o, sep, c in jobs:
        ctx.nontriv(str((o["header"], o["gen"], sep, c)))
    if res.emitted:
        ctx.sample({"file": render(res.emitted[len(res.emitted) // 2]), "expected_times": res.emitted[len(res.emitted) // 2]["input"]["times"]})
    ctx.exhaustive = ctx.tier != "quick"
    par.clean_workdirs()


def replay(ctx, rep):
    import verif.input
    path = os.path.join(par.workdir(), "replay.txt")
    with open(path, "w") as f:
        f.write(rep["file"])
    with quiet():
        got = project(verif.input.Text(path))
    if rep.get("noid"):
        got = _rekey_noid(rep["expected"], got)
        if got is None:
            ctx.diverge(rep.get("site", "text:locations:no-id-column"), rep, detail="the sites read do not match the expected ones")
            print("replay: 1 divergence(s)")
            return 1
    bad = compare(rep["expected"], got)
    for site, msg in bad:
        ctx.diverge(site, rep, detail=msg)
    print("replay: %d divergence(s)" % len(bad))
    return 1 if bad else 0
