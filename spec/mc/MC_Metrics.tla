----------------------------- MODULE MC_Metrics -----------------------------
(* Deterministic scores (C05): every obs/fcst vector of a small universe.    *)
(* TLC checks PerfectAttains / NeverBetter / AggregatorConsistency and emits *)
(* the expected value of every metric (and metric x aggregator) as an Expr.  *)
EXTENDS KnownFindings, TLC, Json, SequencesExt
CONSTANTS Universe     \* "small" | "full" | "missing" | "len4"
VARIABLES v, phase
vars == <<v, phase>>

Vals(u) == IF u = "small" THEN {R(-1), R(0), R(1), R(2)}
           ELSE IF u = "full" THEN {R(-2), R(-1), R(0), R(1), R(2)}
           ELSE IF u = "missing" THEN {R(0), R(1), NaN}
           ELSE {R(0), R(1), R(2)}
PairSet(u) == Vals(u) \X Vals(u)
Vectors(u) ==
  IF u = "len4" THEN {<<a, b, c, d>> : a \in PairSet(u), b \in PairSet(u), c \in PairSet(u), d \in PairSet(u)}
  ELSE {<<>>} \cup {<<a>> : a \in PairSet(u)} \cup {<<a, b>> : a \in PairSet(u), b \in PairSet(u)}
       \cup {<<a, b, c>> : a \in PairSet(u), b \in PairSet(u), c \in PairSet(u)}

J(x) == IF IsNaN(x) THEN "nan" ELSE IF IsInf(x) THEN (IF x[1] > 0 THEN "inf" ELSE "-inf") ELSE IF x[2] = 1 THEN x[1] ELSE x
QLevels == <<Frac(1, 4), Frac(9, 10), Frac(39, 40), Frac(1, 8)>>      \* the last two are not whole percents

obsSeq == [k \in DOMAIN v |-> v[k][1]]
fcstSeq == [k \in DOMAIN v |-> v[k][2]]
P == ValidPairs(obsSeq, fcstSeq)

Emit ==
  PrintT(ToJson([o |-> [k \in DOMAIN v |-> J(v[k][1])], f |-> [k \in DOMAIN v |-> J(v[k][2])], n |-> N(P),
                 det |-> [m \in DetMetrics |-> Det(m, P, "mean", Zero)],
                 agg |-> [m \in {"mae", "bias", "diff", "ratio", "rmse", "cmae"} |-> [a \in AggNames |-> Det(m, P, a, Zero)]],
                 quant |-> [m \in {"mae", "bias", "rmse"} |-> [k \in DOMAIN QLevels |-> Det(m, P, "quantile", QLevels[k])]],
                 qlevels |-> [k \in DOMAIN QLevels |-> J(QLevels[k])],
                 shiftF |-> SetToSeq(FcstShiftInvariant), shiftBoth |-> SetToSeq(CommonShiftInvariant), scaleBoth |-> SetToSeq(ScaleInvariant),
                 within |-> [bt \in {"below", "below=", "above", "above=", "within", "=within="} |-> WithinPct(P, bt, R(1), R(2))],
                 impl |-> [alphaindex |-> Alphaindex_AsImplemented(P), leps |-> Leps_AsImplemented(P)]]))

Init == v \in Vectors(Universe) /\ phase = "vector"
Evaluate == phase = "vector" /\ phase' = "emitted" /\ v' = v /\ Emit
Next == Evaluate
Spec == Init /\ [][Next]_vars

InvPerfectAttains == \A m \in SkillMetrics \ {"bias", "diff", "ratio"} : PerfectAttains(m, O(P))
InvPerfectAgg == \A m \in {"bias", "diff"} : PerfectAttains(m, O(P))
InvNeverBetter == \A m \in DetMetrics : NeverBetter(m, P)
InvAggConsistency == AggregatorConsistency(P)
InvOrder == OrderLemmas(Err(P))
InvShift == ShiftLemmas(P)
InvScale == N(P) = 0 \/ ScaleLemmas(P)
=============================================================================
