SPECIFICATION Spec
CONSTANT Kind = "win"
INVARIANT InvOrder
INVARIANT InvEmpty
INVARIANT InvWindow
CHECK_DEADLOCK FALSE
