SPECIFICATION Spec
CONSTANT Family = "C03K2"
INVARIANT InvSameCases
INVARIANT InvSameObs
INVARIANT InvDims
INVARIANT InvPartition
INVARIANT InvNonInterference
CHECK_DEADLOCK FALSE
