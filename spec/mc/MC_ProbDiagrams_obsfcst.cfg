SPECIFICATION Spec
CONSTANT Only = "obsfcst"
INVARIANT InvEveryCaseInOneBin
INVARIANT InvPitBins
CHECK_DEADLOCK FALSE
