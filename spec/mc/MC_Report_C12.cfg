SPECIFICATION Spec
CONSTANT Family = "C12Report"
INVARIANT InvShape
INVARIANT InvAcc
INVARIANT InvCondDisjoint
CHECK_DEADLOCK FALSE
