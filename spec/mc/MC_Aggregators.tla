---------------------------- MODULE MC_Aggregators ----------------------------
(* C15: (vec) every vector of length 1..4 over a small alphabet x all           *)
(* aggregators; (arr) arrays of shape 2x2x2 / 2x3x1 / 1x2x3 along every          *)
(* dimension; (win) every lead-time grid drawn from {0,1,2,3,5,8} in file order  *)
(* (increasing, or permuted) x window length x aggregator.                       *)
EXTENDS Aggregators, TLC, Json
CONSTANT Kind
VARIABLES c, phase
vars == <<c, phase>>

J(x) == IF IsNaN(x) THEN "nan" ELSE IF IsInf(x) THEN (IF x[1] > 0 THEN "inf" ELSE "-inf") ELSE IF x[2] = 1 THEN x[1] ELSE x
QL == <<Zero, Frac(1, 4), Frac(1, 2), Frac(9, 10), One, Frac(39, 40), Frac(1, 8)>>       \* also levels that are not whole percents (0.975, 0.125)
VV == {R(-2), R(0), R(1), R(3), NaN}
Vecs(u) == {<<a>> : a \in VV} \cup {<<a, b>> : a \in VV, b \in VV} \cup {<<a, b, d>> : a \in VV, b \in VV, d \in VV}
           \cup {<<a, b, d, e>> : a \in VV \ {NaN}, b \in VV \ {NaN}, d \in VV \ {NaN}, e \in VV \ {NaN}}
AV == {R(0), R(1), R(4)}
Shapes == {<<2, 2, 2>>, <<2, 3, 1>>, <<1, 2, 3>>}
RECURSIVE AllSeqs(_, _)
AllSeqs(S, n) == IF n = 0 THEN {<<>>} ELSE {<<x>> \o t : x \in S, t \in AllSeqs(S, n - 1)}
Arrays(u) == UNION {{[shape |-> sh, flat |-> f] : f \in AllSeqs(AV, sh[1] * sh[2] * sh[3])} : sh \in Shapes}
GridPool == <<0, 1, 2, 3, 5, 8>>
GridSets == {S \in SUBSET (1..6) : S # {} /\ Cardinality(S) <= 4}
\* file orders of a grid: increasing, decreasing, and a rotation (unsorted dimension entries are legal, C02)
Orders(S) == LET inc == SortInts(S)  n == Len(inc) IN
             {[k \in 1..n |-> R(GridPool[inc[k]])], [k \in 1..n |-> R(GridPool[inc[n + 1 - k]])],
              [k \in 1..n |-> R(GridPool[inc[(k % n) + 1]])]}
SeriesOf(grid) == [k \in DOMAIN grid |-> Add(Mul(grid[k], grid[k]), R(1))]       \* value encodes its own grid point: g^2 + 1
Wins(u) == {[grid |-> g, h |-> R(h), agg |-> a] : g \in UNION {Orders(S) : S \in GridSets}, h \in {1, 2, 3, 4, 9},
             a \in {"mean", "sum", "min", "max", "change", "median", "count"}}

Cases(u) == IF Kind = "vec" THEN {[kind |-> "vec", v |-> v] : v \in Vecs(u)}
            ELSE IF Kind = "arr" THEN {[kind |-> "arr", a |-> a] : a \in Arrays(u)}
            ELSE {[kind |-> "win", w |-> w] : w \in Wins(u)}

Emit ==
  IF c.kind = "vec"
  THEN PrintT(ToJson([kind |-> "vec", v |-> [k \in DOMAIN c.v |-> J(c.v[k])],
                      agg |-> [a \in AggNames |-> Agg(a, Zero, c.v)],
                      quant |-> [k \in DOMAIN QL |-> Agg("quantile", QL[k], c.v)], qlevels |-> [k \in DOMAIN QL |-> J(QL[k])]]))
  ELSE IF c.kind = "arr"
  THEN PrintT(ToJson([kind |-> "arr", shape |-> c.a.shape, flat |-> [k \in DOMAIN c.a.flat |-> J(c.a.flat[k])],
                      along |-> [ax \in 1..3 |-> [a \in AggNames |-> Along3(c.a.shape, c.a.flat, ax, a, Zero)]]]))
  ELSE PrintT(ToJson([kind |-> "win", grid |-> [k \in DOMAIN c.w.grid |-> J(c.w.grid[k])], h |-> J(c.w.h), agg |-> c.w.agg,
                      series |-> [k \in DOMAIN c.w.grid |-> J(SeriesOf(c.w.grid)[k])],
                      increasing |-> IncreasingGrid(c.w.grid),
                      out |-> PreAgg(SeriesOf(c.w.grid), c.w.grid, c.w.h, c.w.agg, Zero)]))
Init == c \in Cases(0) /\ phase = "case"
Evaluate == phase = "case" /\ phase' = "emitted" /\ c' = c /\ Emit
Next == Evaluate
Spec == Init /\ [][Next]_vars
InvOrder == c.kind = "vec" => OrderLemmas(c.v)
InvEmpty == EmptyIsUndefined
InvWindow == c.kind = "win" => WindowLemmas(c.w.grid, c.w.h)
\* ---- witnesses against vacuity (tools/vacuity.py): each is the NEGATION of a lemma's antecedent and must be VIOLATED by some enumerated case ----
W_IncreasingGrid == ~(c.kind = "win" /\ IncreasingGrid(c.w.grid) /\ Len(c.w.grid) >= 3)
W_PermutedGrid == ~(c.kind = "win" /\ ~IncreasingGrid(c.w.grid))
W_NoMissing == ~(c.kind = "vec" /\ Len(c.v) >= 2 /\ ~HasNaN(c.v))
=============================================================================
