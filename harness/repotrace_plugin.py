"""pytest plugin (lives in /verif, never in the repository): records every verif.data.Data object that the REPOSITORY'S OWN
test-suite builds and every top-level get_scores call made on it, projected into the abstract domain of Dataset.tla /
DataImpl.tla.  Together with the hook events (VERIF_TLA_TRACE) each object becomes one trace that TLC validates with
Trace_DataImpl: the verified dimensions (event Dims), a construction that ended in an error exit (event InitError, allowed only
for an empty selection) and every returned array (event GetScores).  The tests' own assertions are much weaker than the
invariants TLC evaluates at every step of these executions.

Loaded with `-p harness.repotrace_plugin`; writes VERIF_REPOTRACE_OUT (json) at the end of the session.
Nothing here computes an expected value: the plugin only projects what the code was given and what it returned."""
import inspect
import json
import os
from fractions import Fraction

import numpy as np

RECORDS = []
STATE = {"test": "", "depth": 0}
SCALE = 10000     # lat / lon / elev are carried as integers: thousandths


class OutOfDomain(Exception):
    pass


def pair(x):
    x = float(x)
    if x != x:
        return [0, 0]
    if x in (float("inf"), float("-inf")):
        return [1 if x > 0 else -1, 0]
    if abs(x) > 1e6:
        raise OutOfDomain("value beyond the model's integers: %r" % x)
    f = Fraction(x).limit_denominator(10 ** 6)
    if abs(float(f) - x) > 2e-6 * max(1.0, abs(x)):
        raise OutOfDomain("value not a small rational: %r" % x)
    return [f.numerator, f.denominator]


def whole(x, what, scale=1):
    x = float(x)
    if x != x or abs(x * scale) >= 2 ** 31 - 1:
        raise OutOfDomain("%s outside the model's domain: %r" % (what, x))
    r = round(x * scale)
    if abs(r - x * scale) > (0.05 if scale > 1 else 1e-3):       # float32 metadata: 60.6 is 60.59999847, 59.9423 is 59.94229889
        raise OutOfDomain("%s is not a multiple of 1/%d: %r" % (what, scale, x))
    return int(r)


def project_input(inp):
    import verif.field
    times = [whole(t, "time") for t in inp.times]
    leads = [whole(t, "lead time") for t in inp.leadtimes]
    locs = [whole(l.id, "location id") for l in inp.locations]
    lat = [whole(l.lat, "latitude", SCALE) for l in inp.locations]
    lon = [whole(l.lon, "longitude", SCALE) for l in inp.locations]
    elev = [whole(l.elev, "elevation", SCALE) for l in inp.locations]
    fields = inp.get_fields()
    has_obs = verif.field.Obs() in fields
    n = len(times) * len(leads) * len(locs)
    if n == 0 or n > 4000:
        raise OutOfDomain("%d cells" % n)

    def flat(a):
        a = np.asarray(a, float)
        if a.shape != (len(times), len(leads), len(locs)):
            raise OutOfDomain("array shape %r" % (a.shape,))
        a = a.reshape(-1)
        # the reader's missing-value decoding (C04 / C09 / C10 hold it) is applied here the way Data applies it: verif.util.clean
        return [pair(v) if abs(v) < 1e30 and v != -999 else [0, 0] for v in a]
    if verif.field.Fcst() not in fields:
        raise OutOfDomain("input without forecasts")
    fcst = flat(inp.fcst)
    obs = flat(inp.obs) if has_obs else [[0, 0]] * n
    return {"name": os.path.basename(inp.fullname), "times": times, "leads": leads, "locs": locs, "lat": lat, "lon": lon, "elev": elev,
            "hasObs": bool(has_obs), "obs": obs, "fcst": fcst}


def project_opts(b):
    given = []
    o = {"t": [], "d": [], "tod": [], "o": [], "l": [], "lx": [], "latrange": [0, 0], "lonrange": [0, 0], "elevrange": [0, 0],
         "obsrange": [[0, 1], [0, 1]]}

    def lst(name, key, conv):
        v = b.get(name)
        if v is not None:
            given.append(key)
            o[key] = sorted(set(conv(x) for x in np.asarray(v).reshape(-1)))
    lst("times", "t", lambda x: whole(x, "-t"))
    lst("dates", "d", lambda x: whole(x, "-d"))
    lst("tods", "tod", lambda x: whole(x, "-tod"))
    lst("leadtimes", "o", lambda x: whole(x, "-o"))
    lst("locations", "l", lambda x: whole(x, "-l"))
    lst("locations_x", "lx", lambda x: whole(x, "-lx"))
    for name, key in (("lat_range", "latrange"), ("lon_range", "lonrange"), ("elev_range", "elevrange")):
        v = b.get(name)
        if v is not None:
            if len(v) != 2:
                raise OutOfDomain(name)
            given.append(key)
            o[key] = [whole(v[0], name, SCALE), whole(v[1], name, SCALE)]
    if b.get("obs_range") is not None:
        given.append("obsrange")
        o["obsrange"] = [pair(b["obs_range"][0]), pair(b["obs_range"][1])]
    for name in ("dim_agg_length",):
        if b.get(name) is not None:
            raise OutOfDomain("-T is outside Trace_DataImpl")
    if b.get("remove_missing_across_all") is False:
        raise OutOfDomain("remove_missing_across_all=False")
    import verif.field
    if b.get("obs_field", verif.field.Obs()) != verif.field.Obs() or b.get("fcst_field", verif.field.Fcst()) != verif.field.Fcst():
        raise OutOfDomain("-obs / -fcst field substitution")
    o["given"] = given
    return o


def project_call(self, fields, input_index, axis, axis_index, res):
    single = not isinstance(fields, list)
    fl = [fields] if single else fields
    arrays = [res] if single else list(res)
    try:
        values = [[pair(v) for v in np.asarray(a, float).reshape(-1)] for a in arrays]
    except OutOfDomain as e:
        return {"skip": str(e)}
    return {"fields": [f.name() for f in fl], "input": int(input_index), "axis": axis.name(),
            "index": None if axis_index is None else int(axis_index), "values": values}


def pytest_configure(config):
    import verif.data
    import verif.axis
    cls = verif.data.Data
    orig_init = cls.__init__
    orig_gs = cls.get_scores
    sig = inspect.signature(orig_init)

    def init(self, *a, **kw):
        rec = {"test": STATE["test"], "calls": [], "oid": id(self)}
        try:
            b = sig.bind(self, *a, **kw).arguments
            inputs = b["inputs"] if isinstance(b["inputs"], list) else [b["inputs"]]
            rec["inputs"] = [project_input(i) for i in inputs]
            rec["hasClim"] = b.get("clim") is not None
            rec["clim"] = project_input(b["clim"]) if rec["hasClim"] else rec["inputs"][0]
            rec["climType"] = b.get("clim_type", "subtract")
            rec["opts"] = project_opts(b)
            if not any(i["hasObs"] for i in rec["inputs"] + ([rec["clim"]] if rec["hasClim"] else [])):
                raise OutOfDomain("no file has observations")
            if b.get("legend") is not None and len(b["legend"]) != len(inputs):
                raise OutOfDomain("legend of the wrong length")
        except OutOfDomain as e:
            rec = {"test": STATE["test"], "skip": str(e), "calls": [], "oid": id(self)}
        except Exception as e:       # nothing the recorder does may disturb the test
            rec = {"test": STATE["test"], "skip": "recorder: %r" % (e,), "calls": [], "oid": id(self)}
        RECORDS.append(rec)
        try:
            orig_init(self, *a, **kw)
        except SystemExit:
            rec["init"] = "error-exit"
            raise
        except BaseException as e:
            rec["init"] = "exception:%s" % type(e).__name__
            raise
        rec["init"] = "ok"
        self._vt_rec = rec
        if "skip" not in rec:
            try:
                rec["dims"] = {"times": [whole(t, "time") for t in self.times], "leads": [whole(t, "lead time") for t in self.leadtimes],
                               "locs": [whole(l.id, "location id") for l in self.locations]}
            except OutOfDomain as e:
                rec["skip"] = str(e)

    def get_scores(self, fields, input_index, axis=verif.axis.All(), axis_index=None):
        STATE["depth"] += 1
        try:
            res = orig_gs(self, fields, input_index, axis, axis_index)
        finally:
            STATE["depth"] -= 1
        rec = getattr(self, "_vt_rec", None)
        if STATE["depth"] == 0 and rec is not None:
            try:
                rec["calls"].append(project_call(self, fields, input_index, axis, axis_index, res))
            except Exception as e:
                rec["calls"].append({"skip": "recorder: %r" % (e,)})
        return res

    cls.__init__ = init
    cls.get_scores = get_scores


def pytest_runtest_setup(item):
    STATE["test"] = item.nodeid


def pytest_sessionfinish(session, exitstatus):
    out = os.environ.get("VERIF_REPOTRACE_OUT")
    if out:
        with open(out, "w") as f:
            json.dump(RECORDS, f)
