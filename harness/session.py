"""One session: every verif.data.Data(...) call inside the block that names the same files (by content), the same climatology and the
same selection gets the SAME Data object -- what a script does that loads its data once and asks for several outputs."""
import contextlib
import hashlib


@contextlib.contextmanager
def shared_data():
    import numpy as np
    import verif.data
    real = verif.data.Data
    cache = {}

    def norm(v):
        if isinstance(v, (int, float, str, bool, type(None))):
            return v
        if isinstance(v, (list, tuple, np.ndarray)):
            return tuple(np.asarray(v).reshape(-1).tolist())
        return type(v).__name__

    def digest(i):
        with open(i.fullname, "rb") as f:
            return hashlib.md5(f.read()).hexdigest()

    def factory(inputs, **kw):
        inputs_l = inputs if isinstance(inputs, list) else [inputs]
        key = (tuple(digest(i) for i in inputs_l), tuple(sorted((k, norm(v)) for k, v in kw.items() if k != "clim")),
               None if kw.get("clim") is None else digest(kw["clim"]))
        if key not in cache:
            cache[key] = real(inputs, **kw)
        return cache[key]
    verif.data.Data = factory
    try:
        yield cache
    finally:
        verif.data.Data = real
