------------------------------ MODULE MC_Figure ------------------------------
(* C17: every set of at most K appearance options (each with one of its two    *)
(* values), on three kinds of plot.                                             *)
EXTENDS Figure, Json
CONSTANT K
VARIABLES s, plot, phase
vars == <<s, plot, phase>>
RECURSIVE Sub(_, _)
Sub(S, n) == IF n = 0 THEN {{}} ELSE Sub(S, n - 1) \cup {T \cup {x} : T \in Sub(S, n - 1), x \in S}
Sets == {T \in Sub(Choices, K) : Consistent(T) /\ \A ch \in T : \A r \in Requires(ch.flag) : \E x \in T : x.flag = r}
\* "bias": a standard plot of a score whose perfect value lies outside the range of the plotted values (-sp must bring it into the picture)
Plots == {"standard", "pithist", "reliability", "obsfcst", "map", "bias", "taylor"}
Init == /\ s \in Sets /\ plot \in Plots /\ phase = "case" /\ (plot # "standard" => Cardinality(s) <= 1)
        /\ ((\E ch \in s : ch.flag = "-obsleg") => plot = "obsfcst") /\ (plot = "obsfcst" => \E ch \in s : ch.flag = "-obsleg")
        /\ (plot = "bias" => \E ch \in s : ch.flag = "-sp")
        /\ ((\E ch \in s : ch.flag \in MapOnly) => plot = "map") /\ (plot = "map" => \E ch \in s : ch.flag \in MapOnly)
RECURSIVE Flat(_)
Flat(q) == IF q = <<>> THEN <<>> ELSE Head(q) \o Flat(Tail(q))
ToSeq(S) == IF S = {} THEN <<>> ELSE LET RECURSIVE F(_) F(T) == IF T = {} THEN <<>> ELSE LET x == CHOOSE y \in T : TRUE IN <<x>> \o F(T \ {x}) IN F(S)
Emit == LET q == ToSeq(s)  ex == ExpectedOf(s)  ps == ToSeq(DOMAIN ex)  un == ToSeq(MustBeUnchanged(s)) IN
        PrintT(ToJson([plot |-> plot, argv |-> Flat([k \in DOMAIN q |-> Tokens(q[k])]), flags |-> [k \in DOMAIN q |-> q[k].flag],
                       expected |-> [k \in DOMAIN ps |-> <<ps[k], ex[ps[k]]>>] \o <<<<"crop", CropOf(s)>>>>, unchanged |-> un]))
Evaluate == phase = "case" /\ phase' = "emitted" /\ UNCHANGED <<s, plot>> /\ Emit
Next == Evaluate
Spec == Init /\ [][Next]_vars
InvIndependent == \A T \in {x \in Sub(s, 1) : TRUE} : Independent(s, T)
InvDisjoint == Owned(s) \cap MustBeUnchanged(s) = {}
=============================================================================
