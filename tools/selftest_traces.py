#!/usr/bin/env python3
"""Demonstrate the binding of Trace_DataImpl: record real executions, corrupt them, and show which TLC accepts.
Run: PYTHONPATH=/verif:/repo /venv/bin/python tools/selftest_traces.py"""
import copy, json, os, random, sys
sys.path.insert(0, "/verif")
from harness import tlc, c18replay, core, par

class Ctx(object):
    pid = "SELFTEST"
    def add_tlc(self, *a, **k): pass

def validate(traces, tag, cfg):
    for n, t in enumerate(traces):
        t["id"] = n + 1
    os.makedirs(os.path.join(core.BUILD, "traces"), exist_ok=True)
    path = os.path.join(core.BUILD, "traces", "selftest_%s.json" % tag)
    json.dump({"traces": traces}, open(path, "w"))
    res = tlc.run("Trace_DataImpl", cfg, tag="selftest_" + tag, workers=8, timeout_s=600, env={"TRACE_FILE": path}, require_emit=False)
    return set(o["accept"] for o in res.emitted if "accept" in o)

def main():
    res = tlc.run("MC_DataImpl", "MC_DataImpl_C18EmitL3", tag="selftest_gen", timeout_s=900)
    rng = random.Random(1)
    sample = rng.sample(res.emitted, 60)
    recorded = []
    for ds, seqs in c18replay.group(sample, per_group=100):
        recorded += c18replay.check_group((ds, seqs, "text", True))["recorded"]
    base = [t for t in recorded if not t.get("nohooks")]
    variants = {"unmodified": base}
    v = copy.deepcopy(base)
    for t in v:
        e = t["events"][-1]
        e["values"][0][0] = [e["values"][0][0][0] + 1, max(1, e["values"][0][0][1])]
    variants["one returned value altered"] = v
    v = copy.deepcopy(base)
    for t in v:
        del t["events"][1]
    variants["second call dropped (later calls no longer explained as cache hits / misses)"] = v
    v = copy.deepcopy(base)
    for t in v:
        t["events"][0], t["events"][2] = t["events"][2], t["events"][0]
    variants["first and third call swapped"] = v
    v = copy.deepcopy(base)
    for t in v:
        t["events"][-1]["ids"] = [i + 50 for i in t["events"][-1]["ids"]]
    variants["object identities of the last call changed (aliasing)"] = v
    v = copy.deepcopy(base)
    for t in v:
        t["events"][0]["hit"] = not t["events"][0]["hit"]
    variants["hit/miss flag of the first call flipped"] = v
    print("%-85s %8s %8s %8s" % ("variant", "traces", "strict", "lax"))
    for name, tr in variants.items():
        a = validate(copy.deepcopy(tr), "s", "Trace_DataImpl_strict")
        b = validate(copy.deepcopy(tr), "l", "Trace_DataImpl_lax")
        print("%-85s %8d %8d %8d" % (name, len(tr), len(a), len(b)))
    par.clean_workdirs()

if __name__ == "__main__":
    main()
