SPECIFICATION Spec
CONSTANT Family = "C18Quick"
INVARIANT InvSameCases
INVARIANT InvSameObs
INVARIANT InvDims
INVARIANT InvPartition
INVARIANT InvNonInterference
CHECK_DEADLOCK FALSE
