SPECIFICATION Spec
CONSTANT Universe = "quick"
INVARIANT InvColumnOrder
INVARIANT InvRowOrder
INVARIANT InvIntended
INVARIANT InvLoopRefines
INVARIANT InvNoMass
CHECK_DEADLOCK FALSE
