SPECIFICATION Spec
INVARIANT InvLoop
CHECK_DEADLOCK FALSE
