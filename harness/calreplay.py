"""Replay of MC_Calendar: every day's calendar facts (computed by TLC from Calendar.tla) against verif.util conversions
and the time-like axes of verif.axis."""
from harness import tlc, par
from harness.dsreplay import quiet, exc_site


def _check_chunk(days):
    import numpy as np
    import verif.util
    import verif.axis
    n_eval = 0
    divs = []
    doy = {}

    def bad(site, detail, d, h=None):
        divs.append((site, detail, {"kind": "calendar", "day": d, "hour": h}))

    axes = {"year": verif.axis.Year(), "month": verif.axis.Month(), "week": verif.axis.Week(), "day": verif.axis.Day(),
            "timeofday": verif.axis.Timeofday(), "dayofyear": verif.axis.Dayofyear(),
            "dayofmonth": verif.axis.Dayofmonth(), "monthofyear": verif.axis.Monthofyear()}
    for d in days:
        n = d["n"]
        try:
            with quiet():
                checks = [("util.date_to_unixtime", verif.util.date_to_unixtime(d["ymd"]), n * 86400),
                          ("util.date_to_datenum", float(verif.util.date_to_datenum(d["ymd"])), float(n))]
                for h in d["hours"]:
                    ut = n * 86400 + h * 3600
                    checks += [("util.unixtime_to_date", verif.util.unixtime_to_date(ut), d["ymd"]),
                               ("util.datenum_to_date", verif.util.datenum_to_date(n + h / 24.0), d["ymd"]),
                               ("util.unixtime_to_datenum", round(float(verif.util.unixtime_to_datenum(ut)) * 86400), n * 86400 + h * 3600)]
                    times = np.array([ut])
                    exp = {"year": d["yearstart"] * 86400, "month": d["monthstart"] * 86400, "week": d["weekstart"] * 86400,
                           "day": n * 86400, "timeofday": h, "dayofmonth": d["d"], "monthofyear": d["m"]}
                    for name, e in exp.items():
                        checks.append(("axis." + name, float(axes[name].compute_from_times(times)[0]), float(e)))
                    v = float(axes["dayofyear"].compute_from_times(times)[0])
                    doy.setdefault((d["m"], d["d"]), set()).add(v)
                    n_eval += 1
            for site, got, want in checks:
                n_eval += 1
                if got != want:
                    bad(site, "day %d (%d): expected %r observed %r" % (n, d["ymd"], want, got), d)
        except Exception as e:
            bad(exc_site(e), "day %d (%d): %r" % (n, d["ymd"], e), d)
    return n_eval, divs, {k: sorted(v) for k, v in doy.items()}


def run(ctx, cfg):
    res = tlc.run("MC_Calendar", cfg, tag=ctx.pid + "_" + cfg, timeout_s=900)
    ctx.add_tlc(cfg, res, {})
    days = res.emitted
    chunks = [days[i:i + 400] for i in range(0, len(days), 400)]
    doy = {}
    for n_eval, divs, d in par.pmap(_check_chunk, chunks, chunk=1):
        ctx.evaluations += n_eval
        for site, detail, rep in divs:
            ctx.diverge(site, rep, detail=detail)
        for k, v in d.items():
            doy.setdefault(k, set()).update(v)
    ctx.traces += len(days)
    for d in days:
        if d["n"] in (d["weekstart"], d["monthstart"], d["yearstart"]) or (d["m"], d["d"]) == (2, 29):
            ctx.nontriv(("day", d["n"]))
    # envelope for dayofyear: a function of (month, day), strictly increasing through the year, 1 on 1 January
    keys = sorted(doy)
    vals = []
    for k in keys:
        if len(doy[k]) != 1:
            ctx.diverge("axis.dayofyear", {"kind": "calendar", "monthday": k, "values": sorted(doy[k])},
                        detail="dayofyear is not a function of (month, day): %r -> %r" % (k, sorted(doy[k])))
        vals.append(sorted(doy[k])[0])
    if keys and (vals != sorted(set(vals)) or (keys[0] == (1, 1) and vals[0] != 1)):
        ctx.diverge("axis.dayofyear", {"kind": "calendar", "values": vals[:10]},
                    detail="dayofyear not strictly increasing from 1: %r" % (vals[:10],))
    if days:
        ctx.sample({"calendar_day": days[len(days) // 3]})
