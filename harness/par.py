"""Process pool for replaying TLC-emitted cases into the real code (fork, one verif import per worker)."""
import multiprocessing
import os
import shutil
import tempfile

from harness import core

_tmp = None
_tmp_pid = None
os.environ.setdefault("VERIF_CHECK_PID", str(os.getpid()))     # set in the check's main process, inherited by its workers


def workdir():
    """A private scratch directory per worker process, under /verif/build."""
    global _tmp, _tmp_pid
    # (a forked worker inherits the parent's globals: the directory is private to the process that made it)
    if _tmp is None or _tmp_pid != os.getpid() or not os.path.isdir(_tmp):
        base = _base()
        os.makedirs(base, exist_ok=True)
        _tmp = tempfile.mkdtemp(prefix="w%d_" % os.getpid(), dir=base)
        _tmp_pid = os.getpid()
    return _tmp


def _base():
    """build/work/<pid of the check's main process>: concurrent checks never share or clean each other's scratch files"""
    return os.path.join(core.BUILD, "work", os.environ.setdefault("VERIF_CHECK_PID", str(os.getpid())))


def clean_workdirs():
    shutil.rmtree(_base(), ignore_errors=True)


def pmap(func, items, procs=None, chunk=8):
    """Ordered parallel map. func must be a module-level function."""
    procs = procs or min(16, os.cpu_count() or 1)
    items = list(items)
    if len(items) <= 2 or procs == 1:
        return [func(x) for x in items]
    ctx = multiprocessing.get_context("fork")
    with ctx.Pool(procs) as pool:
        out = pool.map(func, items, chunksize=max(1, min(chunk, len(items) // (procs * 2) or 1)))
    return out
