------------------------------- MODULE Diagrams -------------------------------
(* C16: what each diagram must draw, as series of points computed from the      *)
(* common valid cases (Dataset.tla / Scoring.tla) by the diagram's defining      *)
(* statistics -- one series per input in command-line order.  A series is       *)
(* [label, x, y] with x, y sequences of Expr; `label` is the legend name of the *)
(* input ("#i" stands for the i-th input's legend entry), "obs" for the          *)
(* observation series, "" for an unlabelled one.                                *)
(* Binned diagrams come with the lemma that every valid case falls in exactly    *)
(* one bin.                                                                      *)
EXTENDS Scoring

InputLabel(i) == <<"#", i>>
Series(label, x, y) == [label |-> label, x |-> x, y |-> y]
QS(s) == [k \in DOMAIN s |-> Q(s[k])]
Pooled(X, i) == PairsOf(X, i, "no", 1)
\* x-axis value of slice k: dates as day numbers (plotting date numbers), everything else the slice key
AxisX(X, axis, k) == LET key == SliceKeys(X, axis)[k] IN IF axis \in {"time", "year", "month", "week", "day"} THEN Frac(key, 86400) ELSE IF axis = "timeofday" THEN Frac(key, 3600) ELSE R(key)

\* ---- standard plot of a metric along an axis: y = the score of every slice; `-x no`: one bar per input ----
StandardSeries(X, m, axis, cfg) ==
  [i \in 1..X.n |-> Series(InputLabel(i), [k \in 1..NumSlices(X, axis) |-> Q(AxisX(X, axis, k))],
                           [k \in 1..NumSlices(X, axis) |-> Score(X, m, i, axis, k, cfg)])]
\* ---- obsfcst: the aggregate of the observations (cases valid in obs and fcst of the FIRST input) and of every input's forecasts ----
MeanOrNaN(s) == IF s = <<>> THEN NaNE ELSE Q(MeanSeq(s))
ObsFcstSeries(X, axis) ==
  <<Series("obs", [k \in 1..NumSlices(X, axis) |-> Q(AxisX(X, axis, k))],
           [k \in 1..NumSlices(X, axis) |-> MeanOrNaN(O(PairsOf(X, 1, axis, k)))])>>
  \o [i \in 1..X.n |-> Series(InputLabel(i), [k \in 1..NumSlices(X, axis) |-> Q(AxisX(X, axis, k))],
                              [k \in 1..NumSlices(X, axis) |-> MeanOrNaN(F(PairsOf(X, i, axis, k)))])]
\* ---- qq: sorted observations against sorted forecasts of the pooled valid pairs ----
QQSeries(X) == [i \in 1..X.n |-> Series(InputLabel(i), QS(SortR(O(Pooled(X, i)))), QS(SortR(F(Pooled(X, i)))))]
\* ---- scatter: the valid (obs, fcst) points (as a multiset: the order of the points is immaterial) ----
ScatterSeries(X) == [i \in 1..X.n |-> Series(InputLabel(i), QS(O(Pooled(X, i))), QS(F(Pooled(X, i))))]
\* ---- sort: the sorted values of a field against their percentile 0..100 ----
SortSeries(X, field) ==
  [i \in 1..X.n |-> LET v == SortR(ValuesOf(X, i, field, "no", 1))  n == Len(v) IN
                    Series(InputLabel(i), QS(v), [k \in 1..n |-> Q(IF n = 1 THEN Zero ELSE Frac(100 * (k - 1), n - 1))])]
\* ---- hist: percentage of the values of a field in each event of Intervals(-b, -r) ----
CountIn(v, iv) == Cardinality({k \in DOMAIN v : In(iv, v[k])})
HistSeries(X, field, bt, ths) ==
  LET ivs == Intervals(bt, ths) IN
  [i \in 1..X.n |-> LET v == ValuesOf(X, i, field, "no", 1)
                        tot == SumInts([k \in DOMAIN ivs |-> CountIn(v, ivs[k])]) IN
                    Series(InputLabel(i), [k \in DOMAIN ivs |-> Q(Center(ivs[k]))],
                           [k \in DOMAIN ivs |-> IF tot = 0 THEN NaNE ELSE Q(Frac(100 * CountIn(v, ivs[k]), tot))])]
\* ---- freq: fraction of the forecasts (per input) and of the observations in each event ----
FreqSeries(X, bt, ths) ==
  LET ivs == Intervals(bt, ths)
      frac(v, k) == IF v = <<>> THEN NaNE ELSE Q(Frac(CountIn(v, ivs[k]), Len(v)))
  IN  [i \in 1..X.n |-> Series(InputLabel(i), [k \in DOMAIN ivs |-> Q(Center(ivs[k]))], [k \in DOMAIN ivs |-> frac(F(Pooled(X, i)), k)])]
      \o <<Series("obs", [k \in DOMAIN ivs |-> Q(Center(ivs[k]))], [k \in DOMAIN ivs |-> frac(O(Pooled(X, X.n)), k)])>>
\* ---- error decomposition: per slice the point (unsystematic error sqrt(rmse^2 - bias^2), systematic error mean(o - f)) ----
ErrorSeries(X, axis) ==
  [i \in 1..X.n |-> Series(InputLabel(i),
     [k \in 1..NumSlices(X, axis) |-> LET p == PairsOf(X, i, axis, k) IN
         IF p = <<>> THEN NaNE ELSE SqrtE(Q(Sub(MeanSeq([q \in DOMAIN p |-> Sq(Sub(p[q][1], p[q][2]))]), Sq(MeanSeq(Err(p))))))],
     [k \in 1..NumSlices(X, axis) |-> LET p == PairsOf(X, i, axis, k) IN IF p = <<>> THEN NaNE ELSE Q(MeanSeq(Err(p)))])]
\* ---- performance diagram: per slice the point (1 - false alarm ratio, hit rate) of the event ----
PerformanceSeries(X, axis, bt, t) ==
  [i \in 1..X.n |-> Series(InputLabel(i),
     [k \in 1..NumSlices(X, axis) |-> LET e == Cat("far", Table(PairsOf(X, i, axis, k), bt, t, t)) IN IF IsUndef(e) THEN Undef ELSE Q(Sub(One, e.v))],
     [k \in 1..NumSlices(X, axis) |-> Cat("hit", Table(PairsOf(X, i, axis, k), bt, t, t))])]
\* ---- against: the forecasts of input i against those of input j for all common cases ----
AgainstSeries(X) == <<Series("", QS(F(Pooled(X, 1))), QS(F(Pooled(X, 2))))>>
\* ---- cond: for every event (of the observations, resp. of the forecasts) the conditional mean of the other quantity ----
\*   F|O: (median of the observations in the bin, mean of the forecasts whose observation is in the bin)
\*   O|F: (mean of the observations whose forecast is in the bin, median of the forecasts in the bin)
SubPairs(p, iv, col) == SelectSeq(p, LAMBDA x : In(iv, x[col]))
CondSeries(X, bt, ths) ==
  LET ivs == Intervals(bt, ths)
      med(s) == IF s = <<>> THEN NaNE ELSE Q(Median(s))
      mean(s) == IF s = <<>> THEN NaNE ELSE Q(MeanSeq(s))
  IN  [n \in 1..(2 * X.n) |->
         LET i == ((n - 1) \div 2) + 1  p == Pooled(X, i) IN
         IF n % 2 = 1
         THEN Series(<<"#", i, " (F|O)">>, [k \in DOMAIN ivs |-> med(O(SubPairs(p, ivs[k], 1)))], [k \in DOMAIN ivs |-> mean(F(SubPairs(p, ivs[k], 1)))])
         ELSE Series(<<"#", i, " (O|F)">>, [k \in DOMAIN ivs |-> mean(O(SubPairs(p, ivs[k], 2)))], [k \in DOMAIN ivs |-> med(F(SubPairs(p, ivs[k], 2)))])]
\* ---- timeseries: per input and initialisation time, the forecast (mean over locations) against valid time in days ----
TimeSeriesSeries(X) ==
  LET nT == Len(X.T)
      fc(i, t, l) == LET vals == SelectSeq([k \in DOMAIN X.S |-> X.adj[i, "fcst", <<t, l, X.S[k]>>]], LAMBDA v : IsFinite(v)) IN
                     IF vals = <<>> THEN NaNE ELSE Q(MeanSeq(vals))
  IN  [n \in 1..(X.n * nT) |->
         LET i == ((n - 1) \div nT) + 1  d == ((n - 1) % nT) + 1 IN
         Series(IF d = 1 THEN InputLabel(i) ELSE "", [k \in DOMAIN X.L |-> Q(Add(Frac(X.T[d], 86400), Frac(X.L[k], 24)))],
                [k \in DOMAIN X.L |-> fc(i, X.T[d], X.L[k])])]

\* ... and, for inputs that carry ensemble members, one (unlabelled) line per input, member and initialisation time: THAT member's values
TimeSeriesMembers(X, members) ==
  LET nT == Len(X.T)  nM == Len(members)
      mv(i, f, t, l) == LET vals == SelectSeq([k \in DOMAIN X.S |-> X.adj[i, f, <<t, l, X.S[k]>>]], LAMBDA v : IsFinite(v)) IN
                        IF vals = <<>> THEN NaNE ELSE Q(MeanSeq(vals))
  IN  [n \in 1..(X.n * nM * nT) |->
         LET i == ((n - 1) \div (nM * nT)) + 1  m == (((n - 1) \div nT) % nM) + 1  d == ((n - 1) % nT) + 1 IN
         Series("", [k \in DOMAIN X.L |-> Q(Add(Frac(X.T[d], 86400), Frac(X.L[k], 24)))], [k \in DOMAIN X.L |-> mv(i, members[m], X.T[d], X.L[k])])]

\* ---- third tranche (deterministic data) ------------------------------------------------------------------------
\* the whole-array view of input i: obs and fcst of a case count only if BOTH are valid (and valid in every input: X.adj)
JointValid(X, i, c) == IsFinite(X.adj[i, "obs", c]) /\ IsFinite(X.adj[i, "fcst", c])
ErrAt(X, i, c) == Sub(X.adj[i, "obs", c], X.adj[i, "fcst", c])
\* 2x2 table with separate events for the observation and the forecast
TableIv(p, ivO, ivF) ==
  <<Cardinality({k \in DOMAIN p : In(ivF, p[k][2]) /\ In(ivO, p[k][1])}), Cardinality({k \in DOMAIN p : In(ivF, p[k][2]) /\ ~In(ivO, p[k][1])}),
    Cardinality({k \in DOMAIN p : ~In(ivF, p[k][2]) /\ In(ivO, p[k][1])}), Cardinality({k \in DOMAIN p : ~In(ivF, p[k][2]) /\ ~In(ivO, p[k][1])})>>
\* droc: (false alarm rate, hit rate) of the observed event {obs in event(t)} when it is forecast by {fcst in event(ft)}, for a list of
\* forecast thresholds ft, between the end points (1,1) and (0,0); droc0 uses the single forecast threshold t
DRocFths(t) == [k \in 1..31 |-> Add(Sub(t, R(10)), Frac(20 * (k - 1), 30))]        \* 31 equally spaced values t-10 .. t+10 (variables other than Precip)
DRocSeries(X, bt, t, fths) ==
  LET ivO == Intervals(bt, <<t>>)[1]  ivF == Intervals(bt, fths) IN
  [i \in 1..X.n |-> LET p == Pooled(X, i) IN
     Series(InputLabel(i), <<Q(One)>> \o [k \in DOMAIN ivF |-> Cat("fa", TableIv(p, ivO, ivF[k]))] \o <<Q(Zero)>>,
                           <<Q(One)>> \o [k \in DOMAIN ivF |-> Cat("hit", TableIv(p, ivO, ivF[k]))] \o <<Q(Zero)>>)]
\* change: absolute error as a function of the change of the observation since the previous initialisation time; bins (e_k, e_k+1]
ChangePoints(X, i) ==
  LET idx == {<<d, l, s>> \in (2..Len(X.T)) \X Elems(X.L) \X Elems(X.S) : JointValid(X, i, <<X.T[d], l, s>>) /\ JointValid(X, i, <<X.T[d - 1], l, s>>)} IN
  {[at |-> c, chg |-> Sub(X.adj[i, "obs", <<X.T[c[1]], c[2], c[3]>>], X.adj[i, "obs", <<X.T[c[1] - 1], c[2], c[3]>>]),
    err |-> AbsR(ErrAt(X, i, <<X.T[c[1]], c[2], c[3]>>))] : c \in idx}
SumOver(S, Fn(_)) == LET RECURSIVE go(_) go(T) == IF T = {} THEN Zero ELSE LET x == CHOOSE y \in T : TRUE IN Add(Fn(x), go(T \ {x})) IN go(S)
MeanOverSet(S, Fn(_)) == IF S = {} THEN NaNE ELSE Q(Div(SumOver(S, Fn), R(Cardinality(S))))
ChangeSeries(X, edges) ==
  [i \in 1..X.n |-> LET inbin(k) == {pt \in ChangePoints(X, i) : Gt(pt.chg, edges[k]) /\ Le(pt.chg, edges[k + 1])} IN
     Series(InputLabel(i), [k \in 1..(Len(edges) - 1) |-> MeanOverSet(inbin(k), LAMBDA pt : pt.chg)],
                           [k \in 1..(Len(edges) - 1) |-> MeanOverSet(inbin(k), LAMBDA pt : pt.err)])]
\* autocov / autocorr along the lead-time or time axis: for every ORDERED pair (a, b) of axis values the point
\* (|a - b| in hours, covariance / correlation of the errors at a and at b over the cases valid at both); fewer than 2 common cases: NaN
AutoOther(X, axis) == IF axis = "leadtime" THEN Elems(X.T) \X Elems(X.S) ELSE Elems(X.L) \X Elems(X.S)
AutoCase(axis, a, o) == IF axis = "leadtime" THEN <<o[1], a, o[2]>> ELSE <<a, o[1], o[2]>>
AutoDist(axis, a, b) == IF axis = "leadtime" THEN R(Abs(a - b)) ELSE Frac(Abs(a - b), 3600)
AutoPairs(X, i, axis, a, b) ==      \* the error pairs, in any fixed order
  LET both == {o \in AutoOther(X, axis) : JointValid(X, i, AutoCase(axis, a, o)) /\ JointValid(X, i, AutoCase(axis, b, o))}
      RECURSIVE seq(_) seq(S) == IF S = {} THEN <<>> ELSE LET o == CHOOSE y \in S : TRUE IN
                                   <<<<ErrAt(X, i, AutoCase(axis, a, o)), ErrAt(X, i, AutoCase(axis, b, o))>>>> \o seq(S \ {o})
  IN  seq(both)
\* covariances from the raw sums (n Sxy - Sx Sy), so that the intermediate rationals keep small denominators
CovNum(p) == Sub(Mul(R(Len(p)), SumSeq([k \in DOMAIN p |-> Mul(p[k][1], p[k][2])])), Mul(SumSeq(O(p)), SumSeq(F(p))))
SampleCov(p) == Div(CovNum(p), R(Len(p) * (Len(p) - 1)))
AutoValue(kind, p) ==
  IF Len(p) < 2 THEN NaNE
  ELSE IF kind = "cov" THEN Q(SampleCov(p))
  ELSE LET vx == SampleCov([k \in DOMAIN p |-> <<p[k][1], p[k][1]>>])  vy == SampleCov([k \in DOMAIN p |-> <<p[k][2], p[k][2]>>]) IN
       IF vx = Zero \/ vy = Zero THEN Undef ELSE DivE(Q(SampleCov(p)), MulE(SqrtE(Q(vx)), SqrtE(Q(vy))))
AutoSeries(X, kind, axis) ==
  LET vals == IF axis = "leadtime" THEN X.L ELSE X.T  n == Len(vals) IN
  [i \in 1..X.n |-> Series(InputLabel(i), [m \in 1..(n * n) |-> Q(AutoDist(axis, vals[((m - 1) \div n) + 1], vals[((m - 1) % n) + 1]))],
                           [m \in 1..(n * n) |-> AutoValue(kind, AutoPairs(X, i, axis, vals[((m - 1) \div n) + 1], vals[((m - 1) % n) + 1]))])]
\* taylor: per slice the point (sd_f * r, sd_f * sqrt(1 - r^2)) with r the correlation and sd_f the (population) standard deviation of
\* the forecasts; with more than one slice everything is divided by the standard deviation of the observations.  Written without the
\* angle: x = cov / sd_o (normalised: cov / var_o), y = sqrt(var_f - cov^2 / var_o) (normalised: that over var_o).  A slice with
\* |r| = 1 exactly is unconstrained (the rounding of r decides between 0 and NaN), one without variance is undefined.
\* In terms of the raw sums (cn = n Sxy - Sx Sy = n^2 cov, von = n^2 var_o, vfn = n^2 var_f), which keeps TLC's 32-bit integers in range;
\* slices of more than TaylorMax cases are left unconstrained for the same reason (domain restriction of the model, not of the code).
TaylorMax == 24
TaylorPoint(p, normalised) ==
  IF p = <<>> \/ Len(p) > TaylorMax THEN [x |-> AnyE, y |-> AnyE]
  ELSE LET n == Len(p)  cn == CovNum(p)  von == CovNum([k \in DOMAIN p |-> <<p[k][1], p[k][1]>>])  vfn == CovNum([k \in DOMAIN p |-> <<p[k][2], p[k][2]>>]) IN
       IF von = Zero \/ vfn = Zero THEN [x |-> Undef, y |-> Undef]
       ELSE LET b == Div(cn, von)  a == Div(vfn, von) IN        \* b = cov / var_o, a = var_f / var_o
            IF Sq(b) = a THEN [x |-> AnyE, y |-> AnyE]
            ELSE IF normalised THEN [x |-> Q(b), y |-> SqrtE(Q(Sub(a, Sq(b))))]
            ELSE LET sdo == DivE(SqrtE(Q(von)), Q(R(n))) IN [x |-> MulE(Q(b), sdo), y |-> MulE(SqrtE(Q(Sub(a, Sq(b)))), sdo)]
TaylorSeries(X, axis) ==
  LET n == NumSlices(X, axis) IN
  [i \in 1..X.n |-> Series(InputLabel(i), [k \in 1..n |-> TaylorPoint(PairsOf(X, i, axis, k), n > 1).x], [k \in 1..n |-> TaylorPoint(PairsOf(X, i, axis, k), n > 1).y])]
\* fss along the lead-time axis: for every positive difference s of two lead times, the windows [a, b] with b - a = s; per window, time and
\* location the fraction of valid cases with the observed (forecast) event; score = 1 - mean((fo - ff)^2) / (m (1 - m)), m = mean fo
FssScales(X) == SortInts({Abs(a - b) : a, b \in Elems(X.L)})
FssWindows(X, s) == {<<a, b>> \in Elems(X.L) \X Elems(X.L) : b - a = s}
FssFraction(X, i, field, bt, t, w, tt, loc) ==
  LET leads == {l \in Elems(X.L) : IndexIn(X.L, w[1]) <= IndexIn(X.L, l) /\ IndexIn(X.L, l) <= IndexIn(X.L, w[2]) /\ JointValid(X, i, <<tt, l, loc>>)} IN
  IF leads = {} THEN NaN ELSE Frac(Cardinality({l \in leads : InEvent(bt, X.adj[i, field, <<tt, l, loc>>], t, t)}), Cardinality(leads))
FssValue(X, i, bt, t, s) ==
  IF s = 0 THEN NaNE ELSE
  LET cells == {c \in FssWindows(X, s) \X Elems(X.T) \X Elems(X.S) : ~IsNaN(FssFraction(X, i, "obs", bt, t, c[1], c[2], c[3]))}
      fo(c) == FssFraction(X, i, "obs", bt, t, c[1], c[2], c[3])  ff(c) == FssFraction(X, i, "fcst", bt, t, c[1], c[2], c[3])
  IN  IF cells = {} THEN NaNE ELSE
      LET m == Div(SumOver(cells, fo), R(Cardinality(cells)))  bs == Div(SumOver(cells, LAMBDA c : Sq(Sub(fo(c), ff(c)))), R(Cardinality(cells)))
          unc == Mul(m, Sub(One, m)) IN
      IF Gt(unc, Zero) THEN Q(Div(Sub(unc, bs), unc)) ELSE NaNE
FssSeries(X, bt, t) ==
  LET sc == FssScales(X) IN [i \in 1..X.n |-> Series(InputLabel(i), [k \in DOMAIN sc |-> Q(R(sc[k]))], [k \in DOMAIN sc |-> FssValue(X, i, bt, t, sc[k])])]

\* impact view (two inputs): for every pair of forecast-value bins (cx - w, cx + w] x (cy - w, cy + w] the contribution
\* sum((f1 - o)^2 - (f2 - o)^2) of the common valid cases whose forecasts fall there; a point at (cx, cy) where it is positive
\* ("input 1 is worse") or negative ("input 2 is worse"), its area proportional to the magnitude (largest = 1)
ImpactSeries(X, edges) ==
  LET w == Div(Sub(edges[2], edges[1]), R(2))
      cen == [k \in 1..(Len(edges) - 1) |-> Div(Add(edges[k], edges[k + 1]), R(2))]
      ok == {c \in X.G : JointValid(X, 1, c) /\ JointValid(X, 2, c)}
      inb(v, cc) == Gt(v, Sub(cc, w)) /\ Le(v, Add(cc, w))
      contrib(a, b) == SumOver({c \in ok : inb(X.adj[1, "fcst", c], cen[a]) /\ inb(X.adj[2, "fcst", c], cen[b])},
                               LAMBDA c : Sub(Sq(Sub(X.adj[1, "fcst", c], X.adj[1, "obs", c])), Sq(Sub(X.adj[2, "fcst", c], X.adj[1, "obs", c]))))
      cells == (DOMAIN cen) \X (DOMAIN cen)
      mx == LET RECURSIVE go(_) go(S) == IF S = {} THEN Zero ELSE LET q == CHOOSE y \in S : TRUE  r == go(S \ {q})  v == AbsR(contrib(q[1], q[2])) IN IF Gt(v, r) THEN v ELSE r IN go(cells)
      pts(sign) == LET sel == {q \in cells : IF sign > 0 THEN Gt(contrib(q[1], q[2]), Zero) ELSE Lt(contrib(q[1], q[2]), Zero)}
                       RECURSIVE seq(_) seq(S) == IF S = {} THEN <<>> ELSE LET q == CHOOSE y \in S : TRUE IN <<q>> \o seq(S \ {q})
                   IN  seq(sel)
      ser(i, sign) == LET p == pts(sign) IN [label |-> <<"#", i, " is worse">>, x |-> [k \in DOMAIN p |-> Q(cen[p[k][1]])], y |-> [k \in DOMAIN p |-> Q(cen[p[k][2]])],
                                             c |-> [k \in DOMAIN p |-> Q(Div(AbsR(contrib(p[k][1], p[k][2])), mx))]]
  IN  IF mx = Zero THEN <<>> ELSE <<ser(1, 1), ser(2, -1)>>

\* every valid value falls in exactly one bin of a binned diagram whose events partition the line
EveryValueInOneBin(v, bt, ths) ==
  (bt = "within=" /\ StrictlyIncreasing(ths)) =>
     \A k \in DOMAIN v : (Gt(v[k], ths[1]) /\ Le(v[k], ths[Len(ths)])) => Cardinality({j \in DOMAIN Intervals(bt, ths) : In(Intervals(bt, ths)[j], v[k])}) = 1
OneSeriesPerInput(ss, n, extra) == Len(ss) = n + extra

---------------------------------------------------------------------------
(* second tranche: diagrams of probabilistic forecasts.  pe = sequence of <<p, e>> (event probability, outcome 0/1) of the *)
(* common valid cases of one input; edges = increasing sequence of bin edges; bins are [e_k, e_k+1), the last one also      *)
(* containing its upper edge (closedLast) -- every probability in [0, 1] then lies in exactly one bin.                      *)
BinOf(p, edges, closedLast) ==
  IF \E k \in 1..(Len(edges) - 1) : Ge(p, edges[k]) /\ Lt(p, edges[k + 1]) THEN CHOOSE k \in 1..(Len(edges) - 1) : Ge(p, edges[k]) /\ Lt(p, edges[k + 1])
  ELSE IF closedLast /\ p = edges[Len(edges)] THEN Len(edges) - 1 ELSE 0
InBinIdx(pe, edges, closedLast, b) == SelectSeq([k \in DOMAIN pe |-> k], LAMBDA k : BinOf(pe[k][1], edges, closedLast) = b)
EveryCaseInOneBin(pe, edges) == \A k \in DOMAIN pe : (Ge(pe[k][1], edges[1]) /\ Le(pe[k][1], edges[Len(edges)])) => BinOf(pe[k][1], edges, TRUE) \in 1..(Len(edges) - 1)
RelEdges == <<Zero>> \o [k \in 1..10 |-> Frac(2 * k - 1, 20)] \o <<One>>            \* 0, 0.05, 0.15, ..., 0.95, 1
TenBins == [k \in 1..11 |-> Frac(k - 1, 10)]
\* reliability: per bin the mean forecast probability against the observed frequency; bins with fewer than minCount cases are not drawn
ReliabilityXY(pe, minCount, closedLast) ==
  LET nb == Len(RelEdges) - 1
      idx(b) == InBinIdx(pe, RelEdges, closedLast, b)
  IN  [x |-> [b \in 1..nb |-> IF Len(idx(b)) >= minCount THEN Q(MeanSeq([m \in DOMAIN idx(b) |-> pe[idx(b)[m]][1]])) ELSE AnyE],
       y |-> [b \in 1..nb |-> IF Len(idx(b)) >= minCount THEN Q(MeanSeq([m \in DOMAIN idx(b) |-> pe[idx(b)[m]][2]])) ELSE NaNE]]
\* discrimination: percentage of the event cases (and of the non-event cases) whose forecast probability lies in each of ten bins
DiscriminationY(pe, outcome, closedLast) ==
  LET sel == SelectSeq(pe, LAMBDA x : x[2] = outcome) IN
  [b \in 1..10 |-> IF sel = <<>> THEN NaNE ELSE Q(Frac(100 * Len(InBinIdx(sel, TenBins, closedLast, b)), Len(sel)))]
\* ROC: (false alarm rate, hit rate) when the event is forecast whenever p >= level, for the levels 0, 0.1, ..., 1, between (1,1) and (0,0)
RocXY(pe) ==
  LET lev(k) == Frac(k - 1, 10)
      a(k) == Cardinality({m \in DOMAIN pe : Ge(pe[m][1], lev(k)) /\ pe[m][2] = One})
      b(k) == Cardinality({m \in DOMAIN pe : Ge(pe[m][1], lev(k)) /\ pe[m][2] = Zero})
      nev == Cardinality({m \in DOMAIN pe : pe[m][2] = One})  nno == Cardinality({m \in DOMAIN pe : pe[m][2] = Zero})
      ok == nev > 0 /\ nno > 0
  IN  [x |-> <<Q(One)>> \o [k \in 1..11 |-> IF ok THEN Q(Frac(b(k), nno)) ELSE NaNE] \o <<Q(Zero)>>,
       y |-> <<Q(One)>> \o [k \in 1..11 |-> IF ok THEN Q(Frac(a(k), nev)) ELSE NaNE] \o <<Q(Zero)>>]
\* PIT histogram: percentage of the PIT values in each of ten bins (last closed)
PitHistY(pit) == [b \in 1..10 |-> IF pit = <<>> THEN NaNE ELSE Q(Frac(100 * Cardinality({k \in DOMAIN pit : ProbBin(pit[k]) = b}), Len(pit)))]
\* marginal: mean event probability per threshold, and the observed frequency of the event
MarginalY(peByThreshold) == [t \in DOMAIN peByThreshold |-> IF peByThreshold[t] = <<>> THEN NaNE ELSE Q(MeanSeq(PP(peByThreshold[t])))]
MarginalObsY(peByThreshold) == [t \in DOMAIN peByThreshold |-> IF peByThreshold[t] = <<>> THEN NaNE ELSE Q(MeanSeq(EE(peByThreshold[t])))]

---------------------------------------------------------------------------
(* third tranche: further diagrams of probabilistic forecasts (pe as above) and of quantile forecasts                        *)
\* murphy: mean elementary score at the probability thresholds 0, 0.05, ..., 1.  A forecast above the threshold of a non-event costs
\* 2 theta, one below the threshold of an event 2 (1 - theta); a forecast EQUAL to the threshold is charged 2 theta (1 - theta)
\* whatever happens (verif's convention for ties).
MurphyTheta(k) == Frac(k - 1, 20)
MurphyXY(pe) ==
  LET n == Len(pe)
      cnt(P(_)) == Cardinality({m \in DOMAIN pe : P(pe[m])})
      y(k) == LET th == MurphyTheta(k) IN
              Add(Add(Mul(Mul(R(2), th), Frac(cnt(LAMBDA c : Gt(c[1], th) /\ c[2] = Zero), n)),
                      Mul(Mul(R(2), Sub(One, th)), Frac(cnt(LAMBDA c : Lt(c[1], th) /\ c[2] = One), n))),
                  Mul(Mul(Mul(R(2), th), Sub(One, th)), Frac(cnt(LAMBDA c : c[1] = th), n)))
  IN  [x |-> [k \in 1..21 |-> Q(MurphyTheta(k))], y |-> [k \in 1..21 |-> IF n = 0 THEN NaNE ELSE Q(y(k))]]
\* economic value at the cost-loss ratios r = (k/20)^3: protect (cost r) whenever p >= r, otherwise lose 1 if the event happens;
\* value = (climatological expense - forecast expense) / (climatological expense - expense of a perfect forecast), 0 if those two agree
EconomicXY(pe) ==
  LET n == Len(pe)  clim == Ebar(pe)
      r(k) == LET b == Frac(k - 1, 20) IN Mul(b, Mul(b, b))
      total(k) == Div(Add(Mul(r(k), R(Cardinality({m \in DOMAIN pe : Ge(pe[m][1], r(k))}))),
                          R(Cardinality({m \in DOMAIN pe : Lt(pe[m][1], r(k)) /\ pe[m][2] = One}))), R(n))
      climCost(k) == IF Lt(clim, r(k)) THEN clim ELSE r(k)
      perfect(k) == Mul(clim, r(k))
  IN  [x |-> [k \in 1..21 |-> Q(r(k))],
       y |-> [k \in 1..21 |-> IF n = 0 THEN NaNE ELSE IF climCost(k) = perfect(k) THEN Q(Zero)
                              ELSE Q(Div(Sub(climCost(k), total(k)), Sub(climCost(k), perfect(k))))]]
\* bsdecomp (default -x: all cases pooled): the point (reliability term, resolution term) of the Brier score
BsDecompXY(pe) == [x |-> <<Prob("bsrel", pe)>>, y |-> <<Prob("bsres", pe)>>]
\* igncontrib: 11 probability bins (last closed); per bin the mean probability against the bin's share of the total binary ignorance,
\* scaled by the number of bins: (sum over the bin of -log2 of the probability given to what happened) / n * 11
IgnEdges == [k \in 1..12 |-> Frac(k - 1, 11)]
IgnContribXY(pe) ==
  LET n == Len(pe)
      idx(b) == InBinIdx(pe, IgnEdges, TRUE, b)
      term(c) == SubE(Q(Zero), Log2E(Q(IF c[2] = One THEN c[1] ELSE Sub(One, c[1]))))
  IN  [x |-> [b \in 1..11 |-> IF idx(b) = <<>> THEN NaNE ELSE Q(MeanSeq([m \in DOMAIN idx(b) |-> pe[idx(b)[m]][1]]))],
       y |-> [b \in 1..11 |-> IF idx(b) = <<>> THEN NaNE ELSE MulE(SumE([m \in DOMAIN idx(b) |-> term(pe[idx(b)[m]])]), Q(Frac(11, n)))]]
\* ---- quantile forecasts.  qc = sequence of <<obs, fcst, xLow, xMid, xHigh>> (all present) of one input ----
\* invreliability for the level of xMid: bins [e_k, e_k+1) of the forecast quantile value; per bin the mean quantile value against the
\* fraction of cases whose observation is at or below it (at least two cases, else not drawn)
InvReliabilityXY(qc, edges) ==
  LET idx(b) == SelectSeq([k \in DOMAIN qc |-> k], LAMBDA k : Ge(qc[k][4], edges[b]) /\ Lt(qc[k][4], edges[b + 1]))
      nb == Len(edges) - 1
  IN  [x |-> [b \in 1..nb |-> IF Len(idx(b)) >= 2 THEN Q(MeanSeq([m \in DOMAIN idx(b) |-> qc[idx(b)[m]][4]])) ELSE AnyE],
       y |-> [b \in 1..nb |-> IF Len(idx(b)) >= 2 THEN Q(Frac(Cardinality({m \in DOMAIN idx(b) : Le(qc[idx(b)[m]][1], qc[idx(b)[m]][4])}), Len(idx(b)))) ELSE NaNE]]
\* spreadskill: spread = xHigh - xLow in the bins (e_k-1, e_k]; per bin the mean spread against the RMSE of the deterministic forecast;
\* the first point is never drawn
SpreadSkillXY(qc, edges) ==
  LET idx(b) == SelectSeq([k \in DOMAIN qc |-> k], LAMBDA k : Gt(Sub(qc[k][5], qc[k][3]), edges[b - 1]) /\ Le(Sub(qc[k][5], qc[k][3]), edges[b]))
  IN  [x |-> [b \in 1..Len(edges) |-> IF b = 1 \/ idx(b) = <<>> THEN NaNE ELSE Q(MeanSeq([m \in DOMAIN idx(b) |-> Sub(qc[idx(b)[m]][5], qc[idx(b)[m]][3])]))],
       y |-> [b \in 1..Len(edges) |-> IF b = 1 \/ idx(b) = <<>> THEN NaNE ELSE SqrtE(Q(MeanSeq([m \in DOMAIN idx(b) |-> Sq(Sub(qc[idx(b)[m]][1], qc[idx(b)[m]][2]))])))]]
=============================================================================
