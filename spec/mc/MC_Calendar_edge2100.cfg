SPECIFICATION Spec
CONSTANTS FirstYear = 2099
          LastYear = 2100
INVARIANT ConversionsInverse
INVARIANT BucketContains
INVARIANT Monotone
INVARIANT DayOfYearEnvelope
INVARIANT KnownDays
CHECK_DEADLOCK FALSE
