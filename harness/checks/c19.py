"""C19 Documented combinations never crash. Spec: Combos.tla (the documented names of 70 metrics, 28 diagrams, 19 -x
dimensions + default, 8 output types, option variants, and the driver's gate model as a prediction). TLC enumerates the
full cross product and the variants; every combination is run through verif.driver.run on generated datasets (deterministic
+ probabilistic + ensemble columns; single time; single location; an all-missing slice) with a real savefig, under a
time limit. Outcome classes: output | error exit with a message | anything else (violation)."""
import io
import os
import random
import signal
import sys

from harness import tlc, par, materialize as mat
from harness.dsreplay import exc_site

T = [1325376000, 1325462400, 1328054400]
L = [0, 12, 24]
S = [1, 2, 3]


def dataset(kind, which):
    """two files (which = 0, 1) of the same shape; values are simple functions of the coordinates"""
    times = T[:1] if kind == "single-time" else T
    locs = S[:1] if kind == "single-location" else S
    leads = L[:1] if kind == "single-leadtime" else L
    n = len(times) * len(leads) * len(locs)
    obs, fcst, pit, cdf, x, ens = [], [], [], [], [], []
    k = 0
    for i, t in enumerate(times):
        for j, l in enumerate(leads):
            for s in locs:
                o = (3 * i + 5 * j + 2 * s) % 5
                f = (2 * i + 3 * j + s + which) % 5 + 0.5 * which
                if kind == "missing-slice" and j == 1:
                    o = "nan"
                if (i, j, s) == (0, 0, 2):
                    f = "nan"
                obs.append(o)
                fcst.append(f)
                pit.append(((i + j + s) % 9) / 8.0)
                base = ((i + 2 * j + s + which) % 4) / 4.0
                cdf += [min(1.0, base * 0.5), min(1.0, base * 0.5 + 0.25), min(1.0, base * 0.5 + 0.5)]
                fv = 0 if f == "nan" else f
                x += [fv - 1, fv, fv + 1.5]
                ens += [fv - 1, fv + 0.5, fv + 1]
                k += 1
    return {"times": times, "leads": leads, "locs": locs, "lat": [60 + s for s in locs], "lon": [10 + 2 * s for s in locs],
            "elev": [100 * s for s in locs], "hasObs": True, "obs": obs, "fcst": fcst, "pit": pit,
            "thresholds": [1, 2, 3], "cdf": cdf, "quantiles": [0.1, 0.5, 0.9], "x": x, "members": [0, 1, 2], "ens": ens,
            "variable": {"variable": "Precip", "units": "mm"}}


# recorded findings (known_findings.json): a crash is KNOWN only at the recorded site AND for the recorded kind of combination
DIAGRAMS = {"against", "autocorr", "autocov", "bsdecomp", "change", "cond", "droc", "droc0", "discrimination", "economicvalue", "error",
            "freq", "fss", "igncontrib", "invreliability", "marginal", "meteo", "murphy", "obsfcst", "performance", "pithist", "qq",
            "reliability", "roc", "scatter", "spreadskill", "taylor", "timeseries"}        # Combos!DiagramNames (InvCounts: 28)
KNOWN_CRASHES = {}   # every crash found so far has been repaired upstream (known_findings.json: fixed entries)


class _Timeout(Exception):
    pass


def _alarm(signum, frame):
    raise _Timeout()


def _run_chunk(job):
    kind, combos = job
    import matplotlib
    matplotlib.use("Agg")
    import matplotlib.pyplot as mpl
    import verif.driver
    wd = par.workdir()
    files = []
    for w in (0, 1, 2):
        if kind.startswith("netcdf-"):
            # the same dataset as NetCDF files whose variable metadata names a unit the plots have to print: "%", "m/s", "^oC"
            p = os.path.join(wd, "%s_%d.nc" % (kind.replace("%", "pct").replace("/", "per").replace("^", "deg"), w))
            if not os.path.exists(p):
                mat.write_netcdf(p, dict(dataset("full", w), variable={"variable": "RH", "units": kind[len("netcdf-"):]}))
        else:
            p = os.path.join(wd, "%s_%d.txt" % (kind, w))
            if not os.path.exists(p):
                mat.write_text(p, dataset(kind, w))
        files.append(p)
    out = []
    signal.signal(signal.SIGALRM, _alarm)
    for c in combos:
        argv = ["verif"] + (files if c.get("v") == "three-files" else files[:2]) + list(c["argv"])
        img = os.path.join(wd, "out.png")
        if c["t"] not in ("text", "csv"):
            if os.path.exists(img):
                os.remove(img)
            argv += ["-f", img]
        buf = io.StringIO()
        old = sys.stdout
        sys.stdout = buf
        signal.alarm(90)
        try:
            verif.driver.run(argv)
            outcome = "output"
            if c["t"] not in ("text", "csv") and not (os.path.exists(img) and os.path.getsize(img) > 0):
                outcome = "no-output"
        except SystemExit as e:
            outcome = "error" if (e.code not in (0, None) and "Error" in buf.getvalue()) else ("silent-exit:%s" % (e.code,))
        except _Timeout:
            outcome = "timeout"
        except BaseException as e:
            outcome = exc_site(e) + " " + repr(e)[:140]
        finally:
            signal.alarm(0)
            sys.stdout = old
            mpl.close("all")
        out.append((c, kind, outcome))
    return out


def run(ctx):
    ctx.rule = ("case = (metric or diagram, -x dimension or default, output type, option variant, dataset kind); every case is one "
                "verif.driver.run; non-trivial = anything but the default axis with -type plot")
    ctx.assumptions = ["map backgrounds (cartopy tiles) are not available offline: -maptype is not exercised",
                       "the gate model's prediction is compared as MODEL-DRIFT only"]
    res1 = tlc.run("MC_Combos", "MC_Combos_cross", tag=ctx.pid + "_cross", timeout_s=900)
    ctx.add_tlc("MC_Combos/cross", res1, {"Part": "cross"})
    res2 = tlc.run("MC_Combos", "MC_Combos_variants", tag=ctx.pid + "_variants", timeout_s=900)
    ctx.add_tlc("MC_Combos/variants", res2, {"Part": "variants"})
    rng = random.Random(ctx.seed)
    cross, variants = res1.emitted, res2.emitted
    if ctx.tier == "quick":
        keep_x = {"(default)", "threshold", "no", "obs", "location", "time"}
        keep_t = {"plot", "csv", "rank", "map", "impact"}
        cross = [c for c in cross if c["x"] in keep_x and c["t"] in keep_t]
        cross = rng.sample(cross, min(len(cross), 2200))
        # stratified by (variant, output type), so that every kind of variant meets every type in the quick tier too
        buckets = {}
        for c in variants:
            buckets.setdefault((c["v"], c["t"], c["x"] in ("obs", "fcst")), []).append(c)
        per = max(1, 1100 // len(buckets))
        variants = [c for key in sorted(buckets) for c in rng.sample(buckets[key], min(len(buckets[key]), per))]
        # every diagram with every option variant at least once (as a plot, without -x), whatever the sample holds
        # ... and as the unconditional view (-x no), where several diagrams draw bars instead of lines (after seed C19-j)
        seen = set((c["m"], c["v"], c["x"]) for c in variants if c["t"] == "plot")
        variants += [c for c in res2.emitted if c["m"] in DIAGRAMS and c["x"] in ("(default)", "no") and c["t"] == "plot" and (c["m"], c["v"], c["x"]) not in seen]
        kinds = ["full", "missing-slice", "single-leadtime", "netcdf-%"]
    else:
        kinds = ["full", "missing-slice", "single-time", "single-location", "single-leadtime", "netcdf-%", "netcdf-m/s", "netcdf-^oC"]
    jobs = []
    combos = cross + variants
    for n, kind in enumerate(kinds):
        sel = combos if (ctx.tier != "quick" or kind == "full") else rng.sample(combos, len(combos) // (6 if kind.startswith("netcdf-") else 3))
        if kind.startswith("netcdf-") and ctx.tier != "quick":
            sel = rng.sample(combos, len(combos) // 8)
        jobs += [(kind, sel[i:i + 40]) for i in range(0, len(sel), 40)]
    counts = {}
    crashes = {}
    for out in par.pmap(_run_chunk, jobs, chunk=1):
        for c, kind, outcome in out:
            ctx.evaluations += 1
            ctx.traces += 1
            cls = outcome.split(" ")[0]
            counts[cls if cls in ("output", "error") else "other"] = counts.get(cls if cls in ("output", "error") else "other", 0) + 1
            if c["x"] != "(default)" or c["t"] != "plot" or c["v"] != "plain":
                ctx.nontriv((c["m"], c["x"], c["t"], c["v"], kind))
            if cls in ("output", "error"):
                if c["predict"] not in ("either", cls):
                    ctx.note_drift("gate model predicted '%s' but `%s` on dataset '%s' gave '%s'" % (c["predict"], " ".join(c["argv"]), kind, cls))
                continue
            crashes.setdefault(cls, []).append([c["m"], c["x"], c["t"], c["v"], kind])
            ctx.diverge(cls, {"kind": "combo", "argv": c["argv"], "dataset": kind, "outcome": outcome, "v": c.get("v")},
                        as_implemented=bool(KNOWN_CRASHES.get(cls, lambda c, k: False)(c, kind)),
                        detail="`verif A B%s %s` on dataset '%s' -> %s" % (" C" if c.get("v") == "three-files" else "", " ".join(c["argv"]), kind, outcome))
    ctx.extra["outcomes"] = counts
    ctx.extra["crash_combinations"] = {k: v[:300] for k, v in crashes.items()}
    ctx.sample({"argv": combos[0]["argv"], "dataset": "full"})
    ctx.sample({"argv": combos[-1]["argv"], "dataset": "missing-slice"})
    ctx.exhaustive = ctx.tier != "quick"
    par.clean_workdirs()


def replay(ctx, rep):
    out = _run_chunk((rep["dataset"], [{"argv": rep["argv"], "t": rep["argv"][rep["argv"].index("-type") + 1] if "-type" in rep["argv"] else "plot"}]))
    print(out[0][2])
    return 0 if out[0][2].split(" ")[0] in ("output", "error") else 1
