---------------------------- MODULE MC_TextFormat ----------------------------
(* Generator of well-formed text files for TextFormat.tla: column subsets and  *)
(* orders, header spellings, date[+hour] or unixtime, leadtime or offset,      *)
(* location or id, altitude or elev, p/q/e/pit/other columns, comment and      *)
(* metadata lines, row orders, absent rows, missing-value tokens.              *)
(* One state per file; TLC checks ColumnOrderInvariant / RowOrderInvariant and *)
(* Parse(file) = the generator's intention; the literal file and Parse(file)   *)
(* are emitted for replay into verif.input.Text.                               *)
EXTENDS TextFormat, Json, SequencesExt
CONSTANT Universe
VARIABLES g, phase
vars == <<g, phase>>

T1 == 1325376000   \* 2012-01-01 00Z
T2 == 1325397600   \* 2012-01-01 06Z
T3 == 1325462400   \* 2012-01-02 00Z
TimesOf(fmt) == IF fmt = "date" THEN <<T1, T3>> ELSE <<T2, T1>>       \* date-only files cannot carry hours
LeadsG == <<R(12), Frac(1, 2)>>
IdsG == <<7, 3>>
TCode(t) == IF t = T1 THEN 1 ELSE IF t = T2 THEN 2 ELSE 3
LCode(l) == IF l = R(12) THEN 1 ELSE 2
ICode(i) == IF i = 7 THEN 1 ELSE 2
Code(t, l, i) == 100 * TCode(t) + 10 * LCode(l) + ICode(i)

ColSets == <<<<>>, <<N_p1, N_p2d5>>, <<N_q0d1, N_q0d9>>, <<N_e0, N_e1, N_e2>>, <<N_crps, N_p1, N_q0d5>>,
             <<N_pop, N_px, N_e1x, N_pm1>>, <<N_e0, N_crps, N_p2d5, N_q0d9, N_quality>>,
             <<N_pd5, N_qd9, N_pmd5, N_p5dot, N_p1em5>>,            \* 8: every spelling of a number that the format's "p<number>" admits
             <<N_p10, N_p0, N_p5, N_p1>>,
             <<N_q0, N_q0d5, N_q1>>,
             <<N_x, N_time, N_cdf, N_threshold, N_quantile>>>>       \* 11: other score columns named like the NetCDF layout's own variables                       \* 10: quantile levels 0 and 1                  \* 9: four thresholds, listed in an order that is neither ascending nor descending
Base == [timefmt |-> "unixtime", leadname |-> N_leadtime, hasLead |-> TRUE, idname |-> N_location, elevname |-> N_altitude,
         hasElev |-> TRUE, latlon |-> TRUE, hasObs |-> TRUE, hasFcst |-> TRUE, hasPit |-> FALSE, colset |-> 1,
         colorder |-> "id", roworder |-> "id", absent |-> {}, misscells |-> {}, misstok |-> "-999", meta |-> 0,
         hasId |-> TRUE, sites |-> "far"]
Base2 == [Base EXCEPT !.timefmt = "datehour", !.leadname = N_offset, !.idname = N_id, !.elevname = N_elev, !.hasPit = TRUE,
                      !.colset = 5, !.colorder = "rot", !.roworder = "rev", !.absent = {2, 7}, !.misscells = {<<1, "obs">>, <<3, "x">>},
                      !.misstok = "abc", !.meta = 2]
Options == [timefmt |-> {"unixtime", "date", "datehour"}, leadname |-> {N_leadtime, N_offset}, hasLead |-> BOOLEAN,
            idname |-> {N_location, N_id}, elevname |-> {N_altitude, N_elev}, hasElev |-> BOOLEAN, latlon |-> BOOLEAN,
            hasObs |-> BOOLEAN, hasFcst |-> BOOLEAN, hasPit |-> BOOLEAN, colset |-> 1..11, colorder |-> {"id", "rev", "rot"},
            roworder |-> {"id", "rev", "rot"}, absent |-> {{}, {1}, {2, 7}, {1, 2, 3, 4}, {2, 3, 5, 8}},
            misscells |-> {{}, {<<1, "obs">>}, {<<2, "fcst">>, <<5, "obs">>}, {<<1, "x">>, <<4, "x">>}, {<<3, "lat">>}},
            misstok |-> {"-999", "nan", "abc", "NA", "-999.0", "-1000", "-998.5"}, meta |-> 0..5,
            hasId |-> BOOLEAN, sites |-> {"far", "close", "east"}]      \* "east": longitudes in the 0..360 convention (187.5 and 183.5 degrees)
Fields == DOMAIN Options
Vary1(b) == UNION {{[b EXCEPT ![f] = v] : v \in Options[f]} : f \in Fields}
Vary2(b) == UNION {Vary1(x) : x \in Vary1(b)}
\* ---- building the literal file ----
NumTok(v) == [m |-> FALSE, v |-> v, txt |-> ""]
\* the tokens put into the chosen cells: spellings of "missing", and two NUMBERS just below the missing-value code that are data
Miss(txt) == IF txt = "-999.0" THEN [m |-> FALSE, v |-> R(-999), txt |-> "-999.0"]
             ELSE IF txt = "-1000" THEN [m |-> FALSE, v |-> R(-1000), txt |-> txt]
             ELSE IF txt = "-998.5" THEN [m |-> FALSE, v |-> Frac(-1997, 2), txt |-> txt]
             ELSE [m |-> TRUE, v |-> NaN, txt |-> txt]
CanonCols(x) ==
  (IF x.timefmt = "unixtime" THEN <<N_unixtime>> ELSE IF x.timefmt = "date" THEN <<N_date>> ELSE <<N_date, N_hour>>)
  \o (IF x.hasLead THEN <<x.leadname>> ELSE <<>>) \o (IF x.hasId THEN <<x.idname>> ELSE <<>>)
  \o (IF x.latlon THEN <<N_lat, N_lon>> ELSE <<>>) \o (IF x.hasElev THEN <<x.elevname>> ELSE <<>>)
  \o (IF x.hasObs THEN <<N_obs>> ELSE <<>>) \o (IF x.hasFcst THEN <<N_fcst>> ELSE <<>>) \o (IF x.hasPit THEN <<N_pit>> ELSE <<>>)
  \o ColSets[x.colset]
Perm(n, o) == IF o = "id" THEN [k \in 1..n |-> k] ELSE IF o = "rev" THEN Reversal(n) ELSE Rotation(n)
Header(x) == LET c == CanonCols(x) IN [k \in DOMAIN c |-> c[Perm(Len(c), x.colorder)[k]]]
GridRows(x) ==     \* <<t, l, id>> in row-major order, minus the absent ones
  LET ts == TimesOf(x.timefmt)  ls == IF x.hasLead THEN LeadsG ELSE <<Zero>>
      all == [n \in 1..(Len(ts) * Len(ls) * 2) |-> <<ts[((n - 1) \div (2 * Len(ls))) + 1], ls[(((n - 1) \div 2) % Len(ls)) + 1], IdsG[((n - 1) % 2) + 1]>>]
      keepIdx == SelectSeq([n \in DOMAIN all |-> n], LAMBDA n : n \notin x.absent)
  IN  [k \in DOMAIN keepIdx |-> <<keepIdx[k], all[keepIdx[k]]>>]
WellFormed(x) == (x.hasObs \/ x.hasFcst \/ x.colset \in {2, 3, 5, 7, 8, 9, 10, 11})            \* the header needs at least one data column
                 /\ GridRows(x) # <<>>                                                  \* at least one data row (a file without rows is not in the domain)
                 /\ (x.hasId \/ x.latlon)                                               \* sites need a name or a position
\* files without a location column, in both layouts of the sites (far apart; a hundred-thousandth of a degree apart), every column set and row order
NoIdGens == {[b EXCEPT !.hasId = FALSE, !.sites = s, !.colset = k, !.roworder = o] : b \in {Base, Base2}, s \in {"far", "close"}, k \in 1..11, o \in {"id", "rev", "rot"}}
Gens(u) == {x \in (IF Universe = "quick" THEN Vary1(Base) \cup Vary1(Base2) \cup {[Base2 EXCEPT !.sites = "east", !.colset = k] : k \in {1, 4, 5}} \cup {[Base2 EXCEPT !.colset = k, !.colorder = o] : k \in 1..11, o \in {"id", "rev", "rot"}} \cup NoIdGens
                   ELSE Vary2(Base) \cup Vary2(Base2) \cup NoIdGens \cup UNION {Vary1(y) : y \in {z \in NoIdGens : z.colset = 5}}) : WellFormed(x)}

\* which abstract column kind a header name is, for the generator's own purposes
KindOfName(nm) == IF nm \in {N_obs} THEN "obs" ELSE IF nm = N_fcst THEN "fcst" ELSE IF nm = N_lat THEN "lat" ELSE "x"
ColNo(x, nm) == CHOOSE k \in DOMAIN CanonCols(x) : CanonCols(x)[k] = nm
TokenFor(x, nm, n, c) ==       \* n = grid row number, c = <<t, l, id>>
  IF <<n, KindOfName(nm)>> \in x.misscells /\ nm \notin {N_unixtime, N_date, N_hour, N_leadtime, N_offset, N_location, N_id, N_elev, N_altitude, N_lon}
  THEN Miss(x.misstok)
  ELSE CASE nm = N_unixtime -> NumTok(R(c[1]))
         [] nm = N_date -> NumTok(R(YYYYMMDD(DayOf(c[1]))))
         [] nm = N_hour -> NumTok(R(HourOf(c[1])))
         [] nm \in {N_leadtime, N_offset} -> NumTok(c[2])
         [] nm \in {N_location, N_id} -> NumTok(R(c[3]))
         [] nm = N_lat -> NumTok(IF x.sites # "close" THEN R(40 + c[3]) ELSE R(40))
         [] nm = N_lon -> NumTok(IF x.sites = "far" THEN Frac(-2 * c[3] - 1, 2) ELSE IF x.sites = "east" THEN Frac(2 * (180 + c[3]) + 1, 2) ELSE Frac(20000 + (c[3] % 5), 100000))         \* 0.20002 and 0.20003: a hundred-thousandth of a degree apart (32-bit arithmetic bounds the digits)
         [] nm \in {N_elev, N_altitude} -> NumTok(IF x.sites # "close" THEN R(100 * c[3]) ELSE R(100))
         [] nm = N_pit -> NumTok(Frac(Code(c[1], c[2], c[3]) % 8, 8))
         [] OTHER -> NumTok(Add(R(1000 * ColNo(x, nm) + Code(c[1], c[2], c[3])), IF ColNo(x, nm) % 2 = 0 THEN Frac(1, 4) ELSE Zero))
RowsOf(x) == LET gr == GridRows(x)  h == Header(x)
                 ordered == [k \in DOMAIN gr |-> gr[Perm(Len(gr), x.roworder)[k]]]
             IN  [r \in DOMAIN ordered |-> [k \in DOMAIN h |-> TokenFor(x, h[k], ordered[r][1], ordered[r][2])]]
MetaOf(x) == IF x.meta = 0 THEN <<>>
             ELSE IF x.meta = 1 THEN <<[key |-> "variable", value |-> "Precip"], [key |-> "units", value |-> "mm"]>>
             ELSE IF x.meta = 2 THEN <<[key |-> "units", value |-> "m/s"], [key |-> "x0", value |-> "0"], [key |-> "variable", value |-> "Wind speed"], [key |-> "x1", value |-> "100"]>>
             ELSE IF x.meta = 4 THEN <<[key |-> "variable", value |-> "RH"], [key |-> "units", value |-> "%"]>>        \* names that suggest a discrete mass, no x0 / x1 line
             ELSE IF x.meta = 5 THEN <<[key |-> "variable", value |-> "Hourly precipitation"], [key |-> "x1", value |-> "50"]>>
             ELSE <<[key |-> "variable", value |-> "T"], [key |-> "variable", value |-> "Temperature"]>>
FileOf(x) == [meta |-> MetaOf(x), header |-> Header(x), rows |-> RowsOf(x)]

\* ---- JSON ----
J(v) == IF IsNaN(v) THEN "nan" ELSE IF IsInf(v) THEN "inf" ELSE IF v[2] = 1 THEN v[1] ELSE v
TokJ(t) == IF t.txt # "" THEN [lit |-> t.txt] ELSE [num |-> J(t.v)]
FieldJ(fn) == LET cs == SetToSeq({c \in DOMAIN fn : ~IsNaN(fn[c])}) IN [k \in DOMAIN cs |-> <<cs[k][1], J(cs[k][2]), cs[k][3], J(fn[cs[k]])>>]
SetJ(S) == LET q == SetToSeq(S) IN [k \in DOMAIN q |-> J(q[k])]
ByNumJ(f) == LET q == SetToSeq(DOMAIN f) IN [k \in DOMAIN q |-> [level |-> J(q[k]), cells |-> FieldJ(f[q[k]])]]
ByNameJ(f) == LET q == SetToSeq(DOMAIN f) IN [k \in DOMAIN q |-> [name |-> q[k], cells |-> FieldJ(f[q[k]])]]
InputJ(I) == [times |-> I.times, leads |-> [k \in DOMAIN I.leads |-> J(I.leads[k])], ids |-> I.ids,
              locations |-> [k \in DOMAIN I.locations |-> [id |-> I.locations[k].id, lat |-> J(I.locations[k].lat), lon |-> J(I.locations[k].lon), elev |-> J(I.locations[k].elev)]],
              hasObs |-> I.hasObs, hasFcst |-> I.hasFcst, hasPit |-> I.hasPit,
              obs |-> IF I.hasObs THEN FieldJ(I.obs) ELSE <<>>, fcst |-> IF I.hasFcst THEN FieldJ(I.fcst) ELSE <<>>,
              pit |-> IF I.hasPit THEN FieldJ(I.pit) ELSE <<>>,
              thresholds |-> SetJ(I.thresholds), quantiles |-> SetJ(I.quantiles), members |-> SetJ(I.members),
              cdf |-> ByNumJ(I.cdf), x |-> ByNumJ(I.x), ens |-> ByNumJ(I.ens), other |-> ByNameJ(I.other), variable |-> I.variable]
F == FileOf(g)
Emit == PrintT(ToJson([meta |-> F.meta, header |-> F.header, rows |-> [r \in DOMAIN F.rows |-> [k \in DOMAIN F.header |-> TokJ(F.rows[r][k])]],
                       gen |-> [timefmt |-> g.timefmt, colorder |-> g.colorder, roworder |-> g.roworder, misstok |-> g.misstok, absent |-> SetToSeq(g.absent),
                               hasId |-> g.hasId, sites |-> g.sites],
                       input |-> InputJ(Parse(F))]))
Init == g \in Gens(0) /\ phase = "file"
Evaluate == phase = "file" /\ phase' = "emitted" /\ g' = g /\ Emit
Next == Evaluate
Spec == Init /\ [][Next]_vars

InvColumnOrder == ColumnOrderInvariant(F)
InvRowOrder == RowOrderInvariant(F)
InvLoopRefines == LoopRefinesParse(F)
InvNoMass == NoMassWithoutLine(F)
\* parse o encode = identity on what the generator intended (spot facts)
InvIntended ==
  LET I == Parse(F) IN
  /\ Elems(I.times) = {c[2][1] : c \in Elems(GridRows(g))}
  /\ (g.hasId => Elems(I.ids) = {c[2][3] : c \in Elems(GridRows(g))})
  /\ (~g.hasId /\ g.misscells # {<<3, "lat">>} => Elems(I.ids) = 1..Cardinality({c[2][3] : c \in Elems(GridRows(g))}))        \* id-less: one site per position
  /\ I.hasObs = g.hasObs /\ I.hasFcst = g.hasFcst /\ I.hasPit = g.hasPit
  /\ Cardinality(I.thresholds) + Cardinality(I.quantiles) + Cardinality(I.members) + Cardinality(I.others) = Len(ColSets[g.colset])
  /\ (g.colset = 11 => I.others = {N_x, N_time, N_cdf, N_threshold, N_quantile})
  /\ (g.colset = 6 => I.others = {N_pop, N_px, N_e1x} /\ I.thresholds = {R(-1)})
  /\ (g.hasObs /\ g.hasId => \A c \in DOMAIN I.obs : IsNaN(I.obs[c]) \/ I.obs[c] \in {R(-1000), Frac(-1997, 2)}
                                              \/ ((I.obs[c][1] \div I.obs[c][2]) % 1000) = Code(c[1], c[2], c[3]))
\* ---- witnesses against vacuity (tools/vacuity.py) ----
W_ReservedNames == ~(g.colset = 11)
W_NoIdCloseSites == ~(~g.hasId /\ g.sites = "close" /\ Len(Parse(F).ids) = 2)
W_NoLeadingDigit == ~(g.colset = 8)
W_MixedOrderThresholds == ~(g.colset = 9 /\ g.colorder # "id")
=============================================================================
