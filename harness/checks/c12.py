"""C12 Text and CSV outputs. Spec: Report.tla (ScoreTable / ThresholdTable over Scoring.tla, descriptors that identify the
slice, -acc as running sums; shape lemmas checked by TLC). Every (dataset, metric, axis) case is run through
verif.driver.run with -type text|csv, with and without -f, -leg, -acc; the printed table is parsed and compared with the
expected table to the format's precision."""
import io
import os
import random
import sys

from harness import tlc, par, table, dsreplay
from harness.dsreplay import quiet, exc_site

CAT = ("ets", "hit", "n")


def run_verif(argv):
    """-> (status, stdout). status: 'ok' | 'exit:<code>' | exception site"""
    import verif.driver
    import matplotlib.pyplot as mpl
    old = sys.stdout
    buf = io.StringIO()
    sys.stdout = buf
    try:
        verif.driver.run(["verif"] + argv)
        status = "ok"
    except SystemExit as e:
        status = "exit:%s" % (e.code,)
    except Exception as e:
        status = exc_site(e) + " " + repr(e)[:120]
    finally:
        sys.stdout = old
        mpl.close("all")
    return status, buf.getvalue()


def _check_session(jobs):
    """tables of several metrics and axes printed in one session: every command gets the same Data object for the same files"""
    from harness import session
    n, divs = 0, []
    with session.shared_data():
        for job in jobs:
            k, d = _check(job)
            n += k
            divs += d
    return n, [(site + ":one-session", detail + " [one session on a shared Data object]", rep) for site, detail, rep in divs]


def _check(job):
    obj, combos = job
    n = 0
    divs = []
    wd = par.workdir()
    paths, climp = dsreplay.write_files(obj, "text")
    for (kind, to_file, leg, acc) in combos:
        argv = list(paths) + ["-m", obj["metric"], "-x", obj["axis"], "-type", kind]
        if climp:
            argv += ["-c" if obj["climType"] == "subtract" else "-C", climp]
        if obj["axis"] == "threshold":
            argv += ["-r", ",".join(str(t) for t in obj["thresholds"]), "-b", obj["bt"]]
            acc = False
        elif obj["metric"] in CAT:
            argv += ["-r", "2", "-b", obj["bt"]]
        legend = obj["legend"] if leg else [os.path.basename(p) for p in paths]
        if leg:
            argv += ["-leg", ",".join(x.replace(" ", "_") for x in obj["legend"])]
        if acc:
            argv += ["-acc"]
        out = os.path.join(wd, "table.out")
        if to_file:
            if os.path.exists(out):
                os.remove(out)
            argv += ["-f", out]
        rep = {"kind": "table", "argv": argv, "files": [open(p).read() for p in paths], "expected": obj["acc"] if acc else obj["table"],
               "legend": legend, "type": kind, "axis": obj["axis"]}
        status, text = run_verif(argv)
        n += 1
        if status != "ok":
            site = status.split(" ")[0] if status.startswith("exception") else "table:" + status
            divs.append((site, "%s -> %s" % (" ".join(argv[2:]), status), rep))
            continue
        if to_file:
            if table.strip_warnings(text).strip():
                divs.append(("table:-f-also-printed", "%s: table printed to the screen although -f was given" % " ".join(argv[2:]), rep))
            text = open(out).read() if os.path.exists(out) else ""
        header, rows = table.parse(text, kind)
        msgs = table.compare(rep["expected"], legend, header, rows, 6 if kind == "csv" else 4, obj["axis"])
        rep["observed"] = text
        for msg in msgs[:3]:
            divs.append(("table:%s" % kind, "%s: %s" % (" ".join(argv[2:]), msg), rep))
    # -x threshold with the other one-sided bin types
    for bt, tab in (obj.get("thr") or {}).items():
        argv = list(paths) + ["-m", obj["metric"], "-x", "threshold", "-type", "csv", "-r", ",".join(str(t) for t in obj["thresholds"]), "-b", bt]
        if climp:
            argv += ["-c" if obj["climType"] == "subtract" else "-C", climp]
        rep = {"kind": "table", "argv": argv, "files": [open(p).read() for p in paths], "expected": tab, "type": "csv", "axis": "threshold"}
        status, text = run_verif(argv)
        n += 1
        if status != "ok":
            divs.append((status.split(" ")[0] if status.startswith("exception") else "table:" + status, "%s -> %s" % (" ".join(argv[2:]), status), rep))
            continue
        header, rows = table.parse(text, "csv")
        rep["observed"] = text
        for msg in table.compare(tab, [os.path.basename(p) for p in paths], header, rows, 6, "threshold")[:3]:
            divs.append(("table:csv", "%s: %s" % (" ".join(argv[2:]), msg), rep))
    # -x obs / -x fcst: scores conditional on the observed / forecast value lying in the events of -b / -r
    for ct in obj.get("cond", []):
        for kind in ("csv", "text"):
            argv = list(paths) + ["-m", obj["metric"], "-x", ct["field"], "-type", kind, "-r", ",".join(str(t) for t in ct["r"]), "-b", ct["bt"]]
            if climp:
                argv += ["-c" if obj["climType"] == "subtract" else "-C", climp]
            rep = {"kind": "table", "argv": argv, "files": [open(p).read() for p in paths], "expected": ct["table"], "type": kind, "axis": ct["field"]}
            status, text = run_verif(argv)
            n += 1
            if status != "ok":
                divs.append((status.split(" ")[0] if status.startswith("exception") else "table:" + status, "%s -> %s" % (" ".join(argv[2:]), status), rep))
                continue
            header, rows = table.parse(text, kind)
            rep["observed"] = text
            for msg in table.compare(ct["table"], [os.path.basename(p) for p in paths], header, rows, 6 if kind == "csv" else 4, ct["field"])[:3]:
                divs.append(("table:conditional-on-%s" % ct["field"], "%s: %s" % (" ".join(argv[2:]), msg), rep))
    for mt in obj.get("multi", []):
        argv = list(paths) + ["-m", obj["metric"], "-x", obj["axis"], "-type", "csv", "-r", ",".join(str(t) for t in mt["r"]), "-b", mt["bt"]]
        if climp:
            argv += ["-c" if obj["climType"] == "subtract" else "-C", climp]
        rep = {"kind": "table", "argv": argv, "files": [open(p).read() for p in paths], "expected": mt["table"], "type": "csv", "axis": obj["axis"]}
        status, text = run_verif(argv)
        n += 1
        if status != "ok":
            divs.append((status.split(" ")[0] if status.startswith("exception") else "table:" + status, "%s -> %s" % (" ".join(argv[2:]), status), rep))
            continue
        header, rows = table.parse(text, "csv")
        for msg in table.compare(mt["table"], [os.path.basename(p) for p in paths], header, rows, 6, obj["axis"])[:3]:
            divs.append(("table:averaged-events", "%s: %s" % (" ".join(argv[2:]), msg), rep))
    return n, divs


def _check_obsfcst(cases):
    """the table behind the obs/fcst diagram with quantile lines: one column per drawn series, named after the input it belongs to"""
    from harness.checks import c16
    wd = par.workdir()
    n = 0
    divs = []
    for c, kind in cases:
        paths = c16.prob_files(c, wd)
        names = [os.path.basename(p) for p in paths]
        cols = [s["label"] if isinstance(s["label"], str) else names[s["label"][1] - 1] + (s["label"][2] if len(s["label"]) > 2 else "") for s in c["series"]]
        nloc = len(c["series"][0]["x"])
        want = [{"desc": {"kind": "location", "id": k + 1, "lat": 50 + k, "lon": 10, "elev": 0}, "scores": [s["y"][k] for s in c["series"]]} for k in range(nloc)]
        argv = paths + list(c["argv"]) + ["-type", kind]
        rep = {"kind": "table", "argv": argv, "files": [open(p).read() for p in paths], "expected": want, "type": kind, "axis": "location"}
        status, text = run_verif(argv)
        n += 1
        if status != "ok":
            divs.append((status.split(" ")[0] if status.startswith("exception") else "table:" + status, "%s -> %s" % (" ".join(argv[2:]), status), rep))
            continue
        header, rows = table.parse(text, kind)
        rep["observed"] = text
        if kind == "text":
            header = _join_names(header, cols)
        for msg in table.compare(want, cols, header, rows, 6 if kind == "csv" else 4, "location")[:3]:
            divs.append(("table:obsfcst-quantiles", "%s: %s" % (" ".join(argv[2:]), msg), rep))
    return n, divs


def _check_fss_table(cases):
    """the table behind the fss diagram along lead time (Diagrams!FssSeries): one row per temporal scale, in ascending order, whose leading field is
    the scale and whose numbers are the scores of THAT scale, one column per input (after seed C12-i)"""
    n = 0
    divs = []
    for c, kind in cases:
        paths, _ = dsreplay.write_files(c, "text", tag="fs")
        names = [os.path.basename(p) for p in paths]
        xs = c["series"][0]["x"]
        from harness import expr
        want = [{"desc": {"kind": "number", "value": expr.ev(xs[k])}, "scores": [s["y"][k] for s in c["series"]]} for k in range(len(xs))]
        argv = paths + list(c["argv"]) + ["-type", kind]
        rep = {"kind": "table", "argv": argv, "files": [open(p).read() for p in paths], "expected": want, "type": kind, "axis": "leadtime"}
        status, text = run_verif(argv)
        n += 1
        if status != "ok":
            divs.append((status.split(" ")[0] if status.startswith("exception") else "table:" + status, "%s -> %s" % (" ".join(argv[2:]), status), rep))
            continue
        header, rows = table.parse(text, kind)
        rep["observed"] = text
        # (the fractions of this score are single-precision numbers: the printed number is the rounded COMPUTED score, 2e-6 from the exact one)
        for msg in table.compare(want, names, header, rows, 6 if kind == "csv" else 4, "leadtime", rtol=2e-6)[:3]:
            divs.append(("table:fss-scales", "%s: %s" % (" ".join(argv[2:]), msg), rep))
    return n, divs


def _join_names(header, cols):
    """the text format separates cells by blanks and so does a name like `file 10%`: re-join the header cells that spell the expected names, in order"""
    want = [w for c in cols for w in c.split()]
    if header[-len(want):] == want:
        return header[:-len(want)] + list(cols)
    return header


def run(ctx):
    ctx.rule = ("case = (dataset, metric from a 10-metric menu, one of 16 axes incl. threshold) x {text, csv} x {stdout, -f} x {-leg, none} "
                "x {-acc, none}; non-trivial = the table has more than one row or a missing score")
    ctx.assumptions = ["descriptor column NAMES are not compared, only that the descriptor cells identify the slice",
                       "week descriptors are held to 'carries the right year'", "numbers: within half a unit of the 6th (csv) / 4th (text) significant digit"]
    res = tlc.run("MC_Report", "MC_Report_C12", tag=ctx.pid + "_report", timeout_s=1800)
    ctx.add_tlc("MC_Report/C12", res, {"Family": "C12"})
    rng = random.Random(ctx.seed)
    all_combos = [(k, f, l, a) for k in ("csv", "text") for f in (False, True) for l in (False, True) for a in (False, True)]
    cases = res.emitted
    # long station ids on the location-like axes: always part of the quick tier, in every output variant
    long_ids = [o for o in cases if max(o["inputs"][0]["locs"]) > 10000 and o["axis"] in ("location", "lat", "elev") and o["metric"] in ("mae", "obs")]
    # the first and the last week of 2012 in one table: always part of the quick tier
    year_end = [o for o in cases if 1356994800 in o["inputs"][0]["times"] and o["axis"] in ("week", "month", "year", "day", "time") and o["metric"] in ("mae", "obs")]
    if ctx.tier == "quick":
        cases = rng.sample(cases, min(len(cases), 320))
        cases += [o for o in long_ids + year_end if o not in cases]
        with_cond = [o for o in res.emitted if o.get("cond")]
        cases += [o for o in rng.sample(with_cond, min(len(with_cond), 12)) if o not in cases]
    jobs = [(o, (rng.sample(all_combos, 3) if (ctx.tier == "quick" and o not in long_ids) else all_combos)) for o in cases]
    for n, divs in par.pmap(_check, jobs, chunk=2):
        ctx.evaluations += n
        for site, detail, rep in divs:
            ctx.diverge(site, rep, detail=detail)
    import json as _json
    groups = {}
    for job in jobs:
        groups.setdefault(_json.dumps([job[0]["inputs"], job[0]["hasClim"]], sort_keys=True), []).append(job)
    sessions = [g[i:i + 12] for key, g in sorted(groups.items()) for i in range(0, len(g), 12)]
    if ctx.tier == "quick":
        sessions = rng.sample(sessions, min(len(sessions), 8))
    for n, divs in par.pmap(_check_session, sessions, chunk=1):
        ctx.evaluations += n
        for site, detail, rep in divs:
            ctx.diverge(site, rep, detail=detail)
    res3 = tlc.run("MC_ProbDiagrams", "MC_ProbDiagrams_obsfcst", tag=ctx.pid + "_obsfcst", timeout_s=900)
    ctx.add_tlc("MC_ProbDiagrams/obsfcst", res3, {"Only": "obsfcst"})
    ocases = [(c, kind) for c in res3.emitted for kind in ("csv", "text")]
    if ctx.tier == "quick":
        ocases = rng.sample(ocases, min(len(ocases), 40))
    for n, divs in par.pmap(_check_obsfcst, [ocases[i:i + 4] for i in range(0, len(ocases), 4)], chunk=1):
        ctx.evaluations += n
        for site, detail, rep in divs:
            ctx.diverge(site, rep, detail=detail)
    ctx.traces += len(ocases)
    res4 = tlc.run("MC_Diagrams", "MC_Diagrams_C12", tag=ctx.pid + "_fss", timeout_s=1500)
    ctx.add_tlc("MC_Diagrams/C12 (table of the fss diagram)", res4)
    fcases = [(c, kind) for c in res4.emitted if c["diagram"] == "fss" for kind in ("csv", "text")]
    if ctx.tier == "quick":
        fcases = rng.sample(fcases, min(len(fcases), 24))
    for n, divs in par.pmap(_check_fss_table, [fcases[i:i + 4] for i in range(0, len(fcases), 4)], chunk=1):
        ctx.evaluations += n
        for site, detail, rep in divs:
            ctx.diverge(site, rep, detail=detail)
    ctx.traces += len(fcases)
    ctx.extra["fss_tables"] = len(fcases)
    ctx.traces += sum(len(c) for _, c in jobs)
    for o, _ in jobs:
        if len(o["table"]) > 1 or "undef" in str(o["table"]):
            ctx.nontriv(str((o["inputs"][0]["times"], o["inputs"][0]["obs"][:4], o["metric"], o["axis"])))
    if cases:
        o = cases[len(cases) // 2]
        ctx.sample({"metric": o["metric"], "axis": o["axis"], "expected_table": o["table"][:3]})
    ctx.exhaustive = ctx.tier != "quick"
    par.clean_workdirs()


def replay(ctx, rep):
    import tempfile
    d = tempfile.mkdtemp(dir=par.workdir())
    paths = []
    for k, content in enumerate(rep["files"]):
        p = os.path.join(d, "in%d.txt" % k)
        open(p, "w").write(content)
        paths.append(p)
    argv = paths + [a for a in rep["argv"][len(paths):]]
    status, text = run_verif(argv)
    print(status)
    print(text)
    return 0
