SPECIFICATION Spec
CONSTANT Universe = "quick"
INVARIANT InvColumnOrder
INVARIANT InvRowOrder
INVARIANT InvIntended
INVARIANT InvLoopRefines
CHECK_DEADLOCK FALSE
