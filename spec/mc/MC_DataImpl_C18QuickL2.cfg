SPECIFICATION Spec
CONSTANTS Family = "C18Quick"
          MaxLen = 2
          EmitLeaves = FALSE
          CopyOnAll = TRUE
INVARIANT HistoryIndependent
INVARIANT EarlierUnaltered
INVARIANT CacheCoherent
PROPERTY CacheGrows
CHECK_DEADLOCK FALSE
