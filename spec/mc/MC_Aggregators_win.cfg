SPECIFICATION Spec
CONSTANT Kind = "win"
INVARIANT InvOrder
INVARIANT InvWindow
CHECK_DEADLOCK FALSE
