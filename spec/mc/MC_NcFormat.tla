----------------------------- MODULE MC_NcFormat -----------------------------
(* C10 / C04: for the Inputs of MC_TextFormat's generated text files, the       *)
(* NetCDF file carrying the same numbers (dimension order and missing-value     *)
(* encoding chosen by the generator).  TLC checks NcParse(EncodeNc(I)) = I and  *)
(* emits both literal files and the common expected Input.                      *)
EXTENDS MC_TextFormat, NcFormat
VARIABLES enc, ord
nvars == <<g, phase, enc, ord>>

NameStr(nm) == CASE nm = N_crps -> "crps" [] nm = N_pop -> "pop" [] nm = N_quality -> "quality" [] nm = N_px -> "px" [] nm = N_e1x -> "e1x"
                 [] nm = N_p -> "p" [] nm = N_q -> "q" [] nm = N_e -> "e" [] nm = N_time -> "time2" [] OTHER -> "other"
Names(I) == [o \in I.others |-> NameStr(o)]
HasMissing(x) == x.misscells # {} \/ x.absent # {}
Encs(x) == IF HasMissing(x) THEN {"nan", "fill", "masked", "m999", "big", "mix"} ELSE {"nan"}
Ords(e) == IF e \in {"nan", "mix"} THEN {"id", "rev"} ELSE {"id"}

I0 == Parse(F)
NC == EncodeNc(I0, enc, ord, Names(I0))
StJ(s) == <<s.kind, J(s.v)>>
Var3J(N, v) == [n \in 1..(Len(N.time) * Len(N.leadtime) * Len(N.location)) |->
                  StJ(v[<<((n - 1) \div (Len(N.location) * Len(N.leadtime))) + 1, (((n - 1) \div Len(N.location)) % Len(N.leadtime)) + 1, ((n - 1) % Len(N.location)) + 1>>])]
Var4J(N, v, m) == [n \in 1..(Len(N.time) * Len(N.leadtime) * Len(N.location) * m) |->
                  LET q == (n - 1) \div m IN
                  StJ(v[<<(q \div (Len(N.location) * Len(N.leadtime))) + 1, ((q \div Len(N.location)) % Len(N.leadtime)) + 1, (q % Len(N.location)) + 1, ((n - 1) % m) + 1>>])]
NcJ(N) == [time |-> N.time, leadtime |-> [k \in DOMAIN N.leadtime |-> J(N.leadtime[k])], location |-> N.location,
           lat |-> [k \in DOMAIN N.lat |-> J(N.lat[k])], lon |-> [k \in DOMAIN N.lon |-> J(N.lon[k])],
           altitude |-> [k \in DOMAIN N.altitude |-> J(N.altitude[k])],
           vars |-> LET vs == SetToSeq(DOMAIN N.vars) IN [k \in DOMAIN vs |-> [name |-> vs[k], data |-> Var3J(N, N.vars[vs[k]])]],
           thresholds |-> [k \in DOMAIN N.thresholds |-> J(N.thresholds[k])], quantiles |-> [k \in DOMAIN N.quantiles |-> J(N.quantiles[k])],
           nmembers |-> N.nmembers,
           cdf |-> IF N.thresholds = <<>> THEN <<>> ELSE Var4J(N, N.cdf, Len(N.thresholds)),
           x |-> IF N.quantiles = <<>> THEN <<>> ELSE Var4J(N, N.x, Len(N.quantiles)),
           ens |-> IF N.nmembers = 0 THEN <<>> ELSE Var4J(N, N.ens, N.nmembers),
           attrs |-> N.attrs]
EmitNc == PrintT(ToJson([meta |-> F.meta, header |-> F.header, rows |-> [r \in DOMAIN F.rows |-> [k \in DOMAIN F.header |-> TokJ(F.rows[r][k])]],
                         gen |-> [timefmt |-> g.timefmt, colorder |-> g.colorder, roworder |-> g.roworder, misstok |-> g.misstok, enc |-> enc, ord |-> ord],
                         input |-> InputJ(I0), nc |-> NcJ(NC),
                         othernames |-> [k \in DOMAIN SetToSeq(I0.others) |-> <<SetToSeq(I0.others)[k], NameStr(SetToSeq(I0.others)[k])>>]]))
\* expressible in both formats: score columns named like the NetCDF layout's own variables (colset 11) have no NetCDF counterpart
\* ... files without a location column are a matter of the text format alone (a NetCDF file always names its locations), and the "close" sites
\* (0.20002 degrees) are not single-precision numbers, which is what the NetCDF layout stores positions in
InitNc == g \in {x \in Gens(0) : x.colset # 11 /\ x.hasId /\ x.sites # "close"} /\ phase = "file" /\ enc \in Encs(g) /\ ord \in Ords(enc)
EvaluateNc == phase = "file" /\ phase' = "emitted" /\ UNCHANGED <<g, enc, ord>> /\ EmitNc
SpecNc == InitNc /\ [][EvaluateNc]_nvars
InvRoundTrip == RoundTrip(I0, enc, ord, Names(I0))
\* every encoding of missing data decodes to missing, a stored number to itself (except -999)
InvDecode == /\ \A k \in MissingKinds : IsNaN(DecodeNc([kind |-> k, v |-> NaN]))
             /\ DecodeNc([kind |-> "val", v |-> R(5)]) = R(5) /\ IsNaN(DecodeNc([kind |-> "val", v |-> R(-999)]))
=============================================================================
