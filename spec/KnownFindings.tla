---------------------------- MODULE KnownFindings ----------------------------
(* As-implemented operators for recorded findings (known_findings.json).       *)
(* A divergence between the code and the abstract specification is reported    *)
(* as KNOWN-FINDING only if it occurs at the recorded site AND the observed    *)
(* value equals what the operator below predicts; anything else at the same    *)
(* site is a new VIOLATION.                                                    *)
EXTENDS Metrics

\* F-interval-infinite (C07): util.get_intervals builds below*/above* events as intervals whose infinite end is OPEN,
\* so Interval.within(-inf) is False for `below` (and within(+inf) False for `above`), although -inf < t and
\* util.apply_threshold agree that the value is in the event.
In_AsImplemented(iv, x) ==
  /\ ~IsNaN(x)
  /\ (Gt(x, iv.lo) \/ (iv.lc /\ iv.lo # MInf /\ x = iv.lo))
  /\ (Lt(x, iv.hi) \/ (iv.uc /\ iv.hi # PInf /\ x = iv.hi))

\* F-alphaindex (C05): the code returns 1 - alpha, so a perfect forecast scores 1 although the declared perfect score is 0
Alphaindex_AsImplemented(p) ==
  LET e == Det("alphaindex", p, "mean", Zero) IN IF IsUndef(e) THEN e ELSE Q(Sub(One, e.v))

\* F-leps (C05): the observation side uses argsort positions (index of the k-th smallest element) instead of ranks:
\*   qobs[k] = (position of the k-th smallest observation in the input order) / n ,  qfcst[k] = Fobs(f[k])
StableRank(o, k) == Cardinality({j \in DOMAIN o : Lt(o[j], o[k])}) + Cardinality({j \in 1..(k - 1) : o[j] = o[k]}) + 1
ArgSort(o) == [i \in DOMAIN o |-> CHOOSE k \in DOMAIN o : StableRank(o, k) = i]
\* (with tied observations the positions depend on numpy's unstable argsort: any value in [0, 1] is then "as implemented")
Leps_AsImplemented(p) ==
  IF N(p) = 0 THEN Undef
  ELSE IF \E j, k \in DOMAIN p : j # k /\ p[j][1] = p[k][1] THEN [op |-> "any01", v |-> NaN]
  ELSE LET o == O(p)  f == F(p)  n == N(p)
       IN  Q(MeanSeq([k \in DOMAIN p |-> AbsR(Sub(Fobs(p, f[k]), Frac(ArgSort(o)[k] - 1, n)))]))
=============================================================================
