SPECIFICATION Spec
CONSTANT Family = "C02Close"
INVARIANT InvSameCases
INVARIANT InvSameObs
INVARIANT InvDims
INVARIANT InvPartition
INVARIANT InvNonInterference
CHECK_DEADLOCK FALSE
