"""C05 Deterministic scores equal their definitions. Spec: Metrics.tla (Det), Aggregators.tla, Expr.tla; TLC enumerates
every obs/fcst vector of a small universe (ties, constants, zeros, negatives, single pairs, missing on either side),
checks PerfectAttains / NeverBetter / AggregatorConsistency and emits every expected score as an expression tree over
exact rationals; each is replayed into Metric.compute_from_obs_fcst of the real metric classes."""
import math

from harness import tlc, par, expr
from harness.materialize import num
from harness.dsreplay import quiet, exc_site

KNOWN_IMPL = {"alphaindex": "metric:alphaindex", "leps": "metric:leps"}


def _check_chunk(cases):
    import numpy as np
    import verif.metric
    import verif.aggregator
    n = 0
    divs = []
    for c in cases:
        obs = np.array([num(x) for x in c["o"]], float)
        fcst = np.array([num(x) for x in c["f"]], float)

        def run(name, e, aggname=None, q=None, impl=None):
            nonlocal n
            try:
                with quiet():
                    m = verif.metric.get(name)
                    if aggname == "quantile":
                        m.aggregator = verif.aggregator.Quantile(q)
                    elif aggname is not None:
                        m.aggregator = verif.aggregator.get(aggname)
                    o1, f1 = obs.copy(), fcst.copy()
                    got = m.compute_from_obs_fcst(o1, f1)
                n += 1
                # the arrays handed in are the caller's (verif.data hands out its cached arrays): if a metric reorders or overwrites them,
                # the scores computed from the same arrays afterwards must still equal their definitions on the values that were passed
                if not (np.array_equal(o1, obs, equal_nan=True) and np.array_equal(f1, fcst, equal_nan=True)):
                    for later in ("mae", "corr"):
                        with quiet():
                            again = verif.metric.get(later).compute_from_obs_fcst(o1, f1)
                        if not expr.agrees(expr.ev(c["det"][later]), again):
                            divs.append(("metric:%s:corrupts-later-scores" % name, False,
                                         "%s on obs=%r fcst=%r left the arrays as obs=%r fcst=%r: %s computed from them afterwards is %r, expected %r"
                                         % (name, c["o"], c["f"], o1.tolist(), f1.tolist(), later, float(again), expr.ev(c["det"][later])),
                                         {"kind": "metric", "metric": name, "agg": aggname, "case": {"o": c["o"], "f": c["f"]}}))
                            break
                want = expr.ev(e)
                if not expr.agrees(want, got):
                    known = False
                    if impl is not None:
                        known = expr.agrees(expr.ev(impl), got)
                    label = name if aggname is None else "%s/-agg %s" % (name, aggname if q is None else q)
                    divs.append(("metric:" + name, known,
                                 "%s on obs=%r fcst=%r: expected %r observed %r" % (label, c["o"], c["f"], want, float(got)),
                                 {"kind": "metric", "metric": name, "agg": aggname, "q": q, "case": {"o": c["o"], "f": c["f"]},
                                  "expected_expr": e, "expected": want, "observed": float(got)}))
            except SystemExit:
                divs.append(("metric:%s:error-exit" % name, False, "%s on %r/%r ended in an error exit" % (name, c["o"], c["f"]),
                             {"kind": "metric", "metric": name, "case": {"o": c["o"], "f": c["f"]}}))
            except Exception as ex:
                divs.append((exc_site(ex), False, "%s on obs=%r fcst=%r: %r" % (name, c["o"], c["f"], ex),
                             {"kind": "metric", "metric": name, "agg": aggname, "case": {"o": c["o"], "f": c["f"]}}))

        for name, e in c["det"].items():
            run(name, e, impl=c["impl"].get(name))
        # shift lemmas (Metrics!ShiftLemmas, checked by TLC): the same expected value after adding 10^6 to the forecasts / to both series
        K = 1.0e6
        for names, dobs, dfc, what in ((c.get("shiftF", []), 0.0, K, "fcst + 1e6"), (c.get("shiftBoth", []), K, K, "obs + 1e6, fcst + 1e6")):
            for name in names:
                want = expr.ev(c["det"][name])
                try:
                    with quiet():
                        got = verif.metric.get(name).compute_from_obs_fcst(obs + dobs, fcst + dfc)
                    n += 1
                    ok = (want == "undef" and (np.isnan(got) or np.isinf(got) or abs(got) < 1e-3)) or expr.agrees(want, got, rtol=1e-6, atol=1e-6)
                    if want == "undef" or (isinstance(want, float) and np.isnan(want)):
                        ok = ok or bool(np.isnan(got)) or abs(got) < 1e-3 or abs(abs(got) - 1) < 1e-6     # 0/0 of the definition: rounding decides
                    if not ok:
                        divs.append(("metric:%s:shifted" % name, False, "%s on obs=%r fcst=%r with %s: expected %r (shift lemma) observed %r"
                                     % (name, c["o"], c["f"], what, want, float(got)),
                                     {"kind": "metric", "metric": name, "shift": what, "case": {"o": c["o"], "f": c["f"]}}))
                except Exception as ex:
                    divs.append((exc_site(ex), False, "%s with %s on obs=%r fcst=%r: %r" % (name, what, c["o"], c["f"], ex),
                                 {"kind": "metric", "metric": name, "case": {"o": c["o"], "f": c["f"]}}))
        # scale lemmas (Metrics!ScaleLemmas, checked by TLC): the same expected value with both series in a unit 10^5 times larger
        for name in c.get("scaleBoth", []):
            want = expr.ev(c["det"][name])
            try:
                with quiet():
                    got = verif.metric.get(name).compute_from_obs_fcst(obs * 1e-5, fcst * 1e-5)
                n += 1
                undefined = want == "undef" or (isinstance(want, float) and np.isnan(want))
                ok = (undefined and bool(np.isnan(got) or np.isinf(got))) or (not undefined and expr.agrees(want, got, rtol=1e-6, atol=1e-6))
                if not ok:
                    divs.append(("metric:%s:scaled" % name, False, "%s on obs=%r fcst=%r, both multiplied by 1e-5: expected %r (scale lemma) observed %r"
                                 % (name, c["o"], c["f"], want, float(got)),
                                 {"kind": "metric", "metric": name, "scale": 1e-5, "case": {"o": c["o"], "f": c["f"]}}))
            except Exception as ex:
                divs.append((exc_site(ex), False, "%s on obs=%r fcst=%r, both multiplied by 1e-5: %r" % (name, c["o"], c["f"], ex),
                             {"kind": "metric", "metric": name, "case": {"o": c["o"], "f": c["f"]}}))
        # -m within: percentage of absolute errors in the event of the bin type (thresholds 1, 2)
        valid = ~(np.isnan(obs) | np.isnan(fcst))
        for bt, e in c.get("within", {}).items():
            try:
                import verif.util
                iv = verif.util.get_intervals(bt, [1, 2] if "within" in bt else [1])[0]
                with quiet():
                    got = verif.metric.Within().compute_from_obs_fcst(obs[valid], fcst[valid], iv)
                n += 1
                want = expr.ev(e)
                if not expr.agrees(want, got):
                    divs.append(("metric:within", False, "within -b %s on obs=%r fcst=%r: expected %r observed %r" % (bt, c["o"], c["f"], want, float(got)),
                                 {"kind": "metric", "metric": "within", "bt": bt, "case": {"o": c["o"], "f": c["f"]}, "expected": want, "observed": float(got)}))
            except Exception as ex:
                divs.append((exc_site(ex), False, "within -b %s on obs=%r fcst=%r: %r" % (bt, c["o"], c["f"], ex),
                             {"kind": "metric", "metric": "within", "bt": bt, "case": {"o": c["o"], "f": c["f"]}}))
        for name, per in c["agg"].items():
            for aggname, e in per.items():
                run(name, e, aggname=aggname)
        for name, per in c["quant"].items():
            for k, e in enumerate(per):
                run(name, e, aggname="quantile", q=num(c["qlevels"][k]))
    return n, divs


def _run_universe(ctx, u, limit=None):
    res = tlc.run("MC_Metrics", "MC_Metrics_" + u, tag=ctx.pid + "_" + u, timeout_s=1500)
    ctx.add_tlc("MC_Metrics/" + u, res, {"Universe": u})
    cases = res.emitted
    if limit and len(cases) > limit:
        import random
        cases = random.Random(ctx.seed).sample(cases, limit)
    chunks = [cases[i:i + 50] for i in range(0, len(cases), 50)]
    for n, divs in par.pmap(_check_chunk, chunks, chunk=1):
        ctx.evaluations += n
        for site, known, detail, rep in divs:
            ctx.diverge(site, rep, as_implemented=known, detail=detail)
    ctx.traces += len(cases)
    for c in cases:
        vals = [x for x in c["o"] + c["f"]]
        if len(c["o"]) >= 2 and (len(set(map(str, c["o"]))) < len(c["o"]) or "nan" in vals or 0 in vals):
            ctx.nontriv(str((c["o"], c["f"])))
    if cases:
        c = cases[len(cases) // 2]
        ctx.sample({"obs": c["o"], "fcst": c["f"], "expected": {k: c["det"][k] for k in ("mae", "rmse", "corr", "kendallcorr")}})


def run(ctx):
    ctx.rule = ("case = one obs/fcst vector (length 0..3 over small integers, or length 4 over {0,1,2}, or with missing values) x "
                "22 metrics x 14 aggregators (+4 quantile levels) for the 6 metrics that take one; "
                "non-trivial = vector has ties, zeros or missing values")
    ctx.assumptions = ["values are small integers (exactly representable); numerical accuracy on ill-conditioned data is out of reach",
                       "rmsf is checked with the mean aggregator only"]
    if ctx.tier == "quick":
        _run_universe(ctx, "small", limit=2500)
        _run_universe(ctx, "missing")
    else:
        _run_universe(ctx, "full")
        _run_universe(ctx, "missing")
        _run_universe(ctx, "len4")
        ctx.exhaustive = True


def replay(ctx, rep):
    c = rep["case"]
    import json
    print("replay of metric %s on %s" % (rep.get("metric"), json.dumps(c)))
    import numpy as np
    import verif.metric
    import verif.aggregator
    m = verif.metric.get(rep["metric"])
    if rep.get("agg") == "quantile":
        m.aggregator = verif.aggregator.Quantile(rep["q"])
    elif rep.get("agg"):
        m.aggregator = verif.aggregator.get(rep["agg"])
    got = m.compute_from_obs_fcst(np.array([num(x) for x in c["o"]], float), np.array([num(x) for x in c["f"]], float))
    want = expr.ev(rep["expected_expr"]) if rep.get("expected_expr") else rep.get("expected")
    ok = expr.agrees(want, got)
    print("expected %r observed %r -> %s" % (want, got, "agree" if ok else "DIVERGE"))
    if not ok:
        ctx.diverge("metric:" + rep["metric"], rep, detail="expected %r observed %r" % (want, got))
    return 0 if ok else 1
