----------------------------- MODULE MC_Calendar -----------------------------
(* Every calendar day of a range: lemmas of Calendar.tla checked by TLC, and *)
(* the day's calendar facts emitted for replay into verif.util / verif.axis. *)
EXTENDS Calendar, TLC, Json, Sequences
CONSTANTS FirstYear, LastYear
VARIABLES n, phase
vars == <<n, phase>>

Lo == DaysFromCivil(FirstYear, 1, 1)
Hi == DaysFromCivil(LastYear, 12, 31)
Hours == <<0, 6, 23>>

Facts(d) ==
  LET c == CivilFromDays(d) IN
  [n |-> d, ymd |-> YYYYMMDD(d), y |-> c.y, m |-> c.m, d |-> c.d, wd |-> Weekday(d),
   weekstart |-> WeekStart(d), monthstart |-> MonthStart(d), yearstart |-> YearStart(d),
   doy |-> DayOfLeapYear(d), truedoy |-> DayOfYear(d), hours |-> Hours]

Init == n \in Lo..Hi /\ phase = "day"
Evaluate == phase = "day" /\ phase' = "emitted" /\ n' = n /\ PrintT(ToJson(Facts(n)))
Next == Evaluate
Spec == Init /\ [][Next]_vars

ConversionsInverse ==
  /\ DayFromYYYYMMDD(YYYYMMDD(n)) = n
  /\ LET c == CivilFromDays(n) IN DaysFromCivil(c.y, c.m, c.d) = n /\ c.m \in 1..12 /\ c.d \in 1..DaysInMonth(c.y, c.m)
  /\ ValidYYYYMMDD(YYYYMMDD(n))
BucketContains ==
  /\ YearStart(n) <= n /\ n < NextYear(n) /\ NextYear(n) - YearStart(n) \in {365, 366}
  /\ MonthStart(n) <= n /\ n < NextMonth(n) /\ CivilFromDays(MonthStart(n)).d = 1
  /\ WeekStart(n) <= n /\ n < WeekStart(n) + 7 /\ Weekday(WeekStart(n)) = 0
  /\ YearStart(n) <= MonthStart(n)
Monotone == n < Hi => /\ YYYYMMDD(n) < YYYYMMDD(n + 1)
                      /\ Weekday(n + 1) = (Weekday(n) + 1) % 7
                      /\ (CivilFromDays(n + 1).y = CivilFromDays(n).y => DayOfLeapYear(n) < DayOfLeapYear(n + 1))
DayOfYearEnvelope == /\ (CivilFromDays(n).m = 1 /\ CivilFromDays(n).d = 1 => DayOfLeapYear(n) = 1)
                     /\ DayOfLeapYear(n) \in 1..366 /\ DayOfYear(n) \in 1..366
                     /\ (IsLeap(CivilFromDays(n).y) => DayOfLeapYear(n) = DayOfYear(n))
KnownDays == /\ DaysFromCivil(1970, 1, 1) = 0 /\ Weekday(0) = 3
             /\ DaysFromCivil(2000, 3, 1) = 11017 /\ DaysFromCivil(2012, 2, 29) = 15399
=============================================================================
