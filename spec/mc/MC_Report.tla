------------------------------ MODULE MC_Report ------------------------------
(* C12: (dataset, metric, axis) -> the table that -type text / -type csv must  *)
(* print (with and without -acc), plus the -x threshold table for categorical  *)
(* metrics.  TLC checks the shape lemmas on every case.                        *)
EXTENDS Report, DatasetGen
VARIABLES gen, m, axis, phase
vars == <<gen, m, axis, phase>>

Menu == {"mae", "rmse", "bias", "corr", "ets", "hit", "obs", "fcst", "n", "diff"}
AxisMenu == {"time", "leadtime", "location", "no", "year", "month", "week", "day", "lat", "lon", "elev", "leadtimeday",
             "timeofday", "monthofyear", "dayofmonth", "threshold"}
Ds == DsOfSmall(gen)
Legend == <<"First", "Second one">>
Cfg == [agg |-> "mean", q |-> Zero, bt |-> "above", t |-> R(2), u |-> R(2)]
Ths == <<R(0), R(2), R(3)>>
ThsGiven == <<R(3), R(0), R(2)>>          \* -x threshold: the rows come in the order the thresholds are given, not sorted
DescJ(d) == IF d.kind = "date" THEN [kind |-> "date", y |-> d.y, m |-> d.m, d |-> d.d, H |-> d.H, unixtime |-> d.unixtime]
            ELSE IF d.kind = "location" THEN [kind |-> "location", id |-> d.id, lat |-> d.lat, lon |-> d.lon, elev |-> d.elev]
            ELSE IF d.axis = "threshold" THEN [kind |-> "threshold", center |-> J(d.center)] ELSE [kind |-> "number", value |-> d.value]
TableJ(T) == [k \in DOMAIN T.rows |-> [desc |-> DescJ(T.rows[k].desc), scores |-> T.rows[k].scores]]
Usable(x) == ~EmptySelection(DsOfSmall(x), x.opt)
Emit ==
  LET X == Context(Ds, gen.opt) IN
  PrintT(ToJson([inputs |-> [j \in DOMAIN Ds.inputs |-> InputJson(Ds.inputs[j])], hasClim |-> Ds.hasClim, clim |-> InputJson(Ds.clim), climType |-> Ds.climType,
                 opts |-> OptJson(gen.opt), metric |-> m, axis |-> axis, legend |-> Legend, bt |-> "above", thresholds |-> <<3, 0, 2>>,
                 table |-> IF axis = "threshold" THEN TableJ(ThresholdTable(X, m, "above", ThsGiven, Legend)) ELSE TableJ(ScoreTable(Ds, X, m, axis, Cfg, FALSE, Legend)),
                 multi |-> IF axis # "threshold" /\ m \in {"ets", "hit", "n", "mae"}
                           THEN <<[bt |-> "within", r |-> <<0, 2, 3>>, table |-> TableJ(AveragedTable(Ds, X, m, axis, "within", Ths, Legend))],
                                  [bt |-> "above=", r |-> <<0, 2>>, table |-> TableJ(AveragedTable(Ds, X, m, axis, "above=", <<R(0), R(2)>>, Legend))]>>
                           ELSE <<>>,
                 thr |-> IF axis = "threshold" THEN [bt \in {"below", "below=", "above="} |-> TableJ(ThresholdTable(X, m, bt, ThsGiven, Legend))] ELSE [bt \in {} |-> <<>>],
                 cond |-> IF axis = "no" /\ m \in {"mae", "bias", "rmse"}
                          THEN <<[field |-> "obs", bt |-> "within", r |-> <<0, 2, 3>>, table |-> TableJ(ConditionalTable(X, m, "obs", "within", Ths, Legend))],
                                 [field |-> "fcst", bt |-> "within=", r |-> <<0, 2, 3>>, table |-> TableJ(ConditionalTable(X, m, "fcst", "within=", Ths, Legend))],
                                 [field |-> "obs", bt |-> "above=", r |-> <<0, 2, 3>>, table |-> TableJ(ConditionalTable(X, m, "obs", "above=", Ths, Legend))],
                                 [field |-> "fcst", bt |-> "below", r |-> <<0, 2, 3>>, table |-> TableJ(ConditionalTable(X, m, "fcst", "below", Ths, Legend))],
                                 \* bin edges with more significant digits than the scores are printed with: the row label is the edge, not a rounded edge
                                 [field |-> "obs", bt |-> "above", r |-> <<"0.5", "2.2501", "3">>, table |-> TableJ(ConditionalTable(X, m, "obs", "above", <<Frac(1, 2), Frac(22501, 10000), R(3)>>, Legend))]>>
                          ELSE <<>>,
                 acc |-> IF axis = "threshold" THEN <<>> ELSE TableJ(ScoreTable(Ds, X, m, axis, Cfg, TRUE, Legend))]))
Init == /\ gen \in {x \in Universe(0) : Usable(x)} /\ m \in Menu /\ axis \in AxisMenu /\ phase = "case"
        /\ (axis = "threshold" => m \in {"ets", "hit", "n"})
Evaluate == phase = "case" /\ phase' = "emitted" /\ UNCHANGED <<gen, m, axis>> /\ Emit
Next == Evaluate
Spec == Init /\ [][Next]_vars
InvShape == axis = "threshold" \/ TableShape(Ds, Context(Ds, gen.opt), m, axis, Cfg, FALSE, Legend)
InvCondDisjoint == LET X == Context(Ds, gen.opt) IN \A i \in 1..X.n : CondRowsDisjoint(X, i, "obs", Ths) /\ CondRowsDisjoint(X, i, "fcst", Ths)
InvAcc == axis = "threshold" \/ AccIsPrefixSum(Ds, Context(Ds, gen.opt), m, axis, Cfg, Legend)
=============================================================================
