-------------------------------- MODULE Rat --------------------------------
(* Exact rational arithmetic for the verif specifications.                   *)
(* A value is a pair <<n, d>>: d > 0 and gcd(|n|, d) = 1 for a rational;     *)
(* d = 0 for the three non-numbers: NaN = <<0,0>> (missing / undefined),     *)
(* PInf = <<1,0>>, MInf = <<-1,0>>.  Every value is a pair of integers, so   *)
(* TLC never has to compare values of different kinds.                       *)
EXTENDS Integers, Sequences, FiniteSets

Abs(x) == IF x < 0 THEN -x ELSE x
Sign(x) == IF x < 0 THEN -1 ELSE IF x > 0 THEN 1 ELSE 0

RECURSIVE Gcd(_, _)
Gcd(a, b) == IF b = 0 THEN a ELSE Gcd(b, a % b)

NaN  == <<0, 0>>
PInf == <<1, 0>>
MInf == <<-1, 0>>
Zero == <<0, 1>>
One  == <<1, 1>>

IsNaN(x)    == x[2] = 0 /\ x[1] = 0
IsInf(x)    == x[2] = 0 /\ x[1] # 0
IsFinite(x) == x[2] # 0

\* exact division that rounds toward zero is never needed: g always divides both
Frac(n, d) ==
  IF d = 0 THEN <<Sign(n), 0>>
  ELSE LET g == Gcd(Abs(n), Abs(d))
           s == IF d < 0 THEN -1 ELSE 1
       IN  <<(s * n) \div g, (s * d) \div g>>

R(n) == <<n, 1>>
Num(x) == x[1]
Den(x) == x[2]

\* IEEE-like extension: anything with NaN is NaN; inf - inf and 0 * inf are NaN
Neg(x) == <<-x[1], x[2]>>
Add(x, y) ==
  IF IsNaN(x) \/ IsNaN(y) THEN NaN
  ELSE IF IsInf(x) /\ IsInf(y) THEN (IF x = y THEN x ELSE NaN)
  ELSE IF IsInf(x) THEN x
  ELSE IF IsInf(y) THEN y
  ELSE Frac(x[1] * y[2] + y[1] * x[2], x[2] * y[2])
Sub(x, y) == Add(x, Neg(y))
Mul(x, y) ==
  IF IsNaN(x) \/ IsNaN(y) THEN NaN
  ELSE IF IsInf(x) \/ IsInf(y) THEN <<Sign(x[1]) * Sign(y[1]), 0>>
  ELSE Frac(x[1] * y[1], x[2] * y[2])
Inv(x) ==
  IF IsNaN(x) THEN NaN
  ELSE IF IsInf(x) THEN Zero
  ELSE IF x[1] = 0 THEN PInf            \* 1/0 = +inf (numpy), sign of zero ignored
  ELSE Frac(x[2], x[1])
\* numpy division: 0/0 = NaN, x/0 = sign(x) inf
Div(x, y) ==
  IF IsNaN(x) \/ IsNaN(y) THEN NaN
  ELSE IF IsFinite(y) /\ y[1] = 0
       THEN (IF IsFinite(x) /\ x[1] = 0 THEN NaN ELSE <<Sign(x[1]), 0>>)
  ELSE IF IsInf(x) /\ IsInf(y) THEN NaN
  ELSE Mul(x, Inv(y))

\* order on finite values and infinities; NaN compares false with everything
Cmp(x, y) ==     \* -1, 0, 1 for non-NaN arguments
  IF IsInf(x) \/ IsInf(y)
  THEN (LET a == IF IsInf(x) THEN 2 * x[1] ELSE 0
            b == IF IsInf(y) THEN 2 * y[1] ELSE 0 IN Sign(a - b))
  ELSE Sign(x[1] * y[2] - y[1] * x[2])
Lt(x, y) == ~IsNaN(x) /\ ~IsNaN(y) /\ Cmp(x, y) < 0
Le(x, y) == ~IsNaN(x) /\ ~IsNaN(y) /\ Cmp(x, y) <= 0
Gt(x, y) == Lt(y, x)
Ge(x, y) == Le(y, x)
AbsR(x) == <<Abs(x[1]), x[2]>>
MinR(x, y) == IF Le(x, y) THEN x ELSE y
MaxR(x, y) == IF Le(x, y) THEN y ELSE x

RECURSIVE SumSeq(_)
SumSeq(s) == IF s = <<>> THEN Zero ELSE Add(Head(s), SumSeq(Tail(s)))
RECURSIVE SumInts(_)
SumInts(s) == IF s = <<>> THEN 0 ELSE Head(s) + SumInts(Tail(s))
MeanSeq(s) == IF s = <<>> THEN NaN ELSE Div(SumSeq(s), R(Len(s)))
Sq(x) == Mul(x, x)

\* sequence helpers used everywhere
SeqMap(Op(_), s) == [i \in 1..Len(s) |-> Op(s[i])]
Elems(s) == {s[i] : i \in DOMAIN s}
IndexIn(seq, v) == CHOOSE i \in DOMAIN seq : seq[i] = v

\* ascending sequence of a finite set of integers
RECURSIVE SortInts(_)
SortInts(S) == IF S = {} THEN <<>>
               ELSE LET m == CHOOSE x \in S : \A y \in S : x <= y IN <<m>> \o SortInts(S \ {m})
\* stable insertion sort of a sequence of rationals (no NaN)
RECURSIVE SortR(_)
InsertR(x, s) == LET k == Cardinality({i \in DOMAIN s : Le(s[i], x)})
                 IN  SubSeq(s, 1, k) \o <<x>> \o SubSeq(s, k + 1, Len(s))
SortR(s) == IF s = <<>> THEN <<>> ELSE InsertR(Head(s), SortR(Tail(s)))
=============================================================================
