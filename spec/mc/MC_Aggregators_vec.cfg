SPECIFICATION Spec
CONSTANT Kind = "vec"
INVARIANT InvOrder
INVARIANT InvWindow
CHECK_DEADLOCK FALSE
