SPECIFICATION Spec
CONSTANTS Kind = "ens"
          Size = "full"
INVARIANT InvDecomposition
INVARIANT InvComplement
INVARIANT InvRange
INVARIANT InvBins
INVARIANT InvEventComplement
INVARIANT InvEnsMonotone
INVARIANT InvPitCounts
CHECK_DEADLOCK FALSE
