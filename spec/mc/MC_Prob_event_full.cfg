SPECIFICATION Spec
CONSTANTS Kind = "event"
          Size = "full"
INVARIANT InvDecomposition
INVARIANT InvComplement
INVARIANT InvRange
INVARIANT InvBins
INVARIANT InvEventComplement
INVARIANT InvEnsMonotone
INVARIANT InvPitCounts
CHECK_DEADLOCK FALSE
