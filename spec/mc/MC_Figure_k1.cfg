SPECIFICATION Spec
CONSTANT K = 1
INVARIANT InvIndependent
INVARIANT InvDisjoint
CHECK_DEADLOCK FALSE
