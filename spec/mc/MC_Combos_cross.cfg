SPECIFICATION Spec
CONSTANT Part = "cross"
INVARIANT InvPrediction
INVARIANT InvCounts
CHECK_DEADLOCK FALSE
