SPECIFICATION Spec
CONSTANTS MaxN = 8
          Kind = "table"
INVARIANT InvCountsSum
INVARIANT InvSwapTable
INVARIANT InvComplementTable
INVARIANT InvSwap
INVARIANT InvCompl
INVARIANT InvPerfect
INVARIANT InvBounds
CHECK_DEADLOCK FALSE
