SPECIFICATION Spec
CONSTANT Family = "C15Ens"
INVARIANT InvSameCases
INVARIANT InvDims
INVARIANT InvPartition
INVARIANT InvNonInterference
CHECK_DEADLOCK FALSE
