----------------------------- MODULE Aggregators -----------------------------
(* C15: the -agg / -Tagg statistics of a sequence of values, and the trailing *)
(* windows of -T.  Values are exact rationals; std is an Expr (square root).  *)
(* Any missing value makes every statistic but `count` missing.               *)
EXTENDS Expr

AggNames == {"mean", "median", "min", "max", "std", "variance", "iqr", "range", "count", "sum",
             "meanabs", "absmean", "change", "abschange"}

HasNaN(s) == \E i \in DOMAIN s : IsNaN(s[i])
RECURSIVE MinSeq(_)
MinSeq(s) == IF Len(s) = 1 THEN s[1] ELSE MinR(s[1], MinSeq(Tail(s)))
RECURSIVE MaxSeq(_)
MaxSeq(s) == IF Len(s) = 1 THEN s[1] ELSE MaxR(s[1], MaxSeq(Tail(s)))
VarSeq(s) == LET m == MeanSeq(s) IN MeanSeq([i \in DOMAIN s |-> Sq(Sub(s[i], m))])     \* population variance
FloorR(x) == x[1] \div x[2]
\* percentile by linear interpolation between the order statistics at position (n-1)p
Percentile(s, p) ==
  LET t == SortR(s)  n == Len(s)
      pos == Mul(R(n - 1), p)
      lo == FloorR(pos)
      fr == Sub(pos, R(lo))
  IN  IF lo + 2 <= n THEN Add(t[lo + 1], Mul(fr, Sub(t[lo + 2], t[lo + 1]))) ELSE t[lo + 1]
Median(s) == Percentile(s, Frac(1, 2))

\* name \in AggNames, or "quantile" with level q; s non-empty
Agg(name, q, s) ==
  IF name = "count" THEN Q(R(Cardinality({i \in DOMAIN s : ~IsNaN(s[i])})))
  ELSE IF s = <<>> \/ HasNaN(s) THEN NaNE
  ELSE CASE name = "mean"      -> Q(MeanSeq(s))
         [] name = "median"    -> Q(Median(s))
         [] name = "min"       -> Q(MinSeq(s))
         [] name = "max"       -> Q(MaxSeq(s))
         [] name = "std"       -> SqrtE(Q(VarSeq(s)))
         [] name = "variance"  -> Q(VarSeq(s))
         [] name = "iqr"       -> Q(Sub(Percentile(s, Frac(3, 4)), Percentile(s, Frac(1, 4))))
         [] name = "range"     -> Q(Sub(MaxSeq(s), MinSeq(s)))
         [] name = "sum"       -> Q(SumSeq(s))
         [] name = "meanabs"   -> Q(MeanSeq([i \in DOMAIN s |-> AbsR(s[i])]))
         [] name = "absmean"   -> Q(AbsR(MeanSeq(s)))
         [] name = "change"    -> Q(Sub(s[Len(s)], s[1]))
         [] name = "abschange" -> Q(AbsR(Sub(s[Len(s)], s[1])))
         [] name = "quantile"  -> Q(Percentile(s, q))
\* rational-valued aggregates (everything but std), for use inside other formulas
AggR(name, q, s) == LET e == Agg(name, q, s) IN IF IsQ(e) THEN e.v ELSE NaN
AggIsZero(name, q, s) == IF name = "std" THEN (~HasNaN(s) /\ s # <<>> /\ VarSeq(s) = Zero) ELSE AggR(name, q, s) = Zero

\* ---- order relations (lemmas checked by TLC) ----
OrderLemmas(s) ==
  (s # <<>> /\ ~HasNaN(s)) =>
     /\ Le(MinSeq(s), Median(s)) /\ Le(Median(s), MaxSeq(s))
     /\ Le(MinSeq(s), MeanSeq(s)) /\ Le(MeanSeq(s), MaxSeq(s))
     /\ AggR("range", Zero, s) = Sub(MaxSeq(s), MinSeq(s)) /\ Ge(AggR("range", Zero, s), Zero)
     /\ Ge(AggR("iqr", Zero, s), Zero) /\ Le(AggR("iqr", Zero, s), AggR("range", Zero, s))
     /\ Ge(VarSeq(s), Zero)
     /\ Percentile(s, Zero) = MinSeq(s) /\ Percentile(s, One) = MaxSeq(s)
     /\ Le(AggR("absmean", Zero, s), AggR("meanabs", Zero, s))
     /\ AggR("abschange", Zero, s) = AbsR(AggR("change", Zero, s))

---------------------------------------------------------------------------
(* -T: trailing windows on the input's own grid.  Window(grid, k, h) are the positions j <= k with
   grid[j] in (grid[k] - h, grid[k]] *)
Window(grid, k, h) == {j \in 1..k : Gt(grid[j], Sub(grid[k], h))}
WindowSeq(grid, k, h) == SortInts(Window(grid, k, h))
PreAgg(series, grid, h, name, q) == [k \in DOMAIN series |-> Agg(name, q, [m \in DOMAIN WindowSeq(grid, k, h) |-> series[WindowSeq(grid, k, h)[m]]])]
WindowLemmas(grid, h) ==
  \A k \in DOMAIN grid :
     /\ k \in Window(grid, k, h) \/ ~Gt(h, Zero)
     /\ \A j \in Window(grid, k, h) : \A m \in j..k : m \in Window(grid, k, h)       \* contiguous suffix of the prefix (increasing grid)
=============================================================================
