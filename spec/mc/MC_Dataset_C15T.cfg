SPECIFICATION Spec
CONSTANT Family = "C15T"
INVARIANT InvSameCases
INVARIANT InvSameObsT
INVARIANT InvDims
INVARIANT InvPartition
INVARIANT InvNonInterference
CHECK_DEADLOCK FALSE
