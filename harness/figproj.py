"""Projection of a matplotlib figure (pi_figure) into the abstract properties of Figure.tla."""
import math
import struct


def png_size(path):
    with open(path, "rb") as f:
        head = f.read(24)
    if head[:8] != b"\x89PNG\r\n\x1a\n":
        return None
    return struct.unpack(">II", head[16:24])


def file_format(path):
    with open(path, "rb") as f:
        head = f.read(8)
    if head[:8] == b"\x89PNG\r\n\x1a\n":
        return "png"
    if head[:4] == b"%PDF":
        return "pdf"
    if head[:2] == b"\xff\xd8":
        return "jpg"
    if head[:5] in (b"<?xml", b"<svg "):
        return "svg"
    if head[:4] == b"%!PS":
        return "eps"
    return "unknown"


def _nums(s):
    return [float(x) for x in str(s).split(",")]


def _rgba(c):
    import matplotlib.colors as mc
    try:
        return tuple(round(v, 3) for v in mc.to_rgba(c))
    except ValueError:
        return ("bad", str(c))


def series_lines(ax, names):
    """the Line2D objects of the input series (by legend label), in order of `names`"""
    out = []
    for nm in names:
        found = [l for l in ax.get_lines() if l.get_label() == nm]
        out.append(found[0] if found else None)
    return out


def project(fig, path, names, all_axes=False):
    """-> dict property -> value (floats / strings / tuples); per-axes properties are taken from the main axes, or, with
    all_axes, required to agree on all axes (else the value is the tuple of the differing readings)"""
    import matplotlib.legend as ml
    axes = fig.axes if all_axes else fig.axes[:1]
    P = {}

    def per_axes(fn):
        vals = []
        for ax in axes:
            try:
                vals.append(fn(ax))
            except Exception as e:
                vals.append("error:%s" % type(e).__name__)
        first = vals[0]
        return first if all(v == first for v in vals) else ("differs", tuple(vals))
    ax0 = fig.axes[0]
    P["title"] = ax0.get_title()
    P["xlabel"] = per_axes(lambda ax: ax.get_xlabel()) if not all_axes else ax0.get_xlabel()
    P["ylabel"] = ax0.get_ylabel()
    P["xlim"] = per_axes(lambda ax: tuple(round(float(v), 6) for v in ax.get_xlim()))
    P["ylim"] = per_axes(lambda ax: tuple(round(float(v), 6) for v in ax.get_ylim()))
    P["xscale_all"] = per_axes(lambda ax: ax.get_xscale())
    P["xticks"] = tuple(round(float(v), 6) for v in ax0.get_xticks())
    P["yticks"] = tuple(round(float(v), 6) for v in ax0.get_yticks())
    P["xticklabels"] = tuple(t.get_text() for t in ax0.get_xticklabels())
    P["yticklabels"] = tuple(t.get_text() for t in ax0.get_yticklabels())
    P["xrot"] = per_axes(lambda ax: round(float(ax.get_xticklabels()[0].get_rotation()), 3) if ax.get_xticklabels() else None)
    P["yrot"] = per_axes(lambda ax: round(float(ax.get_yticklabels()[0].get_rotation()), 3) if ax.get_yticklabels() else None)
    P["xscale"] = ax0.get_xscale()
    P["yscale"] = ax0.get_yscale()
    leg = ax0.get_legend()
    if leg is None:
        P["legend"], P["legfs"], P["legloc"] = None, "hidden", None
    else:
        texts = [t.get_text() for t in leg.get_texts()]
        P["legend"] = tuple(texts)
        P["legfs"] = round(float(leg.get_texts()[0].get_fontsize()), 3) if texts else None
        inv = {v: k for k, v in ml.Legend.codes.items()}
        P["legloc"] = inv.get(leg._loc, str(leg._loc))
    lines = series_lines(ax0, names)
    if all(l is not None for l in lines) and lines:
        P["colors"] = tuple(_rgba(l.get_color()) for l in lines)
        P["linestyles"] = tuple(l.get_linestyle() for l in lines)
        P["linewidths"] = tuple(round(float(l.get_linewidth()), 3) for l in lines)
        P["markers"] = tuple(str(l.get_marker()) for l in lines)
        P["markersizes"] = tuple(round(float(l.get_markersize()), 3) for l in lines)
    else:
        for k in ("colors", "linestyles", "linewidths", "markers", "markersizes"):
            P[k] = None
    P["labfs"] = per_axes(lambda ax: (round(float(ax.xaxis.label.get_fontsize()), 3), round(float(ax.yaxis.label.get_fontsize()), 3)))
    P["tickfs"] = per_axes(lambda ax: round(float(ax.get_xticklabels()[0].get_fontsize()), 3) if ax.get_xticklabels() else None)
    P["titlefs"] = round(float(ax0.title.get_fontsize()), 3)

    def grid_of(ax):
        gl = ax.xaxis.get_gridlines()
        if not gl:
            return ("none",)
        g = gl[0]
        return (bool(g.get_visible()), _rgba(g.get_color()), g.get_linestyle(), round(float(g.get_linewidth()), 3))
    g = grid_of(ax0)
    P["grid"] = "on" if g[0] is True else "off"
    P["gridcolor"] = g[1] if len(g) > 1 else None
    P["gridstyle"] = g[2] if len(g) > 1 else None
    P["gridwidth"] = g[3] if len(g) > 1 else None
    # shown = drawn AND inside the picture (the y-range of the axes covers it)
    ylo, yhi = sorted(ax0.get_ylim())
    eps = 1e-9 * max(1.0, abs(ylo), abs(yhi))
    ideal = [l for l in ax0.get_lines() if l.get_label() == "ideal"]
    P["perfectline"] = "absent" if not ideal else ("shown" if all(ylo - eps <= float(v) <= yhi + eps for l in ideal for v in l.get_ydata()) else "outside-the-axes")
    asp = ax0.get_aspect()
    P["aspect"] = asp if isinstance(asp, str) else round(float(asp), 6)
    P["figsize"] = tuple(round(float(v), 3) for v in fig.get_size_inches())
    sp = fig.subplotpars
    P["left"], P["right"], P["top"], P["bottom"] = round(sp.left, 4), round(sp.right, 4), round(sp.top, 4), round(sp.bottom, 4)
    P["margins"] = "none" if (sp.left, sp.right, sp.bottom, sp.top) == (0, 1, 0, 1) else "default"
    P["annotations"] = "shown" if len(ax0.texts) > 0 else "absent"
    P["afs"] = round(float(ax0.texts[0].get_fontsize()), 3) if ax0.texts else None
    nums = [len(t.get_text().split()) for t in ax0.texts]
    P["annotationfields"] = (nums[0] if nums and all(n == nums[0] for n in nums) else (tuple(nums) if nums else None))
    # with two fields: which comes first -- the key (the point's x value) or the score (its y value)?
    if P["annotationfields"] == 2:
        def near(tok, v):
            try:
                return abs(float(tok) - v) <= 1e-3 * max(1.0, abs(v))
            except ValueError:
                return False
        orders = set()
        for t in ax0.texts:
            a, b = t.get_text().split()
            x, y = t.get_position()
            ks, sk = near(a, x) and near(b, y), near(a, y) and near(b, x)
            orders.add("key,score" if ks and not sk else ("score,key" if sk and not ks else ("either" if ks and sk else "?")))
        orders.discard("either")
        P["annotationfields"] = "2:" + (orders.pop() if len(orders) == 1 else ("either" if not orders else "?"))
    labels = [l.get_label() for l in ax0.get_lines()]
    P["obsleg"] = tuple(lb for lb in labels if not lb.startswith("_") and lb not in names and lb != "ideal")
    # colour scale (map view): label of the colour bars, limits of the coloured point sets
    cbars = [ax for ax in fig.axes if ax.get_label() == "<colorbar>"]
    labs = [ax.get_ylabel() for ax in cbars]
    P["clabel"] = None if not labs else (labs[0] if all(x == labs[0] for x in labs) else ("differs", tuple(labs)))
    clims = [tuple(round(float(v), 6) for v in col.get_clim()) for ax in fig.axes if ax.get_label() != "<colorbar>"
             for col in ax.collections if col.get_array() is not None]
    P["clim"] = None if not clims else (clims[0] if all(x == clims[0] for x in clims) else ("differs", tuple(clims)))
    cmaps = [col.get_cmap().name for ax in fig.axes if ax.get_label() != "<colorbar>" for col in ax.collections if col.get_array() is not None]
    P["cmap"] = None if not cmaps else (cmaps[0] if all(x == cmaps[0] for x in cmaps) else ("differs", tuple(cmaps)))
    P["format"] = file_format(path)
    P["pixels"] = png_size(path)
    P["dpi"] = getattr(fig, "_verif_saved_dpi", None)
    # cropped to the tight bounding box, or the whole figure (figsize x dpi pixels, where explicit margins mean what they say)
    dpi = P["dpi"] or fig.dpi
    w, h = fig.get_size_inches()
    px = P["pixels"]
    P["crop"] = None if px is None else ("full" if abs(px[0] - w * dpi) <= 1 and abs(px[1] - h * dpi) <= 1 else "tight")
    return P


LS = {"--": "--", ":": ":", "-.": "-.", "-": "-"}


def owned_ok(prop, expected, P, P0):
    """does the projected figure P carry the value the option must give to `prop`? returns None or a message"""
    got = P.get(prop)
    try:
        if prop in ("title", "xlabel", "ylabel", "xscale", "yscale", "perfectline", "annotations", "margins", "grid", "crop", "clabel", "cmap"):
            return None if got == expected else "%s: expected %r, figure has %r" % (prop, expected, got)
        if prop in ("xlim", "ylim", "clim"):
            e = tuple(_nums(expected))
            if got is not None and len(got) == 2 and got[0] == "differs":
                return "%s: expected %r on every sub-axes, the sub-axes have %r" % (prop, e, got[1])
            return None if got is not None and all(abs(a - b) < 1e-6 for a, b in zip(got, e)) else "%s: expected %r, figure has %r" % (prop, e, got)
        if prop in ("xticks", "yticks"):
            e = tuple(_nums(expected))
            return None if got is not None and len(got) == len(e) and all(abs(a - b) < 1e-6 for a, b in zip(got, e)) else "%s: expected %r, figure has %r" % (prop, e, got)
        if prop in ("xrot", "yrot", "tickfs", "titlefs", "afs", "gridwidth"):
            return None if got is not None and not isinstance(got, tuple) and abs(float(got) - float(expected)) < 1e-6 else "%s: expected %r, figure has %r" % (prop, float(expected), got)
        if prop == "labfs":
            e = float(expected)
            return None if got == (e, e) else "labfs: expected both axis labels at %r, figure has %r" % (e, got)
        if prop == "legend":
            e = tuple(expected.split("|"))
            return None if got is not None and tuple(got[:len(e)]) == e else "legend: expected entries %r, figure has %r" % (e, got)
        if prop == "legfs":
            if expected == "hidden":
                return None if got == "hidden" else "legfs 0: expected no legend, figure has one (font size %r)" % (got,)
            return None if got not in (None, "hidden") and abs(float(got) - float(expected)) < 1e-6 else "legfs: expected %r, figure has %r" % (expected, got)
        if prop == "legloc":
            return None if got == expected else "legloc: expected %r, figure has %r" % (expected, got)
        if prop == "colors":
            e = tuple(_rgba(c) for c in expected.split("|"))
            return None if got == e else "colors: expected %r, series have %r" % (e, got)
        if prop == "linestyles":
            e = tuple(expected.split("|"))
            return None if got == e else "linestyles: expected %r, series have %r" % (e, got)
        if prop in ("linewidths", "markersizes"):
            e = tuple(float(v) for v in expected.split("|"))
            return None if got is not None and all(abs(a - b) < 1e-6 for a, b in zip(got, e)) else "%s: expected %r, series have %r" % (prop, e, got)
        if prop == "markers":
            e = tuple(expected.split("|"))
            return None if got == e else "markers: expected %r, series have %r" % (e, got)
        if prop == "gridcolor":
            return None if got == _rgba(expected) else "gridcolor: expected %r, grid lines have %r" % (_rgba(expected), got)
        if prop == "gridstyle":
            return None if got == expected else "gridstyle: expected %r, grid lines have %r" % (expected, got)
        if prop == "aspect":
            return None if got not in (None, "auto") and abs(float(got) - float(expected)) < 1e-6 else "aspect: expected %r, axes have %r" % (expected, got)
        if prop == "figsize":
            e = tuple(_nums(expected))
            return None if got is not None and all(abs(a - b) < 1e-6 for a, b in zip(got, e)) else "figsize: expected %r inches, figure has %r" % (e, got)
        if prop == "dpi":
            return None if got is not None and abs(float(got) - float(expected)) < 1e-9 else "dpi: image written at %r dpi, expected %r" % (got, expected)
        if prop in ("xticklabels", "yticklabels"):
            e = tuple(expected.split("|"))
            return None if got == e else "%s: expected %r, axis shows %r" % (prop, e, got)
        if prop == "annotationfields":
            if ":" in str(expected):      # "2:key,score": two numbers per annotation, in the order the fields were given
                return None if got in (expected, "2:either") else "-af: expected the fields %s in that order, annotations read %r" % (expected, got)
            return None if got == int(expected) else "-af: expected %s numbers per annotation, annotations have %r" % (expected, got)
        if prop == "obsleg":
            return None if got is not None and expected in got else "-obsleg: expected an observation series labelled %r, labels are %r" % (expected, got)
        if prop in ("left", "right", "top", "bottom"):
            return None if got is not None and abs(float(got) - float(expected)) < 1e-6 else "%s: expected %r, subplot parameters have %r" % (prop, expected, got)
    except (ValueError, TypeError) as e:
        return "%s: cannot compare %r with %r (%r)" % (prop, expected, got, e)
    return "no comparator for %s" % prop


def same(a, b):
    if isinstance(a, float) and isinstance(b, float):
        return abs(a - b) < 1e-6
    return a == b
