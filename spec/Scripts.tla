------------------------------ MODULE Scripts ------------------------------
(* C20: the helper scripts as file-to-file transformers, from their help text *)
(* and the property statement.  Arrays are functions over <<i, j, k>> (time,   *)
(* lead time, location positions); values are Rat (NaN = missing).            *)
EXTENDS Aggregators

\* ---- accumulate: trailing sums over a number of STEPS along lead time or time ----
\* w = 0 : cumulative from the start of the series.  Incomplete windows are missing.  A missing term makes the sum
\* missing, unless -i (ignore) which counts it as 0.
Term(v, ignore) == IF ignore /\ IsNaN(v) THEN Zero ELSE v
RECURSIVE SumRange(_, _, _, _)
SumRange(s, a, b, ignore) == IF a > b THEN Zero ELSE Add(Term(s[a], ignore), SumRange(s, a + 1, b, ignore))
AccumulateSeries(s, w, ignore) ==
  [k \in DOMAIN s |-> IF w = 0 THEN SumRange(s, 1, k, ignore)
                      ELSE IF w = 1 THEN s[k]
                      ELSE IF k < w THEN NaN ELSE SumRange(s, k - w + 1, k, ignore)]
Accumulate(C, nt, nl, ns, w, axis, ignore) ==
  [p \in DOMAIN C |->
     IF axis = "leadtime" THEN AccumulateSeries([j \in 1..nl |-> C[<<p[1], j, p[3]>>]], w, ignore)[p[2]]
     ELSE AccumulateSeries([i \in 1..nt |-> C[<<i, p[2], p[3]>>]], w, ignore)[p[1]]]
\* ties C20 to C15: on a unit-spaced grid a complete window of w steps is the -T window of length w with -Tagg sum
AccumulateIsPreAggSum(s, w) ==
  (w >= 2 /\ ~HasNaN(s)) =>
     LET grid == [k \in DOMAIN s |-> R(k)]
         pre == PreAgg(s, grid, R(w), "sum", Zero)
         acc == AccumulateSeries(s, w, FALSE)
     IN  \A k \in DOMAIN s : k >= w => pre[k].v = acc[k]

\* ---- ens2prob ----
Mem(ens) == SelectSeq(ens, LAMBDA m : ~IsNaN(m))
FracBelow(ens, t)   == IF Mem(ens) = <<>> THEN NaN ELSE Frac(Cardinality({k \in DOMAIN Mem(ens) : Lt(Mem(ens)[k], t)}), Len(Mem(ens)))
FracAtOrBelow(ens, t) == IF Mem(ens) = <<>> THEN NaN ELSE Frac(Cardinality({k \in DOMAIN Mem(ens) : Le(Mem(ens)[k], t)}), Len(Mem(ens)))
\* the written cumulative probability must lie between the two (strictness is not documented), hence in [0,1] and
\* non-decreasing in the threshold
CdfOk(ens, t, c) == IF Mem(ens) = <<>> THEN IsNaN(c) ELSE Ge(c, FracBelow(ens, t)) /\ Le(c, FracAtOrBelow(ens, t))
\* PIT: fraction of members below the observation; missing where the observation is missing
Pit(ens, o) == IF IsNaN(o) THEN NaN ELSE Frac(Cardinality({k \in DOMAIN ens : Lt(ens[k], o)}), Len(ens))
CdfMonotone(ens, ts) == \A a, b \in DOMAIN ts : Le(ts[a], ts[b]) => (Mem(ens) = <<>> \/ Le(FracAtOrBelow(ens, ts[a]), FracAtOrBelow(ens, ts[b])))

\* ---- window: from every lead time on, for how long the value accumulated from there stays in the event (a dry spell: -b below= -r 0) ----
\* one threshold, hence the four one-sided bin types; a missing start has no window; an accumulation through a missing value is in no event
WindowTypes == {"below", "below=", "above", "above="}
WinIn(bt, x, t) == ~IsNaN(x) /\ (CASE bt = "below" -> Lt(x, t) [] bt = "below=" -> Le(x, t) [] bt = "above" -> Gt(x, t) [] OTHER -> Ge(x, t))
\* as the script counts it: the number q of lead times from o on at which the accumulation is in the event; the window reaches q steps ahead
\* (to the last lead time at most) and is reported as a difference of lead times
WinCount(s, o, bt, t) == Cardinality({k \in o..Len(s) : WinIn(bt, SumRange(s, o, k, FALSE), t)})
WindowSeries(s, leads, bt, t) ==
  [o \in DOMAIN s |-> IF IsNaN(s[o]) THEN NaN
                      ELSE LET e == IF o + WinCount(s, o, bt, t) > Len(s) THEN Len(s) ELSE o + WinCount(s, o, bt, t)
                           IN  R(leads[e] - leads[o])]
WindowScript(C, nt, nl, ns, leads, bt, t) ==
  [p \in DOMAIN C |-> WindowSeries([j \in 1..nl |-> C[<<p[1], j, p[3]>>]], leads, bt, t)[p[2]]]
\* the documented reading ("the length of time that a parameter is below a threshold"): for amounts that cannot be negative and the
\* below types the counted lead times are consecutive, so the window ends at the first lead time at which the accumulation has left the
\* event (or at the last lead time); a window is never negative and never longer than the rest of the series
WindowIsSpell(s, bt, t) ==
  ((\A k \in DOMAIN s : IsNaN(s[k]) \/ Ge(s[k], Zero)) /\ bt \in {"below", "below="}) =>
     \A o \in DOMAIN s : ~IsNaN(s[o]) =>
        LET q == WinCount(s, o, bt, t) IN
        /\ \A k \in o..(o + q - 1) : WinIn(bt, SumRange(s, o, k, FALSE), t)
        /\ (o + q <= Len(s) => ~WinIn(bt, SumRange(s, o, o + q, FALSE), t))
WindowBounded(s, leads, bt, t) ==
  \A o \in DOMAIN s : LET w == WindowSeries(s, leads, bt, t)[o] IN IsNaN(w) \/ (Ge(w, Zero) /\ Le(w, R(leads[Len(s)] - leads[o])))

\* ---- expandverif: observations re-arranged by valid time ----
\* output times: every day on which the input has an initialisation time, at each requested hour
ExpandTimes(times, hours) == SortInts({(t \div 86400) * 86400 + h * 3600 : t \in Elems(times), h \in Elems(hours)})
\* the observation valid at unix time v at location position k (the same whichever (time, lead) pair reports it)
\* lead times are whole multiples of a unit of u seconds (3600: hours; 1800: half hours - lead times of 0.5, 1.5 h are legal)
ObsValidAtU(times, leads, C, v, k, u) ==
  LET hits == {<<i, j>> \in (DOMAIN times) \X (DOMAIN leads) : times[i] + leads[j] * u = v}
  IN  IF hits = {} THEN NaN ELSE C[<<(CHOOSE h \in hits : TRUE)[1], (CHOOSE h \in hits : TRUE)[2], k>>]
ExpandVerifU(times, leads, ns, C, hours, oleads, u) ==
  LET ot == ExpandTimes(times, hours) IN
  [p \in {<<i, j, k>> : i \in DOMAIN ot, j \in DOMAIN oleads, k \in 1..ns} |-> ObsValidAtU(times, leads, C, ot[p[1]] + oleads[p[2]] * u, p[3], u)]
\* placed where the valid time matches and nowhere else
ExpandSoundU(times, leads, ns, C, hours, oleads, u) ==
  LET ot == ExpandTimes(times, hours)  E == ExpandVerifU(times, leads, ns, C, hours, oleads, u) IN
  \A p \in DOMAIN E : ~IsNaN(E[p]) => \E i \in DOMAIN times, j \in DOMAIN leads : times[i] + leads[j] * u = ot[p[1]] + oleads[p[2]] * u /\ C[<<i, j, p[3]>>] = E[p]
ObsValidAt(times, leads, C, v, k) == ObsValidAtU(times, leads, C, v, k, 3600)
ExpandVerif(times, leads, ns, C, hours, oleads) == ExpandVerifU(times, leads, ns, C, hours, oleads, 3600)
ExpandSound(times, leads, ns, C, hours, oleads) == ExpandSoundU(times, leads, ns, C, hours, oleads, 3600)
=============================================================================
