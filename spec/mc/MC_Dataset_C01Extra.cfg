SPECIFICATION Spec
CONSTANT Family = "C01Extra"
INVARIANT InvSameCases
INVARIANT InvSameObs
INVARIANT InvDims
INVARIANT InvPartition
INVARIANT InvNonInterference
CHECK_DEADLOCK FALSE
