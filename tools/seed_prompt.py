#!/usr/bin/env python3
"""Print the prompt given to an independent sub-agent that seeds a property-breaking change (nothing from /verif but the property text)."""
import json, sys
pid = sys.argv[1]
wt = sys.argv[2]
hint = sys.argv[3] if len(sys.argv) > 3 else ""
for l in open('/verif/properties.jsonl'):
    p = json.loads(l)
    if p['id'] == pid:
        break
print(f"""You are helping to evaluate a verification framework for the open-source Python tool WFRT/verif (a command-line tool that computes weather-forecast verification scores from text/NetCDF files and plots them).

You have your own scratch git worktree of the repository at {wt} (detached HEAD). Work ONLY inside {wt}. Do not read, list or use anything under /verif, and do not touch /repo. Python is /venv/bin/python (numpy 2.5, netCDF4, matplotlib, scipy, pytest installed). Run things with the worktree first on the path, e.g. `cd {wt} && PYTHONPATH={wt} /venv/bin/python ...` (check `verif.__file__` points into {wt}). There is no network.

Here is a semantic property of verif that should hold:

  id: {p['id']}
  title: {p['title']}
  statement: {p['statement']}
  quantified over: {p['quantifier']['text']}
  relevant files: {', '.join(p['anchors']['files'])}

Your task: write a *realistic* change to the repository's source (the kind of slip a maintainer could make while refactoring, optimising or fixing something else; 1-15 changed lines, in the non-test source files only) that BREAKS this property, while the code still imports and the existing test-suite result does not change. The change must need something specific to manifest — an unusual input, a particular combination of options, a multi-step sequence of calls, or two cooperating sites that each look fine alone — not something ordinary use would expose at once (not "every run crashes", not "every score is wrong").{(' Suggested area (you may choose otherwise): ' + hint) if hint else ''}

Requirements:
1. First record the baseline: `cd {wt} && PYTHONPATH={wt} /venv/bin/python -m pytest -q -p no:cacheprovider --timeout=900 verif/tests 2>&1 | tail -15` (expect 180 passed, 2 failed at HEAD; the 2 failures (test_bsdecomp, test_cond) are pre-existing). After your change the set of passing/failing tests must be exactly the same.
2. Write a demonstration script {wt}/seed_out/demo.py (stand-alone; it creates whatever input files it needs in a temp dir, uses only the public API or `verif.driver.run`/the command line) that exits 0 on the unchanged code and exits non-zero (assertion failure showing the broken property) with your change applied. Verify both directions yourself (use `git diff > /tmp/.../patch; git checkout -- .; ... ; git apply patch` -- do NOT use `git stash`: the stash is shared between all worktrees of the repository and other agents work in sibling worktrees).
3. Save the change as {wt}/seed_out/patch.diff (output of `git diff` from the worktree root, must apply with `git apply` at the root of a clean checkout of the same commit) and leave the worktree's tracked files UNCHANGED at the end (git checkout -- . ; `git status --short` must show only seed_out/).
4. Write {wt}/seed_out/meta.json: {{"property": "{p['id']}", "summary": "<one sentence: what the change does>", "needs": "<what specific input/sequence/option combination it needs to manifest>", "files_changed": [...], "ran": ["<commands you ran to confirm>"], "tests_before": "<pass/fail counts>", "tests_after": "<pass/fail counts>"}}

In demo.py do not assert anything about the path verif is imported from.

Report back briefly: the summary, what it needs to manifest, and confirmation that demo.py passes without and fails with the patch and that the test-suite result is unchanged.""")
