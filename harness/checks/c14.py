"""C14 Anomaly scores use the climatology at the same coordinates. Spec: Dataset.tla Adj (clim subtract/divide on obs and
fcst only, clim part of the fair-comparison propagation, never a scored input); TLC additionally checks the
shift-equivalence theorem (clim as -c  ==  clim as an extra input, for obs-fcst differences)."""
from harness import par
from harness.checks import dscommon

replay = dscommon.replay


def run(ctx):
    ctx.rule = ("case = (1-2 inputs with missing cells, climatology with its own coverage/order/missing cells/zeros, subtract|divide) "
                "x request menu; non-trivial = every case (a climatology is always present)")
    ctx.assumptions = ["observations of different files agree where both are present"]
    if ctx.tier == "quick":
        dscommon.run_family(ctx, "C14", fmt="text", limit=500, always_nontrivial=True)
        dscommon.run_family(ctx, "C14Two", fmt="text", limit=300, always_nontrivial=True)
        # the whole request menu on ONE Data object (whole-array requests before the slices): the climatology is removed exactly once
        dscommon.run_family(ctx, "C14", fmt="text", limit=150, fresh=False, always_nontrivial=True)
        dscommon.run_family(ctx, "C14Two", fmt="text", limit=100, fresh=False, always_nontrivial=True)
    else:
        dscommon.run_family(ctx, "C14", fmt="text", always_nontrivial=True)
        dscommon.run_family(ctx, "C14Two", fmt="text", always_nontrivial=True)
        dscommon.run_family(ctx, "C14", fmt="netcdf", limit=800, always_nontrivial=True)
        dscommon.run_family(ctx, "C01Clim", fmt="text", always_nontrivial=True)
        dscommon.run_family(ctx, "C14", fmt="text", fresh=False, always_nontrivial=True)
        dscommon.run_family(ctx, "C14Two", fmt="text", fresh=False, always_nontrivial=True)
        ctx.exhaustive = True
    par.clean_workdirs()
