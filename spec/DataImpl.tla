------------------------------ MODULE DataImpl ------------------------------
(* IMPLEMENTATION-SHAPED model of verif.data.Data.get_scores: a heap of     *)
(* mutable arrays, the per-input field cache whose arrays are handed out    *)
(* without copying, the request cache, observation sharing by aliasing,     *)
(* in-place propagation of missing values and of -obsrange.  One action per *)
(* public call (the linearisation point of a sequential library is the      *)
(* call's return); the sub-steps Load / ShareObs / Propagate / ObsRange are *)
(* composed inside it and reported in `last.steps` so that hook traces can  *)
(* be bound to them.  The model must refine Dataset.tla:                    *)
(*   HistoryIndependent : what a request returns = Dataset!ExpectedArrays   *)
(*   EarlierUnaltered   : arrays handed out earlier keep their values       *)
(*   CacheGrows         : the request cache only grows, entries never change*)
EXTENDS Dataset, TLC

CONSTANT CopyOnAll     \* TRUE: whole-array requests mask a copy (repaired code); FALSE: they mask the cached array itself

VARIABLES
  ds, opt,     \* the dataset and options this Data object was built from (never change)
  X,           \* Dataset!Context(ds, opt): the abstract semantics, for the refinement invariants
  heap,        \* object id -> array (sequence of values; whole arrays are indexed by row-major cell position)
  fcache,      \* input -> field -> id of the cached array, 0 = not loaded
  rcache,      \* request -> sequence of ids of the arrays it returned
  nid,         \* next free object id
  returned,    \* set of [id, snap]: every array ever handed out, with its value at that time
  last         \* [req, ids, hit, steps] of the most recent call ; req.inp = 0 before the first call
ivars == <<ds, opt, X, heap, fcache, rcache, nid, returned, last>>

A  == AllInputs(ds)
NA == Len(A)
N  == Len(X.cells)
Fields == FieldsOf(ds)
NoReq == [fields |-> <<>>, inp |-> 0, axis |-> "no", idx |-> 0]

RawArr(j, f) == [m \in 1..N |-> At(A[j], f, X.cells[m][1], X.cells[m][2], X.cells[m][3])]

\* ---- sub-steps on a working record S = [heap, fcache, nid, steps] ----
Loaded(S, f) == S.fcache[1][f] # 0              \* a field is loaded for all inputs at once or for none

EnsureLoaded(S, f) ==
  IF Loaded(S, f) THEN S
  ELSE LET owners == IF f = "obs" THEN {j \in 1..NA : A[j].hasObs} ELSE 1..NA
           oseq   == SortInts(owners)
           idOf   == [j \in owners |-> S.nid + IndexIn(oseq, j) - 1]
           newIds == {idOf[j] : j \in owners}
           heap1  == [i \in DOMAIN S.heap \cup newIds |->
                        IF i \in newIds THEN RawArr(CHOOSE j \in owners : idOf[j] = i, f) ELSE S.heap[i]]
           \* ShareObs: an input without observations aliases the array of the first input that has them
           fc1    == [j \in 1..NA |-> [S.fcache[j] EXCEPT ![f] = IF j \in owners THEN idOf[j] ELSE idOf[oseq[1]]]]
           \* Propagate: a cell missing in any input becomes missing in every input's array, in place
           miss   == {m \in 1..N : \E j \in 1..NA : IsNaN(heap1[fc1[j][f]][m])}
           heap2  == [i \in DOMAIN heap1 |->
                        IF i \in newIds THEN [m \in 1..N |-> IF m \in miss THEN NaN ELSE heap1[i][m]] ELSE heap1[i]]
       IN  [heap |-> heap2, fcache |-> fc1, nid |-> S.nid + Len(oseq),
            steps |-> S.steps \o <<[ev |-> "Load", field |-> f, ids |-> [j \in 1..NA |-> fc1[j][f]],
                                    propagated |-> Cardinality({m \in miss : \E j \in 1..NA : ~IsNaN(heap1[fc1[j][f]][m])})]>>]

ObsRangeMask(S, j) ==    \* data.py: temp[temp < lo] = nan ; temp[temp > hi] = nan  on the cached array itself
  IF "obsrange" \notin opt.given THEN S
  ELSE LET id == S.fcache[j]["obs"]
           out(v) == Lt(v, opt.obsrange[1]) \/ Gt(v, opt.obsrange[2])
       IN  [S EXCEPT !.heap[id] = [m \in 1..N |-> IF out(@[m]) THEN NaN ELSE @[m]],
                     !.steps = @ \o <<[ev |-> "ObsRange", input |-> j,
                                       masked |-> Cardinality({m \in 1..N : out(S.heap[id][m])})]>>]

ClimOp(v, c) == IF ds.climType = "subtract" THEN Sub(v, c) ELSE Div(v, c)

\* positions (row-major, ascending = numpy's flatten order) of the cells of a slice
SlicePositions(axis, idx) == SortInts({X.pos[c] : c \in SliceOf(X, axis, idx)})

RECURSIVE LoadAll(_, _, _)
LoadAll(S, fs, j) ==      \* fields in request order: load (+share, propagate), then -obsrange on the observation array
  IF fs = <<>> THEN S
  ELSE LET S1 == EnsureLoaded(S, Head(fs))
           S2 == IF Head(fs) = "obs" THEN ObsRangeMask(S1, j) ELSE S1
       IN  LoadAll(S2, Tail(fs), j)

\* the whole miss path of get_scores; returns [heap, fcache, nid, steps, ids]
Compute(r) ==
  LET doClim == ds.hasClim /\ (\E k \in DOMAIN r.fields : r.fields[k] \in {"obs", "fcst"})
      S0 == [heap |-> heap, fcache |-> fcache, nid |-> nid, steps |-> <<>>]
      S1 == IF doClim THEN EnsureLoaded(S0, "fcst") ELSE S0
      S2 == LoadAll(S1, r.fields, r.inp)
      nf == Len(r.fields)
      srcId(k) == S2.fcache[r.inp][r.fields[k]]
      climArr == IF doClim THEN S2.heap[S2.fcache[NA]["fcst"]] ELSE <<>>
      cur(k, m) == IF doClim THEN ClimOp(S2.heap[srcId(k)][m], climArr[m]) ELSE S2.heap[srcId(k)][m]
      validAt(m) == \A k \in 1..nf : IsFinite(cur(k, m))
  IN
  IF r.axis = "all"
  THEN IF doClim \/ CopyOnAll
       THEN \* fresh arrays (the climatology arithmetic allocates; the repaired code copies)
            LET ids == [k \in 1..nf |-> S2.nid + k - 1]
                new == [k \in 1..nf |-> [m \in 1..N |-> IF validAt(m) THEN cur(k, m) ELSE NaN]]
            IN  [heap |-> [i \in DOMAIN S2.heap \cup {ids[k] : k \in 1..nf} |->
                             IF i \in DOMAIN S2.heap THEN S2.heap[i] ELSE new[i - S2.nid + 1]],
                 fcache |-> S2.fcache, nid |-> S2.nid + nf, steps |-> S2.steps, ids |-> ids, inplace |-> FALSE]
       ELSE \* the cached arrays themselves are handed out, after being masked in place
            LET ids == [k \in 1..nf |-> srcId(k)]
            IN  [heap |-> [i \in DOMAIN S2.heap |->
                             IF \E k \in 1..nf : ids[k] = i
                             THEN [m \in 1..N |-> IF validAt(m) THEN S2.heap[i][m] ELSE NaN] ELSE S2.heap[i]],
                 fcache |-> S2.fcache, nid |-> S2.nid, steps |-> S2.steps, ids |-> ids, inplace |-> TRUE]
  ELSE LET ps   == SlicePositions(r.axis, r.idx)
           keep == SelectSeq(ps, validAt)
           ids  == [k \in 1..nf |-> S2.nid + k - 1]
           new  == [k \in 1..nf |-> IF keep = <<>> THEN <<NaN>> ELSE [q \in DOMAIN keep |-> cur(k, keep[q])]]
       IN  [heap |-> [i \in DOMAIN S2.heap \cup {ids[k] : k \in 1..nf} |->
                        IF i \in DOMAIN S2.heap THEN S2.heap[i] ELSE new[i - S2.nid + 1]],
            fcache |-> S2.fcache, nid |-> S2.nid + nf, steps |-> S2.steps, ids |-> ids, inplace |-> FALSE]

---------------------------------------------------------------------------
InitImpl(D, O) ==
  /\ ds = D /\ opt = O
  /\ X = LET c == Context(D, O) IN [c EXCEPT !.adj = TLCEval(c.adj), !.pos = TLCEval(c.pos), !.cells = TLCEval(c.cells)]
  /\ heap = <<>> /\ nid = 1
  /\ fcache = [j \in 1..Len(AllInputs(D)) |-> [f \in FieldsOf(D) |-> 0]]
  /\ rcache = <<>>
  /\ returned = {}
  /\ last = [req |-> NoReq, ids |-> <<>>, hit |-> FALSE, steps |-> <<>>, inplace |-> FALSE]

Request(r) ==
  /\ UNCHANGED <<ds, opt, X>>
  /\ IF r \in DOMAIN rcache
     THEN /\ last' = [req |-> r, ids |-> rcache[r], hit |-> TRUE, steps |-> <<>>, inplace |-> FALSE]
          /\ UNCHANGED <<heap, fcache, rcache, nid>>
          /\ returned' = returned \cup {[id |-> rcache[r][k], snap |-> heap[rcache[r][k]]] : k \in DOMAIN rcache[r]}
     ELSE LET c == TLCEval(Compute(r)) IN       \* (TLCEval: identity; makes TLC build the new functions now rather than lazily)
          /\ heap' = TLCEval(c.heap) /\ fcache' = TLCEval(c.fcache) /\ nid' = c.nid
          /\ rcache' = TLCEval(rcache @@ (r :> c.ids))
          /\ last' = TLCEval([req |-> r, ids |-> c.ids, hit |-> FALSE, steps |-> c.steps, inplace |-> c.inplace])
          /\ returned' = TLCEval(returned \cup {[id |-> c.ids[k], snap |-> c.heap[c.ids[k]]] : k \in DOMAIN c.ids})

---------------------------------------------------------------------------
(* Refinement of Dataset.tla *)
HistoryIndependent ==
  last.req.inp = 0 \/ LET e == ExpectedArrays(X, last.req) IN \A k \in DOMAIN last.ids : heap[last.ids[k]] = e[k]
EarlierUnaltered == \A e \in returned : heap[e.id] = e.snap
\* every cached request still answers what the abstract semantics says (stronger: covers requests not repeated yet)
CacheCoherent == \A r \in DOMAIN rcache : LET e == ExpectedArrays(X, r) IN \A k \in DOMAIN rcache[r] : heap[rcache[r][k]] = e[k]
\* the field cache never holds a value the abstract semantics calls missing-in-some-input... as a number
CacheGrows == [][\A r \in DOMAIN rcache : r \in DOMAIN rcache' /\ rcache'[r] = rcache[r]]_rcache
=============================================================================
