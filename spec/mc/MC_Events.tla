------------------------------ MODULE MC_Events ------------------------------
(* Every bin type x threshold list x placement of a value relative to the     *)
(* thresholds (below, equal, between, equal, above, NaN, -inf, +inf): the      *)
(* complete set of order relations, so exhaustive for C07's own quantifier.    *)
EXTENDS Events, KnownFindings, TLC, Json
VARIABLES c, phase
vars == <<c, phase>>

Half(n) == Frac(n, 2)
ThVals == {0, 2, 4}                                   \* thresholds 0, 1, 2 (in halves)
ThLists == {<<Half(a)>> : a \in ThVals}
      \cup {<<Half(a), Half(b)>> : a \in ThVals, b \in ThVals}
      \cup {<<Half(a), Half(b), Half(d)>> : a \in ThVals, b \in ThVals, d \in ThVals}
NonDecreasing(ths) == \A k \in 1..(Len(ths) - 1) : Le(ths[k], ths[k + 1])
Eps == Frac(1, 1000000)          \* a value one millionth away from a threshold is NOT on it
Values == {Half(n) : n \in -2..6} \cup {NaN, PInf, MInf}     \* -1, -1/2, 0, 1/2, ..., 3 : below / equal / between / above
          \cup {Add(R(1), Eps), Sub(R(1), Eps), Add(R(2), Eps), Sub(R(2), Eps)}
CdfVals == {Frac(n, 4) : n \in 0..4}

J(x) == IF IsNaN(x) THEN "nan" ELSE IF IsInf(x) THEN (IF x[1] > 0 THEN "inf" ELSE "-inf") ELSE IF x[2] = 1 THEN x[1] ELSE x
B(b) == IF b THEN 1 ELSE 0

Cases(u) == {[kind |-> "member", bt |-> bt, ths |-> ths, x |-> x, c1 |-> Zero, c2 |-> Zero] :
               bt \in BinTypes, ths \in {t \in ThLists : NonDecreasing(t)}, x \in Values}
       \* one event per threshold for the one-sided types, in the order the thresholds are given (any order)
       \cup {[kind |-> "member", bt |-> bt, ths |-> ths, x |-> x, c1 |-> Zero, c2 |-> Zero] :
               bt \in BinTypes \ WithinTypes, ths \in {t \in ThLists : ~NonDecreasing(t)}, x \in Values}
       \cup {[kind |-> "prob", bt |-> bt, ths |-> <<Zero, One>>, x |-> Zero, c1 |-> a, c2 |-> b] :
               bt \in BinTypes, a \in CdfVals, b \in {y \in CdfVals : TRUE}}

T1 == c.ths[1]
T2 == IF Len(c.ths) >= 2 THEN c.ths[2] ELSE c.ths[1]
Expected ==
  IF c.kind = "member"
  THEN LET ivs == Intervals(c.bt, c.ths) IN
       [kind |-> c.kind, bt |-> c.bt, ths |-> [k \in DOMAIN c.ths |-> J(c.ths[k])], x |-> J(c.x),
        nint |-> Len(ivs),
        ivs |-> [k \in DOMAIN ivs |-> [lo |-> J(ivs[k].lo), hi |-> J(ivs[k].hi), lc |-> ivs[k].lc, uc |-> ivs[k].uc,
                                       member |-> IF IsNaN(c.x) THEN "nan" ELSE B(In(ivs[k], c.x)),
                                       memberImpl |-> IF IsNaN(c.x) THEN "nan" ELSE B(In_AsImplemented(ivs[k], c.x)), center |-> J(Center(ivs[k]))]],
        \* binary thresholding with the first (and second) threshold; within* needs two thresholds
        binary |-> IF c.bt \in WithinTypes /\ Len(c.ths) < 2 THEN "na" ELSE J(Binary(c.bt, c.x, T1, T2))]
  ELSE [kind |-> c.kind, bt |-> c.bt, c1 |-> J(c.c1), c2 |-> J(c.c2), p |-> J(ProbOfEvent(c.bt, c.c1, c.c2))]

Init == c \in Cases(0) /\ phase = "case"
Evaluate == phase = "case" /\ phase' = "emitted" /\ c' = c /\ PrintT(ToJson(Expected))
Next == Evaluate
Spec == Init /\ [][Next]_vars

IsMember == c.kind = "member"
InvPartition == IsMember => PartitionWithinEq(c.ths, c.x)
InvComplement == IsMember => Complement(c.x, T1)
InvNaN == IsMember => NaNInNoEvent(T1, T2)
InvAgree == (IsMember /\ (c.bt \in WithinTypes => Len(c.ths) >= 2)) => Agree(c.bt, c.x, T1, T2)
InvProb == (IsMember /\ Len(c.ths) >= 2) => ProbIsHalfOpenEvent(c.bt, c.x, T1, T2)
InvProbRange == c.kind = "prob" => (Le(c.c1, c.c2) => /\ Le(Zero, ProbOfEvent(c.bt, c.c1, c.c2))
                                                       /\ Le(ProbOfEvent(c.bt, c.c1, c.c2), One))
\* ---- witnesses against vacuity (tools/vacuity.py): each is the NEGATION of a lemma's antecedent and must be VIOLATED by some enumerated case ----
W_Partition == ~(IsMember /\ Len(c.ths) = 3 /\ StrictlyIncreasing(c.ths) /\ ~IsNaN(c.x) /\ Gt(c.x, c.ths[1]) /\ Le(c.x, c.ths[3]))
W_OnThreshold == ~(IsMember /\ c.x = T1)
W_Unordered == ~(IsMember /\ ~NonDecreasing(c.ths))
=============================================================================
