-------------------------------- MODULE MC_Cli --------------------------------
(* C13: command lines generated from the documented option grammar.            *)
(*  kind "vec"  : vector syntax on a grid of start / step / end values, lists,  *)
(*                malformed forms, date ranges across month / year / leap days  *)
(*  kind "cli"  : every subset of up to K option groups (selection, computation *)
(*                and malformed ones) over a fixed pair of input files: TLC      *)
(*                checks that the argument loop means the same for every order   *)
(*                of the groups and every split between command line and config  *)
(*                file, and emits the expected outcome (error exit, or the table *)
(*                of Report.tla under the options' documented meaning) together  *)
(*                with the argv variants to run.                                 *)
EXTENDS Cli, Report, DatasetGen
CONSTANTS Kind, K
VARIABLES c, phase
vars == <<c, phase>>

---------------------------------------------------------------------------
(* vector syntax cases *)
Halves == {Frac(n, 2) : n \in -4..6}
StepVals == {Frac(1, 10), Frac(1, 4), Frac(1, 2), R(1), R(2), R(-1), Frac(-1, 2)}
Items == {[kind |-> "single", a |-> a, s |-> One, b |-> a] : a \in Halves}
    \cup {[kind |-> "range", a |-> a, s |-> One, b |-> b] : a \in {R(-2), R(0), Frac(1, 2), R(2)}, b \in {R(-1), R(0), R(2), Frac(5, 2), R(3)}}
    \cup {[kind |-> "step", a |-> a, s |-> s, b |-> b] : a \in {R(-2), R(0), Frac(1, 2), R(3)}, s \in StepVals, b \in {R(-2), R(0), R(1), Frac(5, 2), R(3)}}
ZeroStep == [kind |-> "step", a |-> R(1), s |-> Zero, b |-> R(3)]
DateStarts == {20111229, 20111231, 20120101, 20120227, 20120228, 20120229, 20110227, 20121230}
DateItems == {[kind |-> "range", a |-> R(d), s |-> One, b |-> R(AddDays(d, n))] : d \in DateStarts, n \in {0, 1, 3, 5, 35}}
        \cup {[kind |-> "step", a |-> R(d), s |-> R(k), b |-> R(AddDays(d, n))] : d \in DateStarts, n \in {3, 7, 40}, k \in {2, 3, 7}}
VecCases(u) == {[kind |-> "vec", date |-> FALSE, items |-> <<i>>] : i \in Items}
          \cup {[kind |-> "vec", date |-> FALSE, items |-> <<i, j>>] : i \in {x \in Items : x.kind = "single"}, j \in {x \in Items : x.kind # "single" /\ x.a = R(0)}}
          \cup {[kind |-> "vec", date |-> FALSE, items |-> <<i, j>>] : i \in {x \in Items : x.kind = "step" /\ x.a = R(0) /\ x.b = R(3)}, j \in {x \in Items : x.kind = "range" /\ x.a = Frac(1, 2)}}
          \cup {[kind |-> "vec", date |-> FALSE, items |-> <<j, i, j>>] : i \in {x \in Items : x.kind = "step" /\ x.a = R(3) /\ x.b = R(0)}, j \in {x \in Items : x.kind = "range" /\ x.a = R(0) /\ x.b = R(2)}}
          \cup {[kind |-> "vec", date |-> TRUE, items |-> <<i, j>>] : i \in {x \in DateItems : x.kind = "step" /\ x.a = R(20120227) /\ x.s = R(3)}, j \in {x \in DateItems : x.kind = "range" /\ x.a = R(20121230) /\ x.b # x.a}}
          \cup {[kind |-> "vec", date |-> FALSE, items |-> <<ZeroStep>>]}
          \cup {[kind |-> "vec", date |-> TRUE, items |-> <<i>>] : i \in DateItems}

---------------------------------------------------------------------------
(* option groups: concrete tokens + their documented meaning *)
\* the two input files also carry another score column whose name has an upper-case letter (-fcst Tmax / -obs Tmax select it)
WithTmax(g, miss) == [ts |-> g.ts, ls |-> g.ls, ss |-> g.ss, hasObs |-> g.hasObs, mo |-> g.mo, mf |-> g.mf, bump |-> g.bump, ex |-> ("Tmax" :> miss)]
\* in the first file every observation at the second lead time (12 h) is missing: tables along lead time have a row without a score between two
\* rows with one (-acc: "missing scores count as 0" shows only there; after seed C13-i)
CliIn1 == WithTmax([C03In1 EXCEPT !.mo = @ \cup {<<t, 2, s>> : t \in 1..4, s \in 1..4}], {<<2, 1, 1>>})
CliIn2 == WithTmax(C03In2, {})
D0 == DsOfSmall([inp |-> <<CliIn1, CliIn2>>, clim |-> NoClimGen, opt |-> NoOptions])
DC == DsOfSmall([inp |-> <<CliIn1, CliIn2>>, clim |-> C03Clim, opt |-> NoOptions])
\* the climatology used with -C has small values (with zeros): quotients by large values would leave TLC's 32-bit rationals
DCdiv == DsOfSmall([inp |-> <<CliIn1, CliIn2>>, clim |-> [C03Clim EXCEPT !.mode = "small", !.type = "divide"], opt |-> NoOptions])
Opt(name, v) == [k |-> "opt", name |-> name, v |-> v]
G(toks, sem) == [toks |-> toks, sem |-> sem]
OkGroups ==
  { G(<<"-m", "rmse">>, [k |-> "metric", v |-> "rmse"]), G(<<"-m", "ets">>, [k |-> "metric", v |-> "ets"]), G(<<"-m", "obs">>, [k |-> "metric", v |-> "obs"]),
    G(<<"-m", "bias">>, [k |-> "metric", v |-> "bias"]),        \* (-agg on a score of the errors: the statistic of fcst - obs, not a difference of statistics; after seed C13-j)
    G(<<"-x", "time">>, [k |-> "axis", v |-> "time"]), G(<<"-x", "location">>, [k |-> "axis", v |-> "location"]), G(<<"-x", "no">>, [k |-> "axis", v |-> "no"]),
    G(<<"-x", "month">>, [k |-> "axis", v |-> "month"]), G(<<"-x", "leadtimeday">>, [k |-> "axis", v |-> "leadtimeday"]),
    G(<<"-agg", "max">>, [k |-> "agg", v |-> "max"]), G(<<"-agg", "median">>, [k |-> "agg", v |-> "median"]),
    G(<<"-r", "3">>, [k |-> "r", v |-> R(3)]), G(<<"-b", "below=">>, [k |-> "b", v |-> "below="]), G(<<"-b", "above=">>, [k |-> "b", v |-> "above="]), G(<<"-b", "below">>, [k |-> "b", v |-> "below"]),
    G(<<"-t", "1325376000,1325462400">>, Opt("t", {TimePool[1], TimePool[3]})),
    G(<<"-d", "20120101:20120102">>, Opt("d", {20120101, 20120102})), G(<<"-d", "20120201">>, Opt("d", {20120201})),
    G(<<"-tod", "0">>, Opt("tod", {0})), G(<<"-tod", "6">>, Opt("tod", {6})),
    G(<<"-o", "0:24:24">>, Opt("o", {0, 24})), G(<<"-o", "12">>, Opt("o", {12})),
    G(<<"-l", "1,2,4">>, Opt("l", {1, 2, 4})), G(<<"-lx", "2">>, Opt("lx", {2})),
    G(<<"-latrange", "60,80">>, Opt("latrange", <<60, 80>>)), G(<<"-lonrange", "15,200">>, Opt("lonrange", <<15, 200>>)),
    G(<<"-elevrange", "0,100">>, Opt("elevrange", <<0, 100>>)), G(<<"-obsrange", "1,4">>, Opt("obsrange", <<R(1), R(4)>>)),
    G(<<"-leg", "Aa,B_b">>, [k |-> "leg", v |-> <<"Aa", "B b">>]), G(<<"-acc">>, [k |-> "acc", v |-> TRUE]),
    \* pre-aggregation: -T (hours), its aggregator (default mean) and its axis (default leadtime); -Tagg / -Tx alone change nothing
    G(<<"-T", "13">>, [k |-> "T", v |-> R(13)]), G(<<"-Tagg", "sum">>, [k |-> "Tagg", v |-> "sum"]), G(<<"-Tagg", "abschange">>, [k |-> "Tagg", v |-> "abschange"]), G(<<"-Tx", "time">>, [k |-> "Tx", v |-> "time"]),
    \* field selection: any other column of the files may stand in for the forecast or the observation
    G(<<"-fcst", "Tmax">>, [k |-> "fcstfield", v |-> "Tmax"]), G(<<"-obs", "Tmax">>, [k |-> "obsfield", v |-> "Tmax"]),
    G(<<"-c", "CLIM">>, [k |-> "clim", v |-> "subtract"]), G(<<"-C", "CLIM2">>, [k |-> "clim", v |-> "divide"]) }
\* groups that must be rejected with an error message and a non-zero exit status
BadGroups ==
  { G(<<"-zzz", "1">>, [k |-> "bad", v |-> "unknown flag"]), G(<<"-x", "foo">>, [k |-> "bad", v |-> "unknown axis"]),
    G(<<"-agg", "foo">>, [k |-> "bad", v |-> "unknown aggregator"]), G(<<"-r", "1,,2">>, [k |-> "bad", v |-> "empty vector element"]),
    G(<<"-r", "1:2:3:4">>, [k |-> "bad", v |-> "more than three colon parts"]), G(<<"-r", "2a">>, [k |-> "bad", v |-> "bad character"]),
    G(<<"-r", "1:0:3">>, [k |-> "bad", v |-> "zero step"]), G(<<"-latrange", "60">>, [k |-> "bad", v |-> "range without two values"]),
    G(<<"-elevrange", "0,100,200">>, [k |-> "bad", v |-> "range without two values"]), G(<<"-obsrange", "1">>, [k |-> "bad", v |-> "range without two values"]),
    G(<<"-T", "0">>, [k |-> "bad", v |-> "non-positive -T"]), G(<<"-T", "-6">>, [k |-> "bad", v |-> "non-positive -T"]),
    G(<<"-q", "0.5,1.5">>, [k |-> "bad", v |-> "quantile outside [0,1]"]), G(<<"-type", "foo">>, [k |-> "bad", v |-> "unknown type"]),
    G(<<"MISSINGFILE">>, [k |-> "bad", v |-> "unreadable input file"]),
    \* a NetCDF file that is not in the documented layout (its lead-time axis sits on a dimension of another name)
    G(<<"BADNCFILE">>, [k |-> "bad", v |-> "invalid input file"]), G(<<"-agg", "quantile">>, [k |-> "bad", v |-> "unknown aggregator"]),
    G(<<"-T", "abc">>, [k |-> "bad", v |-> "non-numeric -T"]) }
\* a flag that needs a value, given last
Dangling == G(<<"-m">>, [k |-> "bad", v |-> "flag without its value"])

FlagOf(g) == g.toks[1]
Distinct(S) == \A a, b \in S : a # b => (FlagOf(a) # FlagOf(b) /\ {FlagOf(a), FlagOf(b)} # {"-c", "-C"}
                                           /\ ~(FlagOf(a) \in {"-fcst", "-obs"} /\ FlagOf(b) \in {"-c", "-C", "-fcst", "-obs"}))     \* no flag twice (documented grammar: option subsets); one climatology
Compatible(S) == Distinct(S) /\ ~({"-lx", "-l"} \subseteq {FlagOf(g) : g \in S} /\ FALSE)
RECURSIVE Subsets(_, _)
Subsets(S, n) == IF n = 0 THEN {{}} ELSE Subsets(S, n - 1) \cup {T \cup {x} : T \in Subsets(S, n - 1), x \in S}
CliCases(u) == {[kind |-> "cli", groups |-> T, dangling |-> FALSE] : T \in {X \in Subsets(OkGroups, K) : Distinct(X)}}
          \cup {x \in {[kind |-> "cli", groups |-> {b} \cup T, dangling |-> FALSE] : b \in BadGroups, T \in Subsets(OkGroups, 1)} : Distinct(x.groups)}
          \cup {[kind |-> "cli", groups |-> T, dangling |-> TRUE] : T \in Subsets(OkGroups, 1)}

---------------------------------------------------------------------------
(* the documented meaning of a set of groups *)
TableJ(T) == [k \in DOMAIN T.rows |-> [desc |-> LET d == T.rows[k].desc IN
                  IF d.kind = "date" THEN [kind |-> "date", y |-> d.y, m |-> d.m, d |-> d.d, H |-> d.H, unixtime |-> d.unixtime]
                  ELSE IF d.kind = "location" THEN [kind |-> "location", id |-> d.id, lat |-> d.lat, lon |-> d.lon, elev |-> d.elev]
                  ELSE [kind |-> "number", value |-> d.value], scores |-> T.rows[k].scores]]

SemOf(S, k, default) == IF \E g \in S : g.sem.k = k THEN (CHOOSE g \in S : g.sem.k = k).sem.v ELSE default
OptionsOf(S) ==
  LET og == {g \in S : g.sem.k = "opt"}
      put(O1, g) == [[O1 EXCEPT !.given = @ \cup {g.sem.name}] EXCEPT ![g.sem.name] = g.sem.v]
      RECURSIVE Fold(_, _)
      Fold(O1, T) == IF T = {} THEN O1 ELSE LET g == CHOOSE x \in T : TRUE IN Fold(put(O1, g), T \ {g})
  IN  Fold(NoOptions, og)
IsBad(S) == \E g \in S : g.sem.k = "bad"
Expected(S, dangling) ==
  IF IsBad(S) \/ dangling THEN [status |-> "error", table |-> <<>>, legend |-> <<>>, axis |-> "none", why |-> IF dangling THEN "flag without its value" ELSE (CHOOSE g \in S : g.sem.k = "bad").sem.v]
  ELSE LET metric == SemOf(S, "metric", "mae")
           axis == SemOf(S, "axis", "leadtime")
           agg == SemOf(S, "agg", "mean")
           cfg == [agg |-> agg, q |-> Zero, bt |-> SemOf(S, "b", "above"), t |-> SemOf(S, "r", R(2)), u |-> SemOf(S, "r", R(2))]
           D == IF \E g \in S : g.sem.k = "clim" THEN (IF SemOf(S, "clim", "subtract") = "divide" THEN DCdiv ELSE DC) ELSE D0
           Dsel == LET fn == SemOf(S, "fcstfield", "fcst")  on == SemOf(S, "obsfield", "obs") IN
                   [D EXCEPT !.inputs = [j \in DOMAIN D.inputs |-> [D.inputs[j] EXCEPT !.fcst = IF fn = "fcst" THEN @ ELSE D.inputs[j].extra[fn],
                                                                                           !.obs = IF on = "obs" THEN @ ELSE D.inputs[j].extra[on]]]]
           OO == IF \E g \in S : g.sem.k = "T"
                 THEN WithOpt(OptionsOf(S), "T", <<SemOf(S, "T", Zero), SemOf(S, "Tagg", "mean"), SemOf(S, "Tx", "leadtime")>>)
                 ELSE OptionsOf(S)
           legend == SemOf(S, "leg", <<"FILE1", "FILE2">>)
       IN  IF EmptySelection(Dsel, OO) THEN [status |-> "empty", table |-> <<>>, legend |-> legend, axis |-> axis, why |-> "selection leaves nothing"]
           ELSE LET X == Context(Dsel, OO)
                    T == ScoreTable(Dsel, X, metric, axis, cfg, SemOf(S, "acc", FALSE), legend)
                IN  [status |-> "ok", table |-> TableJ(T), legend |-> legend, axis |-> axis, why |-> ""]
---------------------------------------------------------------------------
(* argv variants: every order of the groups, files first / last / in the middle; every split with a config file *)
\* options every command line carries unless a group of the set provides them: the output type, the metric, an explicit
\* -x (the default axis of a metric is not documented) and, for the categorical metric, an explicit -r
HasFlag(S, f) == \E g \in S : FlagOf(g) = f
BaseOf(S) == (IF HasFlag(S, "-type") THEN <<>> ELSE <<<<"-type", "csv">>>>) \o (IF HasFlag(S, "-m") THEN <<>> ELSE <<<<"-m", "mae">>>>)
             \o (IF HasFlag(S, "-x") THEN <<>> ELSE <<<<"-x", "leadtime">>>>)
             \o (IF (\E g \in S : g.toks = <<"-m", "ets">>) /\ ~HasFlag(S, "-r") THEN <<<<"-r", "2">>>> ELSE <<>>)
GroupSeqs(S) == {q \in [1..Cardinality(S) -> {g.toks : g \in S}] : \A a, b \in 1..Cardinality(S) : a # b => q[a] # q[b]}
Files == <<"FILE1", "FILE2">>
VariantsOf(S, dangling) ==
  LET tail == IF dangling THEN <<Dangling.toks>> ELSE <<>>
      Base == BaseOf(S) IN
  {[argv |-> Flatten(<<<<"FILE1">>, <<"FILE2">>>> \o Base \o q \o tail), config |-> <<>>, config2 |-> <<>>] : q \in GroupSeqs(S)}
  \cup {[argv |-> Flatten(Base \o q \o <<<<"FILE1">>, <<"FILE2">>>> \o tail), config |-> <<>>, config2 |-> <<>>] : q \in GroupSeqs(S)}
  \cup {[argv |-> Flatten(<<<<"FILE1">>>> \o q \o <<<<"FILE2">>>> \o Base \o tail), config |-> <<>>, config2 |-> <<>>] : q \in GroupSeqs(S)}
  \cup (IF dangling THEN {} ELSE
        {[argv |-> Flatten(<<<<"FILE1">>, <<"FILE2">>>> \o Base \o <<<<"--config", "CFG">>>>), config |-> Flatten(q), config2 |-> <<>>] : q \in GroupSeqs(S)}
        \cup {[argv |-> Flatten(<<<<"--config", "CFG">>>> \o SubSeq(q, 1, 1) \o <<<<"FILE1">>, <<"FILE2">>>> \o Base), config |-> Flatten(SubSeq(q, 2, Len(q))), config2 |-> <<>>] : q \in {x \in GroupSeqs(S) : Len(x) >= 1}}
        \* --config may be given several times: the first group in one file, the rest in a second one
        \cup {[argv |-> Flatten(<<<<"FILE1">>, <<"--config", "CFG">>, <<"FILE2">>>> \o Base \o <<<<"--config", "CFG2">>>>), config |-> Flatten(SubSeq(q, 1, 1)), config2 |-> Flatten(SubSeq(q, 2, Len(q)))]
                 : q \in {x \in GroupSeqs(S) : Len(x) >= 2}})

ItemJ(i) == [kind |-> i.kind, a |-> J(i.a), s |-> J(i.s), b |-> J(i.b)]
Emit ==
  IF c.kind = "vec"
  THEN PrintT(ToJson([kind |-> "vec", date |-> c.date, items |-> [k \in DOMAIN c.items |-> ItemJ(c.items[k])],
                      ok |-> \A k \in DOMAIN c.items : ItemOk(c.items[k]),
                      values |-> IF \E k \in DOMAIN c.items : ~ItemOk(c.items[k]) THEN <<>>
                                 ELSE IF c.date THEN ExpandDateList(c.items) ELSE [k \in DOMAIN ExpandList(c.items) |-> J(ExpandList(c.items)[k])]]))
  ELSE LET vs == SetToSeq(VariantsOf(c.groups, c.dangling)) IN
       PrintT(ToJson([kind |-> "cli", groups |-> [k \in DOMAIN SetToSeq(c.groups) |-> SetToSeq(c.groups)[k].toks], dangling |-> c.dangling,
                      expected |-> Expected(c.groups, c.dangling), variants |-> vs,
                      files |-> [j \in DOMAIN D0.inputs |-> InputJson(D0.inputs[j])], clim |-> InputJson(DC.clim), clim2 |-> InputJson(DCdiv.clim)]))
Init == c \in (IF Kind = "vec" THEN VecCases(0) ELSE CliCases(0)) /\ phase = "case"
Evaluate == phase = "case" /\ phase' = "emitted" /\ c' = c /\ Emit
Next == Evaluate
Spec == Init /\ [][Next]_vars

---------------------------------------------------------------------------
InvVector == c.kind = "vec" => \A k \in DOMAIN c.items :
               IF c.date THEN DateLemma(c.items[k]) ELSE (EndPointIncluded(c.items[k]) /\ StepLemma(c.items[k]))
\* the loop refines the documented meaning: for every variant the loop's result is Meaning(set of groups, files)
LoopResult(v) == Loop(v.argv, [n \in {"CFG", "CFG2"} |-> IF n = "CFG" THEN v.config ELSE v.config2])
InvOrderIndependent ==
  c.kind = "cli" =>
    LET gs == {g.toks : g \in c.groups} \cup {BaseOf(c.groups)[k] : k \in DOMAIN BaseOf(c.groups)} \cup (IF c.dangling THEN {Dangling.toks} ELSE {})
        want == Meaning({g \in gs : IsFlag(g[1])}, SelectSeq(<<"FILE1", "MISSINGFILE", "BADNCFILE", "FILE2">>, LAMBDA f : f \in {"FILE1", "FILE2"} \/ <<f>> \in gs))
    IN  \A v \in VariantsOf(c.groups, c.dangling) :
           LET got == LoopResult(v) IN
           /\ got.status = want.status
           /\ (got.status = "ok" => got.switches = want.switches /\ got.values = [want.values EXCEPT !["--config"] = NoValue]
                                     /\ {got.files[k] : k \in DOMAIN got.files} = {want.files[k] : k \in DOMAIN want.files})
=============================================================================
