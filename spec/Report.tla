------------------------------- MODULE Report -------------------------------
(* C12: what `-type text` / `-type csv` print for a score matrix.             *)
(* A table is [legend, rows]; a row is [desc, scores]: the descriptor of the   *)
(* slice (which identifies it) and one score per input in command-line order.  *)
(* Number rendering is not modelled digit by digit: a printed number must      *)
(* agree with the score to the format's precision (6 significant digits for    *)
(* csv, 4 for text).                                                           *)
EXTENDS Scoring

\* descriptor of slice k of an axis: the calendar components / coordinate values a reader needs to identify the slice
Descriptor(D, X, axis, k) ==
  LET key == SliceKeys(X, axis)[k] IN
  IF axis \in {"time", "year", "month", "week", "day"}
  THEN LET c == CivilFromDays(DayOf(key)) IN
       [kind |-> "date", axis |-> axis, y |-> c.y, m |-> c.m, d |-> c.d, H |-> HourOf(key), unixtime |-> key,
        weekyear |-> CivilFromDays(DayOf(key)).y]
  ELSE IF axis \in LocationAxes
  THEN [kind |-> "location", axis |-> axis, id |-> key, lat |-> MetaLat(D, key), lon |-> MetaLon(D, key), elev |-> MetaElev(D, key)]
  ELSE IF axis = "timeofday" THEN [kind |-> "number", axis |-> "threshold", value |-> 0, center |-> Frac(key, 3600)]     \* in hours (00:30 is 0.5)
  ELSE [kind |-> "number", axis |-> axis, value |-> key]

NanToZero(e) == IF IsUndef(e) \/ (IsQ(e) /\ IsNaN(e.v)) THEN Q(Zero) ELSE e
\* -acc: running sums along the axis (missing scores count as 0)
AccMatrix(M) == [k \in DOMAIN M |-> [i \in DOMAIN M[k] |-> SumE([r \in 1..k |-> NanToZero(M[r][i])])]]

ScoreTable(D, X, m, axis, cfg, acc, legend) ==
  LET M == ScoreMatrix(X, m, axis, cfg)
      S == IF acc THEN AccMatrix(M) ELSE M
  IN  [legend |-> legend, rows |-> [k \in DOMAIN S |-> [desc |-> Descriptor(D, X, axis, k), scores |-> S[k]]]]
\* -x threshold: one row per event of Intervals(-b, -r), scored on the pooled cases
ThresholdTable(X, m, bt, ths, legend) ==
  LET ivs == Intervals(bt, ths) IN
  [legend |-> legend,
   rows |-> [k \in DOMAIN ivs |-> [desc |-> [kind |-> "number", axis |-> "threshold", value |-> 0, center |-> Center(ivs[k])],
                                    scores |-> [i \in 1..X.n |-> Score(X, m, i, "no", 1,
                                                  [agg |-> "mean", q |-> Zero, bt |-> bt, t |-> (IF ivs[k].lo = MInf THEN ivs[k].hi ELSE ivs[k].lo),
                                                   u |-> (IF ivs[k].hi = PInf THEN ivs[k].lo ELSE ivs[k].hi)])]]]]

\* -r with several thresholds on a data axis: the reported score is the mean over the events of Intervals(-b, -r)
AveragedTable(D, X, m, axis, bt, ths, legend) ==
  LET ivs == Intervals(bt, ths)
      cfgOf(k) == [agg |-> "mean", q |-> Zero, bt |-> bt, t |-> (IF ivs[k].lo = MInf THEN ivs[k].hi ELSE ivs[k].lo),
                   u |-> (IF ivs[k].hi = PInf THEN ivs[k].lo ELSE ivs[k].hi)]
  IN  [legend |-> legend,
       rows |-> [r \in 1..NumSlices(X, axis) |->
                   [desc |-> Descriptor(D, X, axis, r),
                    scores |-> [i \in 1..X.n |->
                                  LET parts == [k \in DOMAIN ivs |-> Score(X, m, i, axis, r, cfgOf(k))] IN
                                  IF \E k \in DOMAIN parts : IsUndef(parts[k]) THEN Undef ELSE DivE(SumE(parts), Q(R(Len(ivs))))]]]]

\* -x obs / -x fcst: one row per event of Intervals(-b, -r); the score of the pooled valid pairs whose OBSERVATION (or FORECAST) lies in
\* the event; the row is labelled by the event's lower edge (its upper edge where it has no lower one)
CondPairs(X, i, field, iv) == SelectSeq(PairsOf(X, i, "no", 1), LAMBDA p : In(iv, IF field = "obs" THEN p[1] ELSE p[2]))
ConditionalTable(X, m, field, bt, ths, legend) ==
  LET ivs == Intervals(bt, ths) IN
  [legend |-> legend,
   rows |-> [k \in DOMAIN ivs |-> [desc |-> [kind |-> "number", axis |-> "threshold", value |-> 0, center |-> (IF ivs[k].lo = MInf THEN ivs[k].hi ELSE ivs[k].lo)],
                                    scores |-> [i \in 1..X.n |-> Det(m, CondPairs(X, i, field, ivs[k]), "mean", Zero)]]]]
\* the rows of consecutive `within=`-type events share no pair, and together hold the pairs whose value lies in (first, last]
CondRowsDisjoint(X, i, field, ths) ==
  LET ivs == Intervals("within=", ths)  all == PairsOf(X, i, "no", 1) IN
  SumInts([k \in DOMAIN ivs |-> Len(CondPairs(X, i, field, ivs[k]))])
    = Len(SelectSeq(all, LAMBDA p : LET v == IF field = "obs" THEN p[1] ELSE p[2] IN Gt(v, ths[1]) /\ Le(v, ths[Len(ths)])))

\* shape lemmas
TableShape(D, X, m, axis, cfg, acc, legend) ==
  LET T == ScoreTable(D, X, m, axis, cfg, acc, legend) IN
  /\ Len(T.rows) = NumSlices(X, axis)
  /\ \A k \in DOMAIN T.rows : Len(T.rows[k].scores) = X.n
  /\ Len(legend) = X.n
  /\ \A j, k \in DOMAIN T.rows : j # k => T.rows[j].desc # T.rows[k].desc          \* descriptors identify the slice
AccIsPrefixSum(D, X, m, axis, cfg, legend) ==
  LET A == ScoreTable(D, X, m, axis, cfg, TRUE, legend)  P == ScoreTable(D, X, m, axis, cfg, FALSE, legend) IN
  \A k \in DOMAIN A.rows : \A i \in 1..X.n :
     (k = 1 => A.rows[k].scores[i] = NanToZero(P.rows[k].scores[i]))
     /\ (k > 1 /\ IsQ(A.rows[k].scores[i]) /\ IsQ(A.rows[k - 1].scores[i]) /\ IsQ(NanToZero(P.rows[k].scores[i])) =>
            A.rows[k].scores[i].v = Add(A.rows[k - 1].scores[i].v, NanToZero(P.rows[k].scores[i]).v))
=============================================================================
