SPECIFICATION Spec
CONSTANT Family = "C12"
INVARIANT InvOneSeriesPerInput
INVARIANT InvBins
CHECK_DEADLOCK FALSE
