---------------------------- MODULE MC_EventsInt ----------------------------
(* The order core of Events.tla over UNBOUNDED integers, for Apalache (SMT):  *)
(* partition of (first, last] by consecutive within= events, complement of    *)
(* above / below=, agreement of the by-cases and interval formulations.       *)
(* Values, thresholds: arbitrary integers with t1 < t2 < t3.                  *)
EXTENDS Integers

VARIABLES
  \* @type: Int;
  x,
  \* @type: Int;
  t1,
  \* @type: Int;
  t2,
  \* @type: Int;
  t3

Init == x \in Int /\ t1 \in Int /\ t2 \in Int /\ t3 \in Int /\ t1 < t2 /\ t2 < t3
Next == UNCHANGED <<x, t1, t2, t3>>

WithinEq(v, lo, hi) == v > lo /\ v <= hi
Within(v, lo, hi)   == v > lo /\ v < hi
EqWithin(v, lo, hi) == v >= lo /\ v < hi
EqWithinEq(v, lo, hi) == v >= lo /\ v <= hi
\* interval formulation with explicit closedness flags
InIv(v, lo, hi, lc, uc) == (v > lo \/ (lc /\ v = lo)) /\ (v < hi \/ (uc /\ v = hi))

Lemmas ==
  \* consecutive within= events are disjoint and jointly cover (first, last]
  /\ ~(WithinEq(x, t1, t2) /\ WithinEq(x, t2, t3))
  /\ ((WithinEq(x, t1, t2) \/ WithinEq(x, t2, t3)) <=> (x > t1 /\ x <= t3))
  \* =within events partition [first, last)
  /\ ~(EqWithin(x, t1, t2) /\ EqWithin(x, t2, t3))
  /\ ((EqWithin(x, t1, t2) \/ EqWithin(x, t2, t3)) <=> (x >= t1 /\ x < t3))
  \* above is the complement of below=, above= of below
  /\ ((x > t1) <=> ~(x <= t1))
  /\ ((x >= t1) <=> ~(x < t1))
  \* by-cases and interval formulations agree
  /\ (Within(x, t1, t2) <=> InIv(x, t1, t2, FALSE, FALSE))
  /\ (EqWithin(x, t1, t2) <=> InIv(x, t1, t2, TRUE, FALSE))
  /\ (WithinEq(x, t1, t2) <=> InIv(x, t1, t2, FALSE, TRUE))
  /\ (EqWithinEq(x, t1, t2) <=> InIv(x, t1, t2, TRUE, TRUE))
  \* open within events never contain a threshold; closed ones overlap exactly at the shared threshold
  /\ ((EqWithinEq(x, t1, t2) /\ EqWithinEq(x, t2, t3)) <=> x = t2)
=============================================================================
