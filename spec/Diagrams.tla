------------------------------- MODULE Diagrams -------------------------------
(* C16: what each diagram must draw, as series of points computed from the      *)
(* common valid cases (Dataset.tla / Scoring.tla) by the diagram's defining      *)
(* statistics -- one series per input in command-line order.  A series is       *)
(* [label, x, y] with x, y sequences of Expr; `label` is the legend name of the *)
(* input ("#i" stands for the i-th input's legend entry), "obs" for the          *)
(* observation series, "" for an unlabelled one.                                *)
(* Binned diagrams come with the lemma that every valid case falls in exactly    *)
(* one bin.                                                                      *)
EXTENDS Scoring

InputLabel(i) == <<"#", i>>
Series(label, x, y) == [label |-> label, x |-> x, y |-> y]
QS(s) == [k \in DOMAIN s |-> Q(s[k])]
Pooled(X, i) == PairsOf(X, i, "no", 1)
\* x-axis value of slice k: dates as day numbers (plotting date numbers), everything else the slice key
AxisX(X, axis, k) == LET key == SliceKeys(X, axis)[k] IN IF axis \in {"time", "year", "month", "week", "day"} THEN Frac(key, 86400) ELSE R(key)

\* ---- standard plot of a metric along an axis: y = the score of every slice; `-x no`: one bar per input ----
StandardSeries(X, m, axis, cfg) ==
  [i \in 1..X.n |-> Series(InputLabel(i), [k \in 1..NumSlices(X, axis) |-> Q(AxisX(X, axis, k))],
                           [k \in 1..NumSlices(X, axis) |-> Score(X, m, i, axis, k, cfg)])]
\* ---- obsfcst: the aggregate of the observations (cases valid in obs and fcst of the FIRST input) and of every input's forecasts ----
MeanOrNaN(s) == IF s = <<>> THEN NaNE ELSE Q(MeanSeq(s))
ObsFcstSeries(X, axis) ==
  <<Series("obs", [k \in 1..NumSlices(X, axis) |-> Q(AxisX(X, axis, k))],
           [k \in 1..NumSlices(X, axis) |-> MeanOrNaN(O(PairsOf(X, 1, axis, k)))])>>
  \o [i \in 1..X.n |-> Series(InputLabel(i), [k \in 1..NumSlices(X, axis) |-> Q(AxisX(X, axis, k))],
                              [k \in 1..NumSlices(X, axis) |-> MeanOrNaN(F(PairsOf(X, i, axis, k)))])]
\* ---- qq: sorted observations against sorted forecasts of the pooled valid pairs ----
QQSeries(X) == [i \in 1..X.n |-> Series(InputLabel(i), QS(SortR(O(Pooled(X, i)))), QS(SortR(F(Pooled(X, i)))))]
\* ---- scatter: the valid (obs, fcst) points (as a multiset: the order of the points is immaterial) ----
ScatterSeries(X) == [i \in 1..X.n |-> Series(InputLabel(i), QS(O(Pooled(X, i))), QS(F(Pooled(X, i))))]
\* ---- sort: the sorted values of a field against their percentile 0..100 ----
SortSeries(X, field) ==
  [i \in 1..X.n |-> LET v == SortR(ValuesOf(X, i, field, "no", 1))  n == Len(v) IN
                    Series(InputLabel(i), QS(v), [k \in 1..n |-> Q(IF n = 1 THEN Zero ELSE Frac(100 * (k - 1), n - 1))])]
\* ---- hist: percentage of the values of a field in each event of Intervals(-b, -r) ----
CountIn(v, iv) == Cardinality({k \in DOMAIN v : In(iv, v[k])})
HistSeries(X, field, bt, ths) ==
  LET ivs == Intervals(bt, ths) IN
  [i \in 1..X.n |-> LET v == ValuesOf(X, i, field, "no", 1)
                        tot == SumInts([k \in DOMAIN ivs |-> CountIn(v, ivs[k])]) IN
                    Series(InputLabel(i), [k \in DOMAIN ivs |-> Q(Center(ivs[k]))],
                           [k \in DOMAIN ivs |-> IF tot = 0 THEN NaNE ELSE Q(Frac(100 * CountIn(v, ivs[k]), tot))])]
\* ---- freq: fraction of the forecasts (per input) and of the observations in each event ----
FreqSeries(X, bt, ths) ==
  LET ivs == Intervals(bt, ths)
      frac(v, k) == IF v = <<>> THEN NaNE ELSE Q(Frac(CountIn(v, ivs[k]), Len(v)))
  IN  [i \in 1..X.n |-> Series(InputLabel(i), [k \in DOMAIN ivs |-> Q(Center(ivs[k]))], [k \in DOMAIN ivs |-> frac(F(Pooled(X, i)), k)])]
      \o <<Series("obs", [k \in DOMAIN ivs |-> Q(Center(ivs[k]))], [k \in DOMAIN ivs |-> frac(O(Pooled(X, X.n)), k)])>>
\* ---- error decomposition: per slice the point (unsystematic error sqrt(rmse^2 - bias^2), systematic error mean(o - f)) ----
ErrorSeries(X, axis) ==
  [i \in 1..X.n |-> Series(InputLabel(i),
     [k \in 1..NumSlices(X, axis) |-> LET p == PairsOf(X, i, axis, k) IN
         IF p = <<>> THEN NaNE ELSE SqrtE(Q(Sub(MeanSeq([q \in DOMAIN p |-> Sq(Sub(p[q][1], p[q][2]))]), Sq(MeanSeq(Err(p))))))],
     [k \in 1..NumSlices(X, axis) |-> LET p == PairsOf(X, i, axis, k) IN IF p = <<>> THEN NaNE ELSE Q(MeanSeq(Err(p)))])]
\* ---- performance diagram: per slice the point (1 - false alarm ratio, hit rate) of the event ----
PerformanceSeries(X, axis, bt, t) ==
  [i \in 1..X.n |-> Series(InputLabel(i),
     [k \in 1..NumSlices(X, axis) |-> LET e == Cat("far", Table(PairsOf(X, i, axis, k), bt, t, t)) IN IF IsUndef(e) THEN Undef ELSE Q(Sub(One, e.v))],
     [k \in 1..NumSlices(X, axis) |-> Cat("hit", Table(PairsOf(X, i, axis, k), bt, t, t))])]
\* ---- against: the forecasts of input i against those of input j for all common cases ----
AgainstSeries(X) == <<Series("", QS(F(Pooled(X, 1))), QS(F(Pooled(X, 2))))>>
\* ---- cond: for every event (of the observations, resp. of the forecasts) the conditional mean of the other quantity ----
\*   F|O: (median of the observations in the bin, mean of the forecasts whose observation is in the bin)
\*   O|F: (mean of the observations whose forecast is in the bin, median of the forecasts in the bin)
SubPairs(p, iv, col) == SelectSeq(p, LAMBDA x : In(iv, x[col]))
CondSeries(X, bt, ths) ==
  LET ivs == Intervals(bt, ths)
      med(s) == IF s = <<>> THEN NaNE ELSE Q(Median(s))
      mean(s) == IF s = <<>> THEN NaNE ELSE Q(MeanSeq(s))
  IN  [n \in 1..(2 * X.n) |->
         LET i == ((n - 1) \div 2) + 1  p == Pooled(X, i) IN
         IF n % 2 = 1
         THEN Series(<<"#", i, " (F|O)">>, [k \in DOMAIN ivs |-> med(O(SubPairs(p, ivs[k], 1)))], [k \in DOMAIN ivs |-> mean(F(SubPairs(p, ivs[k], 1)))])
         ELSE Series(<<"#", i, " (O|F)">>, [k \in DOMAIN ivs |-> mean(O(SubPairs(p, ivs[k], 2)))], [k \in DOMAIN ivs |-> med(F(SubPairs(p, ivs[k], 2)))])]
\* ---- timeseries: per input and initialisation time, the forecast (mean over locations) against valid time in days ----
TimeSeriesSeries(X) ==
  LET nT == Len(X.T)
      fc(i, t, l) == LET vals == SelectSeq([k \in DOMAIN X.S |-> X.adj[i, "fcst", <<t, l, X.S[k]>>]], LAMBDA v : IsFinite(v)) IN
                     IF vals = <<>> THEN NaNE ELSE Q(MeanSeq(vals))
  IN  [n \in 1..(X.n * nT) |->
         LET i == ((n - 1) \div nT) + 1  d == ((n - 1) % nT) + 1 IN
         Series(IF d = 1 THEN InputLabel(i) ELSE "", [k \in DOMAIN X.L |-> Q(Add(Frac(X.T[d], 86400), Frac(X.L[k], 24)))],
                [k \in DOMAIN X.L |-> fc(i, X.T[d], X.L[k])])]

\* every valid value falls in exactly one bin of a binned diagram whose events partition the line
EveryValueInOneBin(v, bt, ths) ==
  (bt = "within=" /\ StrictlyIncreasing(ths)) =>
     \A k \in DOMAIN v : (Gt(v[k], ths[1]) /\ Le(v[k], ths[Len(ths)])) => Cardinality({j \in DOMAIN Intervals(bt, ths) : In(Intervals(bt, ths)[j], v[k])}) = 1
OneSeriesPerInput(ss, n, extra) == Len(ss) = n + extra

---------------------------------------------------------------------------
(* second tranche: diagrams of probabilistic forecasts.  pe = sequence of <<p, e>> (event probability, outcome 0/1) of the *)
(* common valid cases of one input; edges = increasing sequence of bin edges; bins are [e_k, e_k+1), the last one also      *)
(* containing its upper edge (closedLast) -- every probability in [0, 1] then lies in exactly one bin.                      *)
BinOf(p, edges, closedLast) ==
  IF \E k \in 1..(Len(edges) - 1) : Ge(p, edges[k]) /\ Lt(p, edges[k + 1]) THEN CHOOSE k \in 1..(Len(edges) - 1) : Ge(p, edges[k]) /\ Lt(p, edges[k + 1])
  ELSE IF closedLast /\ p = edges[Len(edges)] THEN Len(edges) - 1 ELSE 0
InBinIdx(pe, edges, closedLast, b) == SelectSeq([k \in DOMAIN pe |-> k], LAMBDA k : BinOf(pe[k][1], edges, closedLast) = b)
EveryCaseInOneBin(pe, edges) == \A k \in DOMAIN pe : (Ge(pe[k][1], edges[1]) /\ Le(pe[k][1], edges[Len(edges)])) => BinOf(pe[k][1], edges, TRUE) \in 1..(Len(edges) - 1)
RelEdges == <<Zero>> \o [k \in 1..10 |-> Frac(2 * k - 1, 20)] \o <<One>>            \* 0, 0.05, 0.15, ..., 0.95, 1
TenBins == [k \in 1..11 |-> Frac(k - 1, 10)]
\* reliability: per bin the mean forecast probability against the observed frequency; bins with fewer than minCount cases are not drawn
ReliabilityXY(pe, minCount, closedLast) ==
  LET nb == Len(RelEdges) - 1
      idx(b) == InBinIdx(pe, RelEdges, closedLast, b)
  IN  [x |-> [b \in 1..nb |-> IF Len(idx(b)) >= minCount THEN Q(MeanSeq([m \in DOMAIN idx(b) |-> pe[idx(b)[m]][1]])) ELSE AnyE],
       y |-> [b \in 1..nb |-> IF Len(idx(b)) >= minCount THEN Q(MeanSeq([m \in DOMAIN idx(b) |-> pe[idx(b)[m]][2]])) ELSE NaNE]]
\* discrimination: percentage of the event cases (and of the non-event cases) whose forecast probability lies in each of ten bins
DiscriminationY(pe, outcome, closedLast) ==
  LET sel == SelectSeq(pe, LAMBDA x : x[2] = outcome) IN
  [b \in 1..10 |-> IF sel = <<>> THEN NaNE ELSE Q(Frac(100 * Len(InBinIdx(sel, TenBins, closedLast, b)), Len(sel)))]
\* ROC: (false alarm rate, hit rate) when the event is forecast whenever p >= level, for the levels 0, 0.1, ..., 1, between (1,1) and (0,0)
RocXY(pe) ==
  LET lev(k) == Frac(k - 1, 10)
      a(k) == Cardinality({m \in DOMAIN pe : Ge(pe[m][1], lev(k)) /\ pe[m][2] = One})
      b(k) == Cardinality({m \in DOMAIN pe : Ge(pe[m][1], lev(k)) /\ pe[m][2] = Zero})
      nev == Cardinality({m \in DOMAIN pe : pe[m][2] = One})  nno == Cardinality({m \in DOMAIN pe : pe[m][2] = Zero})
      ok == nev > 0 /\ nno > 0
  IN  [x |-> <<Q(One)>> \o [k \in 1..11 |-> IF ok THEN Q(Frac(b(k), nno)) ELSE NaNE] \o <<Q(Zero)>>,
       y |-> <<Q(One)>> \o [k \in 1..11 |-> IF ok THEN Q(Frac(a(k), nev)) ELSE NaNE] \o <<Q(Zero)>>]
\* PIT histogram: percentage of the PIT values in each of ten bins (last closed)
PitHistY(pit) == [b \in 1..10 |-> IF pit = <<>> THEN NaNE ELSE Q(Frac(100 * Cardinality({k \in DOMAIN pit : ProbBin(pit[k]) = b}), Len(pit)))]
\* marginal: mean event probability per threshold, and the observed frequency of the event
MarginalY(peByThreshold) == [t \in DOMAIN peByThreshold |-> IF peByThreshold[t] = <<>> THEN NaNE ELSE Q(MeanSeq(PP(peByThreshold[t])))]
MarginalObsY(peByThreshold) == [t \in DOMAIN peByThreshold |-> IF peByThreshold[t] = <<>> THEN NaNE ELSE Q(MeanSeq(EE(peByThreshold[t])))]
=============================================================================
