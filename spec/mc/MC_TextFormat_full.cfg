SPECIFICATION Spec
CONSTANT Universe = "full"
INVARIANT InvColumnOrder
INVARIANT InvRowOrder
INVARIANT InvIntended
INVARIANT InvLoopRefines
CHECK_DEADLOCK FALSE
