----------------------------- MODULE TextFormat -----------------------------
(* C09: the verif text format, as a relation  Parse(file) = Input  written   *)
(* from the documentation (README "Text-based input"), not from the reader.  *)
(*                                                                           *)
(* A file is [meta, header, rows]:                                           *)
(*   meta   : sequence of [key, value] for the '# key: value' lines          *)
(*   header : sequence of column names, each a sequence of characters        *)
(*   rows   : sequence of rows; a row is a sequence of tokens parallel to    *)
(*            the header; a token is [m |-> FALSE, v |-> number] or          *)
(*            [m |-> TRUE, v |-> NaN, txt |-> the literal missing token]     *)
(* The parsed Input is coordinate-keyed: nothing depends on the order of     *)
(* columns or rows (lemmas ColumnOrderInvariant, RowOrderInvariant).         *)
EXTENDS Rat, Calendar, TLC

Digits == {"0", "1", "2", "3", "4", "5", "6", "7", "8", "9"}
DigitVal(ch) == CASE ch = "0" -> 0 [] ch = "1" -> 1 [] ch = "2" -> 2 [] ch = "3" -> 3 [] ch = "4" -> 4
                  [] ch = "5" -> 5 [] ch = "6" -> 6 [] ch = "7" -> 7 [] ch = "8" -> 8 [] ch = "9" -> 9

\* decimal numerals: optional '-', digits, optional '.' digits (at least one digit)
RECURSIVE DigitsVal(_)
DigitsVal(s) == IF s = <<>> THEN 0 ELSE DigitsVal(SubSeq(s, 1, Len(s) - 1)) * 10 + DigitVal(s[Len(s)])
RECURSIVE Pow10(_)
Pow10(n) == IF n = 0 THEN 1 ELSE 10 * Pow10(n - 1)
IsUnsigned(s) ==
  /\ s # <<>>
  /\ \A k \in DOMAIN s : s[k] \in Digits \cup {"."}
  /\ Cardinality({k \in DOMAIN s : s[k] = "."}) <= 1
  /\ \E k \in DOMAIN s : s[k] \in Digits
\* exponent notation (1e-05, 2.5e3): a mantissa, the letter e, an optionally signed whole exponent
EPos(s) == IF \E k \in DOMAIN s : s[k] = "e" THEN CHOOSE k \in DOMAIN s : s[k] = "e" /\ \A j \in 1..(k - 1) : s[j] # "e" ELSE 0
IsWhole(s) == LET t == IF s # <<>> /\ s[1] \in {"-", "+"} THEN Tail(s) ELSE s IN t # <<>> /\ \A k \in DOMAIN t : t[k] \in Digits
WholeVal(s) == IF s[1] = "-" THEN -DigitsVal(Tail(s)) ELSE IF s[1] = "+" THEN DigitsVal(Tail(s)) ELSE DigitsVal(s)
IsUnsignedX(s) == IF EPos(s) = 0 THEN IsUnsigned(s)
                  ELSE IsUnsigned(SubSeq(s, 1, EPos(s) - 1)) /\ IsWhole(SubSeq(s, EPos(s) + 1, Len(s)))
IsNumeral(s) == IF s # <<>> /\ s[1] = "-" THEN IsUnsignedX(Tail(s)) ELSE IsUnsignedX(s)
UnsignedVal0(s) ==
  IF \E k \in DOMAIN s : s[k] = "."
  THEN LET d == CHOOSE k \in DOMAIN s : s[k] = "."
           ip == SubSeq(s, 1, d - 1)  fp == SubSeq(s, d + 1, Len(s))
       IN  Add(R(DigitsVal(ip)), Frac(DigitsVal(fp), Pow10(Len(fp))))
  ELSE R(DigitsVal(s))
UnsignedVal(s) == IF EPos(s) = 0 THEN UnsignedVal0(s)
                  ELSE LET m == UnsignedVal0(SubSeq(s, 1, EPos(s) - 1))  e == WholeVal(SubSeq(s, EPos(s) + 1, Len(s))) IN
                       IF e >= 0 THEN Mul(m, R(Pow10(e))) ELSE Div(m, R(Pow10(-e)))
NumeralVal(s) == IF s[1] = "-" THEN Neg(UnsignedVal(Tail(s))) ELSE UnsignedVal(s)

N_unixtime == <<"u", "n", "i", "x", "t", "i", "m", "e">>
N_date == <<"d", "a", "t", "e">>
N_hour == <<"h", "o", "u", "r">>
N_leadtime == <<"l", "e", "a", "d", "t", "i", "m", "e">>
N_offset == <<"o", "f", "f", "s", "e", "t">>
N_location == <<"l", "o", "c", "a", "t", "i", "o", "n">>
N_id == <<"i", "d">>
N_lat == <<"l", "a", "t">>
N_lon == <<"l", "o", "n">>
N_elev == <<"e", "l", "e", "v">>
N_altitude == <<"a", "l", "t", "i", "t", "u", "d", "e">>
N_obs == <<"o", "b", "s">>
N_fcst == <<"f", "c", "s", "t">>
N_pit == <<"p", "i", "t">>
N_p1 == <<"p", "1">>
N_p2d5 == <<"p", "2", ".", "5">>
N_pm1 == <<"p", "-", "1">>
N_pd5 == <<"p", ".", "5">>                 \* numerals without a leading digit, with a trailing point, negative without a leading digit
N_qd9 == <<"q", ".", "9">>
N_pmd5 == <<"p", "-", ".", "5">>
N_p5dot == <<"p", "5", ".">>
N_p1em5 == <<"p", "1", "e", "-", "0", "5">>          \* exponent notation, as "%g" writes small thresholds
N_q0 == <<"q", "0">>                       \* the end points are quantile levels too
N_q1 == <<"q", "1">>
N_p0 == <<"p", "0">>
N_p5 == <<"p", "5">>
N_p10 == <<"p", "1", "0">>
N_q0d1 == <<"q", "0", ".", "1">>
N_q0d9 == <<"q", "0", ".", "9">>
N_q0d5 == <<"q", "0", ".", "5">>
N_e0 == <<"e", "0">>
N_e1 == <<"e", "1">>
N_e2 == <<"e", "2">>
N_crps == <<"c", "r", "p", "s">>
N_pop == <<"p", "o", "p">>
N_quality == <<"q", "u", "a", "l", "i", "t", "y">>
N_p == <<"p">>
N_q == <<"q">>
N_e == <<"e">>
N_px == <<"p", "x">>
N_e1x == <<"e", "1", "x">>
N_time == <<"t", "i", "m", "e">>
\* names the NetCDF layout reserves for its own variables are ordinary score columns in a text file
N_x == <<"x">>
N_cdf == <<"c", "d", "f">>
N_threshold == <<"t", "h", "r", "e", "s", "h", "o", "l", "d">>
N_quantile == <<"q", "u", "a", "n", "t", "i", "l", "e">>
---------------------------------------------------------------------------
(* column classification, by name *)
Regular == {N_obs, N_fcst, N_id, N_location, N_lat, N_lon, N_elev, N_altitude, N_hour, N_date, N_unixtime, N_leadtime, N_offset}
IsThresholdCol(nm) == nm # <<>> /\ nm[1] = "p" /\ nm # N_pit /\ IsNumeral(Tail(nm))
IsQuantileCol(nm)  == nm # <<>> /\ nm[1] = "q" /\ IsNumeral(Tail(nm))
IsMemberCol(nm)    == nm # <<>> /\ nm[1] = "e" /\ nm # N_elev /\ IsNumeral(Tail(nm))
IsOtherCol(nm)     == nm \notin Regular /\ nm # N_pit /\ ~IsThresholdCol(nm) /\ ~IsQuantileCol(nm) /\ ~IsMemberCol(nm)
Class(nm) ==
  CASE nm = N_obs -> "obs" [] nm = N_fcst -> "fcst" [] nm = N_pit -> "pit"
    [] nm \in {N_id, N_location} -> "id" [] nm = N_lat -> "lat" [] nm = N_lon -> "lon"
    [] nm \in {N_elev, N_altitude} -> "elev"
    [] nm \in {N_leadtime, N_offset} -> "leadtime"
    [] nm = N_date -> "date" [] nm = N_hour -> "hour" [] nm = N_unixtime -> "unixtime"
    [] IsThresholdCol(nm) -> "threshold" [] IsQuantileCol(nm) -> "quantile" [] IsMemberCol(nm) -> "member"
    [] OTHER -> "other"

Col(F, cls) == {k \in DOMAIN F.header : Class(F.header[k]) = cls}
HasCol(F, cls) == Col(F, cls) # {}
\* the (first) column of a class; "location" wins over "id", "altitude" over "elev" when both are present
PickCol(F, cls) ==
  IF cls = "id" /\ \E k \in DOMAIN F.header : F.header[k] = N_location THEN CHOOSE k \in DOMAIN F.header : F.header[k] = N_location
  ELSE IF cls = "elev" /\ \E k \in DOMAIN F.header : F.header[k] = N_altitude THEN CHOOSE k \in DOMAIN F.header : F.header[k] = N_altitude
  ELSE CHOOSE k \in Col(F, cls) : \A j \in Col(F, cls) : k <= j

\* a token's value: -999, nan and anything non-numeric are missing
Decode(tok) == IF tok.m \/ tok.v = R(-999) THEN NaN ELSE tok.v
Cell(F, r, cls) == Decode(F.rows[r][PickCol(F, cls)])

\* coordinates of a row
RowTime(F, r) ==
  IF HasCol(F, "date")
  THEN UnixOfDay(DayFromYYYYMMDD(Num(Cell(F, r, "date")))) + (IF HasCol(F, "hour") THEN Num(Cell(F, r, "hour")) * 3600 ELSE 0)
  ELSE IF HasCol(F, "unixtime") THEN Num(Cell(F, r, "unixtime")) ELSE 0
RowLead(F, r) == IF HasCol(F, "leadtime") THEN Cell(F, r, "leadtime") ELSE Zero
\* Files WITHOUT a location / id column (LocationsNoId): the sites are the distinct (lat, lon, elev) triples of the rows (an absent
\* column or a missing value reads 0), however close together they lie.  Which numbers the program gives such sites is not
\* documented; the specification names a site by the rank of its triple in lexicographic order, and the conformance step matches
\* the sites it reads to these by their coordinates (the numbers themselves are not compared).
MetaOrZero(F, r, cls) == IF HasCol(F, cls) THEN (LET v == Cell(F, r, cls) IN IF IsNaN(v) THEN Zero ELSE v) ELSE Zero
RowSite(F, r) == <<MetaOrZero(F, r, "lat"), MetaOrZero(F, r, "lon"), MetaOrZero(F, r, "elev")>>
SiteLt(a, b) == Lt(a[1], b[1]) \/ (a[1] = b[1] /\ (Lt(a[2], b[2]) \/ (a[2] = b[2] /\ Lt(a[3], b[3]))))
LocationsNoId(F) == {RowSite(F, r) : r \in DOMAIN F.rows}
SiteRank(F, s) == 1 + Cardinality({q \in LocationsNoId(F) : SiteLt(q, s)})
RowId(F, r)   == IF HasCol(F, "id") THEN Num(Cell(F, r, "id")) ELSE SiteRank(F, RowSite(F, r))

Rows(F) == DOMAIN F.rows
\* the coordinates of every row, computed once
RC(F) == LET noid == ~HasCol(F, "id")
             \* (TLCEval: identity; it makes TLC tabulate the function now -- a function expression is otherwise re-evaluated at every application)
             rs == TLCEval([r \in Rows(F) |-> IF noid THEN RowSite(F, r) ELSE <<>>])
             rank(s) == 1 + Cardinality({q \in {rs[r] : r \in Rows(F)} : SiteLt(q, s)})
         IN  TLCEval([r \in Rows(F) |-> <<RowTime(F, r), RowLead(F, r), IF noid THEN rank(rs[r]) ELSE Num(Cell(F, r, "id"))>>])
RECURSIVE SortRSet(_)
SortRSet(S) == IF S = {} THEN <<>> ELSE LET m == CHOOSE x \in S : \A y \in S : Le(x, y) IN <<m>> \o SortRSet(S \ {m})
\* location metadata: what the FIRST row mentioning the id says (absent columns or missing values: 0)
FirstRowOf(rc, id) == CHOOSE r \in DOMAIN rc : rc[r][3] = id /\ \A q \in DOMAIN rc : rc[q][3] = id => r <= q
MetaCell(F, rc, id, cls) == IF HasCol(F, cls) THEN (LET v == Cell(F, FirstRowOf(rc, id), cls) IN IF IsNaN(v) THEN Zero ELSE v) ELSE Zero
Location(F, rc, id) == [id |-> id, lat |-> MetaCell(F, rc, id, "lat"), lon |-> MetaCell(F, rc, id, "lon"), elev |-> MetaCell(F, rc, id, "elev")]

\* the value of a column at coordinates: from the row with those coordinates (one row per combination; were there
\* several, the last one), else missing
RowAt(rc, c) == IF \E r \in DOMAIN rc : rc[r] = c THEN CHOOSE r \in DOMAIN rc : rc[r] = c /\ \A q \in DOMAIN rc : rc[q] = c => q <= r ELSE 0
ColOfNumber(F, cls, v) == CHOOSE k \in Col(F, cls) : NumeralVal(Tail(F.header[k])) = v

MetaValue(F, key) == IF \E m \in DOMAIN F.meta : F.meta[m].key = key
                     THEN F.meta[CHOOSE m \in DOMAIN F.meta : F.meta[m].key = key /\ \A q \in DOMAIN F.meta : F.meta[q].key = key => q <= m].value
                     ELSE "(default)"      \* the LAST line of a key wins

Parse(F) ==
  LET rc == RC(F)
      times == SortInts({rc[r][1] : r \in DOMAIN rc})
      leads == SortRSet({rc[r][2] : r \in DOMAIN rc})
      ids   == SortInts({rc[r][3] : r \in DOMAIN rc})
      coords == {<<t, l, id>> : t \in Elems(times), l \in Elems(leads), id \in Elems(ids)}
      rowAt == [c \in coords |-> RowAt(rc, c)]
      FieldOf(k) == [c \in coords |-> IF rowAt[c] = 0 THEN NaN ELSE Decode(F.rows[rowAt[c]][k])]
      numsOf(cls) == {NumeralVal(Tail(F.header[k])) : k \in Col(F, cls)}
  IN
  [times |-> times, leads |-> leads, ids |-> ids,
   locations |-> [n \in DOMAIN ids |-> Location(F, rc, ids[n])],
   hasObs |-> HasCol(F, "obs"), hasFcst |-> HasCol(F, "fcst"), hasPit |-> HasCol(F, "pit"),
   obs  |-> IF HasCol(F, "obs") THEN FieldOf(PickCol(F, "obs")) ELSE <<>>,
   fcst |-> IF HasCol(F, "fcst") THEN FieldOf(PickCol(F, "fcst")) ELSE <<>>,
   pit  |-> IF HasCol(F, "pit") THEN FieldOf(PickCol(F, "pit")) ELSE <<>>,
   thresholds |-> numsOf("threshold"), quantiles |-> numsOf("quantile"), members |-> numsOf("member"),
   cdf |-> [v \in numsOf("threshold") |-> FieldOf(ColOfNumber(F, "threshold", v))],
   x   |-> [v \in numsOf("quantile") |-> FieldOf(ColOfNumber(F, "quantile", v))],
   ens |-> [v \in numsOf("member") |-> FieldOf(ColOfNumber(F, "member", v))],
   others |-> {F.header[k] : k \in Col(F, "other")},
   other |-> [nm \in {F.header[k] : k \in Col(F, "other")} |-> FieldOf(CHOOSE k \in Col(F, "other") : F.header[k] = nm)],
   variable |-> [name |-> MetaValue(F, "variable"), units |-> MetaValue(F, "units"), x0 |-> MetaValue(F, "x0"), x1 |-> MetaValue(F, "x1")]]

\* Only the '# x0:' / '# x1:' lines give the variable a discrete mass: without the line there is none ("(default)" stands for "not set"
\* there; for the name and the units it stands for a default text that is not compared), whatever the variable is called.
NoMassWithoutLine(F) == \A key \in {"x0", "x1"} : (~\E m \in DOMAIN F.meta : F.meta[m].key = key) => Parse(F).variable[key] = "(default)"
\* ---- lemmas: the parsed Input does not depend on the order of columns or of rows ----
PermuteCols(F, perm) == [F EXCEPT !.header = [k \in DOMAIN F.header |-> F.header[perm[k]]],
                                  !.rows = [r \in DOMAIN F.rows |-> [k \in DOMAIN F.header |-> F.rows[r][perm[k]]]]]
PermuteRows(F, perm) == [F EXCEPT !.rows = [r \in DOMAIN F.rows |-> F.rows[perm[r]]]]
Reversal(n) == [k \in 1..n |-> n + 1 - k]
Rotation(n) == [k \in 1..n |-> (k % n) + 1]
OneRowPerCoordinate(F) == LET rc == RC(F) IN \A r, q \in Rows(F) : rc[r] = rc[q] => r = q
ConsistentMeta(F) == LET rc == RC(F) IN \A r, q \in Rows(F) : rc[r][3] = rc[q][3] =>
                        \A cls \in {"lat", "lon", "elev"} : HasCol(F, cls) => Cell(F, r, cls) = Cell(F, q, cls)
ColumnOrderInvariant(F) == /\ Parse(PermuteCols(F, Reversal(Len(F.header)))) = Parse(F)
                           /\ Parse(PermuteCols(F, Rotation(Len(F.header)))) = Parse(F)
RowOrderInvariant(F) == (OneRowPerCoordinate(F) /\ ConsistentMeta(F)) =>
                           /\ Parse(PermuteRows(F, Reversal(Len(F.rows)))) = Parse(F)
                           /\ Parse(PermuteRows(F, Rotation(Len(F.rows)))) = Parse(F)

---------------------------------------------------------------------------
(* The reader as the code has it (implementation-shaped): one pass over the rows that keeps a table of the location  *)
(* metadata first seen for every id and stores each data cell under the key (time, lead, id, lat, lon, elev), then a  *)
(* densification pass over sorted times x sorted lead times x locations.  TLC checks that it computes Parse(F).        *)
DataCols(F) == {k \in DOMAIN F.header : Class(F.header[k]) \in {"obs", "fcst", "pit", "threshold", "quantile", "member", "other"}}
RowLoc(F, r) == [id |-> 0,       \* (the id is filled in by the loop)
                 lat |-> IF HasCol(F, "lat") THEN (LET v == Cell(F, r, "lat") IN IF IsNaN(v) THEN Zero ELSE v) ELSE Zero,
                 lon |-> IF HasCol(F, "lon") THEN (LET v == Cell(F, r, "lon") IN IF IsNaN(v) THEN Zero ELSE v) ELSE Zero,
                 elev |-> IF HasCol(F, "elev") THEN (LET v == Cell(F, r, "elev") IN IF IsNaN(v) THEN Zero ELSE v) ELSE Zero]
RECURSIVE RowLoop(_, _, _, _)
RowLoop(F, rc, r, st) ==      \* st = [times, leads, locinfo (id -> location), cells (key -> row number that wrote it last)] ; rc = RC(F)
  IF r > Len(F.rows) THEN st
  ELSE LET id == rc[r][3]
           known == id \in DOMAIN st.locinfo
           loc == IF known THEN st.locinfo[id] ELSE [RowLoc(F, r) EXCEPT !.id = id]
           key == <<RowTime(F, r), RowLead(F, r), id, loc.lat, loc.lon, loc.elev>>
       IN  RowLoop(F, rc, r + 1, [times |-> st.times \cup {RowTime(F, r)}, leads |-> st.leads \cup {RowLead(F, r)},
                              locinfo |-> IF known THEN st.locinfo ELSE [j \in DOMAIN st.locinfo \cup {id} |-> IF j = id THEN loc ELSE st.locinfo[j]],
                              cells |-> [q \in DOMAIN st.cells \cup {key} |-> IF q = key THEN r ELSE st.cells[q]]])
EmptyLoopState == [times |-> {}, leads |-> {}, locinfo |-> <<>>, cells |-> <<>>]
LoopParse(F) ==
  LET st == RowLoop(F, RC(F), 1, EmptyLoopState)
      times == SortInts(st.times)  leads == SortRSet(st.leads)  ids == SortInts(DOMAIN st.locinfo)
      coords == {<<t, l, id>> : t \in Elems(times), l \in Elems(leads), id \in Elems(ids)}
      keyOf(c) == LET loc == st.locinfo[c[3]] IN <<c[1], c[2], c[3], loc.lat, loc.lon, loc.elev>>
      FieldOf(k) == [c \in coords |-> IF keyOf(c) \in DOMAIN st.cells THEN Decode(F.rows[st.cells[keyOf(c)]][k]) ELSE NaN]
  IN  [times |-> times, leads |-> leads, ids |-> ids, locations |-> [n \in DOMAIN ids |-> st.locinfo[ids[n]]],
       obs |-> IF HasCol(F, "obs") THEN FieldOf(PickCol(F, "obs")) ELSE <<>>,
       fcst |-> IF HasCol(F, "fcst") THEN FieldOf(PickCol(F, "fcst")) ELSE <<>>,
       pit |-> IF HasCol(F, "pit") THEN FieldOf(PickCol(F, "pit")) ELSE <<>>]
LoopRefinesParse(F) ==
  LET A == LoopParse(F)  B == Parse(F) IN
  A.times = B.times /\ A.leads = B.leads /\ A.ids = B.ids /\ A.locations = B.locations /\ A.obs = B.obs /\ A.fcst = B.fcst /\ A.pit = B.pit
=============================================================================
