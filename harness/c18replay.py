"""Spec -> code replay of DataImpl behaviours: request sequences on ONE real verif.data.Data object.
After every request: the result must equal Dataset!ExpectedArrays (history-free), every array returned
earlier must still equal its snapshot, and at the end the Input objects' arrays must be unchanged."""
import json
import numpy as np

from harness import dsreplay, materialize as mat
from harness.dsreplay import quiet, exc_site


def _same(a, b):
    return a.shape == b.shape and bool(np.all((a == b) | (np.isnan(a) & np.isnan(b))))


def _expected_ok(r, e, res):
    """res: list of arrays; e: list of expected flat arrays (row-major). Slice order is not part of the property."""
    if len(res) != len(e):
        return "expected %d arrays, got %d" % (len(e), len(res))
    exp = [np.array([mat.num(v) for v in arr], float) for arr in e]
    obs = [np.asarray(a, float).reshape(-1) for a in res]
    for k in range(len(exp)):
        if exp[k].shape != obs[k].shape:
            return "field %s: expected %d values %r, observed %d %r" % (r["f"][k], len(exp[k]), exp[k][:6].tolist(), len(obs[k]), obs[k][:6].tolist())
    if r["a"] == "all":
        for k in range(len(exp)):
            if not np.allclose(exp[k], obs[k], rtol=1e-9, atol=1e-12, equal_nan=True):
                return "field %s: expected %r observed %r" % (r["f"][k], exp[k].tolist(), obs[k].tolist())
        return None
    te = sorted(zip(*[x.tolist() for x in exp]), key=lambda t: [(-1e300 if v != v else v) for v in t])
    to = sorted(zip(*[x.tolist() for x in obs]), key=lambda t: [(-1e300 if v != v else v) for v in t])
    for a, b in zip(te, to):
        for x, y in zip(a, b):
            if not dsreplay.close(x, y):
                return "expected %r observed %r" % (te[:6], to[:6])
    return None


def pair(x):
    """float -> exact pair [n, d] of the specification (NaN = [0,0], +-inf = [+-1,0])"""
    from fractions import Fraction
    x = float(x)
    if x != x:
        return [0, 0]
    if x in (float("inf"), float("-inf")):
        return [1 if x > 0 else -1, 0]
    f = Fraction(x).limit_denominator(10 ** 6)
    return [f.numerator, f.denominator]


def absval_pair(v):
    if v in ("nan", None):
        return [0, 0]
    if v == "inf":
        return [1, 0]
    if v == "-inf":
        return [-1, 0]
    if isinstance(v, list):
        return v
    return [int(v), 1]


def input_pairs(inp):
    o = dict(inp)
    o["obs"] = [absval_pair(v) for v in inp["obs"]]
    o["fcst"] = [absval_pair(v) for v in inp["fcst"]]
    return o


AXIS = {"All": "all", "No": "no", "Time": "time", "Leadtime": "leadtime", "Location": "location"}


def build_trace(obj, events, results):
    """hook events of ONE Data object + the values the harness projected after each call -> a trace for Trace_DataImpl"""
    ids = {}

    def rid(x):
        if x not in ids:
            ids[x] = len(ids) + 1
        return ids[x]

    calls, steps = [], []
    for e in events:
        if e["ev"] == "Load":
            steps.append({"ev": "Load", "field": e["field"].lower(), "ids": [rid(i) for i in e["ids"]], "propagated": 0})
        elif e["ev"] == "Propagate":
            if steps and steps[-1]["ev"] == "Load" and steps[-1]["field"] == e["field"].lower():
                steps[-1]["propagated"] = e["changed"]
        elif e["ev"] == "ObsRange":
            steps.append({"ev": "ObsRange", "input": e["input"] + 1, "masked": e["masked"], "field": "obs", "ids": [], "propagated": 0})
        elif e["ev"] == "GetScores":
            calls.append({"ev": "GetScores", "fields": [f.lower() for f in e["fields"]], "input": e["input"] + 1,
                          "axis": AXIS.get(e["axis"], e["axis"].lower()),
                          "index": 1 if e["index"] is None else e["index"] + 1, "hit": e["hit"],
                          "ids": [rid(i) for i in e["ids"]],
                          "steps": [dict(s, input=s.get("input", 0), masked=s.get("masked", 0)) for s in steps]})
            steps = []
    if len(calls) != len(results):
        return None
    for c, vals in zip(calls, results):
        c["values"] = [[pair(v) for v in np.asarray(a, float).reshape(-1)] for a in vals]
    o = obj["opts"]
    opts = dict(o)
    opts["obsrange"] = [absval_pair(v) for v in o["obsrange"]]
    return {"inputs": [input_pairs(i) for i in obj["inputs"]], "hasClim": obj["hasClim"], "clim": input_pairs(obj["clim"]),
            "climType": obj["climType"], "opts": opts, "events": calls}


def check_group(job):
    try:
        return _check_group(job)
    finally:
        dsreplay.LEVELS_SINGLE_PRECISION = False


def _check_group(job):
    """job = (dataset obj (no seq), list of sequences, fmt[, record]). Returns dict(n, traces, divs, recorded)."""
    import os
    record = len(job) > 3 and job[3]
    perturb = len(job) > 4 and job[4]      # calls outside the model made before every modelled request (they must not matter)
    obj, seqs, fmt = job[0], job[1], job[2]
    variant = job[5] if len(job) > 5 else None      # how the files are written (e.g. NetCDF missing values as a _FillValue of the file's own)
    out = {"n": 0, "traces": 0, "divs": [], "recorded": []}
    tracefile = None
    if record:
        from harness import par
        tracefile = os.path.join(par.workdir(), "hook.ndjson")
        os.environ["VERIF_TLA_TRACE"] = tracefile
    base = {"kind": "history", "format": fmt, "dataset": obj}

    def div(site, detail, seq, step):
        rep = dict(base)
        rep["seq"] = seq
        rep["step"] = step
        out["divs"].append((site, detail, rep))

    dsreplay.LEVELS_SINGLE_PRECISION = fmt == "netcdf"
    try:
        with quiet():
            inputs, clim = dsreplay.load(obj, fmt, variant)
    except BaseException as e:
        div(exc_site(e) if isinstance(e, Exception) else "load:error-exit", "loading: %r" % (e,), None, 0)
        return out
    snaps = [(i, name, np.array(getattr(i, name), float)) for i in inputs + ([clim] if clim else [])
             for name in ("obs", "fcst", "ensemble") if getattr(i, name, None) is not None] if fmt == "text" else []
    for seq in seqs:
        out["traces"] += 1
        results = []
        if tracefile:
            open(tracefile, "w").close()
        try:
            with quiet():
                data = dsreplay.make_data(obj, inputs, clim)
            handed = []
            for q, step in enumerate(seq):
                r = step["r"]
                if perturb == "quantile-from-ensemble":
                    import verif.field
                    import verif.axis
                    with quiet():       # a quantile level the files do not store: computed from the ensemble members
                        data.get_scores(verif.field.Quantile(0.3), (q % 2), verif.axis.Leadtime(), 0)
                with quiet():
                    res = dsreplay.do_request(data, r)
                out["n"] += 1
                results.append([np.array(a, float) for a in res])
                msg = _expected_ok(r, step["e"], res) if "e" in step else None      # random sequences: TLC judges the values (trace validation)
                if msg:
                    div("history:result", "after %s, request %s: %s" % ([s["r"] for s in seq[:q]], r, msg), seq, q)
                    break
                bad = False
                for (qq, k, arr, snap) in handed:
                    out["n"] += 1
                    if not _same(np.asarray(arr, float), snap):
                        div("history:earlier-altered", "array %d returned by step %d (%s) was altered by step %d (%s): %r -> %r"
                            % (k, qq, seq[qq]["r"], q, r, snap.reshape(-1).tolist(), np.asarray(arr, float).reshape(-1).tolist()), seq, q)
                        bad = True
                        break
                if bad:
                    break
                for k, a in enumerate(res):
                    handed.append((q, k, a, np.array(a, float)))
        except SystemExit:
            div("history:error-exit", "sequence %s ended in an error exit" % ([s["r"] for s in seq],), seq, None)
        except Exception as e:
            div(exc_site(e), "sequence %s: %r" % ([s["r"] for s in seq], e), seq, None)
        if tracefile:
            with open(tracefile) as f:
                events = [json.loads(x) for x in f if x.strip()]
            tr = build_trace(obj, events, results) if events else None
            out["recorded"].append(tr if tr else {"nohooks": True})
    if tracefile:
        os.environ.pop("VERIF_TLA_TRACE", None)
    for (i, name, snap) in snaps:
        out["n"] += 1
        if not _same(np.array(getattr(i, name), float), snap):
            div("history:input-modified", "input %s.%s was modified by get_scores" % (i.fullname, name), None, None)
    return out


def group(emitted, per_group=400):
    groups = {}
    for o in emitted:
        ds = {k: o[k] for k in o if k != "seq"}
        key = json.dumps(ds, sort_keys=True)
        groups.setdefault(key, (ds, []))[1].append(o["seq"])
    jobs = []
    for ds, seqs in groups.values():
        for i in range(0, len(seqs), per_group):
            jobs.append((ds, seqs[i:i + per_group]))
    return jobs
