SPECIFICATION Spec
CONSTANT Family = "C18Ens"
INVARIANT InvOneSeriesPerInput
INVARIANT InvBins
CHECK_DEADLOCK FALSE
