------------------------------- MODULE Events -------------------------------
(* C07: the eight bin types (-b) as events, written from the documentation:  *)
(*   below: x < t    below=: x <= t    above: x > t    above=: x >= t         *)
(*   within / =within / within= / =within= : between consecutive thresholds,  *)
(*   with the end carrying '=' closed.                                        *)
(* Values are Rat pairs (NaN, +-inf included); a missing value is in no event.*)
EXTENDS Rat

BinTypes == {"below", "below=", "above", "above=", "within", "=within", "within=", "=within="}
WithinTypes == {"within", "=within", "within=", "=within="}
LowerClosed(bt) == bt \in {"above=", "=within", "=within="}
UpperClosed(bt) == bt \in {"below=", "within=", "=within="}

\* (1) the documented definition, by cases
InEvent(bt, x, t, u) ==
  /\ ~IsNaN(x)
  /\ CASE bt = "below"    -> Lt(x, t)
       [] bt = "below="   -> Le(x, t)
       [] bt = "above"    -> Gt(x, t)
       [] bt = "above="   -> Ge(x, t)
       [] bt = "within"   -> Gt(x, t) /\ Lt(x, u)
       [] bt = "=within"  -> Ge(x, t) /\ Lt(x, u)
       [] bt = "within="  -> Gt(x, t) /\ Le(x, u)
       [] bt = "=within=" -> Ge(x, t) /\ Le(x, u)

\* (2) as intervals: -b type + -r thresholds -> one event per threshold (below*/above*) or per consecutive pair (within*)
\* an infinite end is closed (every non-missing value is >= -inf and <= +inf)
Interval(bt, lo, hi) == [lo |-> lo, hi |-> hi, lc |-> LowerClosed(bt) \/ lo = MInf, uc |-> UpperClosed(bt) \/ hi = PInf]
Intervals(bt, ths) ==
  IF bt \in {"below", "below="} THEN [k \in 1..Len(ths) |-> Interval(bt, MInf, ths[k])]
  ELSE IF bt \in {"above", "above="} THEN [k \in 1..Len(ths) |-> Interval(bt, ths[k], PInf)]
  ELSE [k \in 1..(Len(ths) - 1) |-> Interval(bt, ths[k], ths[k + 1])]
In(iv, x) == /\ ~IsNaN(x)
             /\ (Gt(x, iv.lo) \/ (iv.lc /\ x = iv.lo))
             /\ (Lt(x, iv.hi) \/ (iv.uc /\ x = iv.hi))
Center(iv) == IF iv.lo = MInf /\ iv.hi = PInf THEN Zero ELSE IF iv.lo = MInf THEN iv.hi ELSE IF iv.hi = PInf THEN iv.lo
              ELSE Div(Add(iv.lo, iv.hi), R(2))

\* (3) binary thresholding of a value: 1 / 0, missing stays missing
Binary(bt, x, t, u) == IF IsNaN(x) THEN NaN ELSE IF InEvent(bt, x, t, u) THEN One ELSE Zero

\* (4) probability of the event from cumulative probabilities P(X <= threshold): P(X<=upper) - P(X<=lower),
\*     with 1 and 0 at the infinite ends (the documented rule; it does not distinguish open from closed ends)
ProbOfEvent(bt, cdfLo, cdfHi) ==
  IF bt \in {"below", "below="} THEN cdfLo
  ELSE IF bt \in {"above", "above="} THEN Sub(One, cdfLo)
  ELSE Sub(cdfHi, cdfLo)

---------------------------------------------------------------------------
(* Lemmas (checked by TLC on every enumerated placement; the order core also by Apalache over unbounded Int) *)
StrictlyIncreasing(ths) == \A k \in 1..(Len(ths) - 1) : Lt(ths[k], ths[k + 1])
\* consecutive within= events are disjoint and jointly cover (first, last]
PartitionWithinEq(ths, x) ==
  (Len(ths) >= 2 /\ StrictlyIncreasing(ths) /\ ~IsNaN(x)) =>
     LET ivs == Intervals("within=", ths)
         hits == {k \in DOMAIN ivs : In(ivs[k], x)}
     IN  /\ Cardinality(hits) <= 1
         /\ (Cardinality(hits) = 1 <=> (Gt(x, ths[1]) /\ Le(x, ths[Len(ths)])))
\* above is the complement of below= (and above= of below) on non-missing values
Complement(x, t) == ~IsNaN(x) => /\ (InEvent("above", x, t, t) <=> ~InEvent("below=", x, t, t))
                                 /\ (InEvent("above=", x, t, t) <=> ~InEvent("below", x, t, t))
NaNInNoEvent(t, u) == \A bt \in BinTypes : ~InEvent(bt, NaN, t, u) /\ \A k \in DOMAIN Intervals(bt, <<t, u>>) : ~In(Intervals(bt, <<t, u>>)[k], NaN)
\* the formulations agree
Agree(bt, x, t, u) == /\ InEvent(bt, x, t, u) <=> In(Intervals(bt, <<t, u>>)[1], x)
                      /\ Binary(bt, x, t, u) = (IF IsNaN(x) THEN NaN ELSE IF In(Intervals(bt, <<t, u>>)[1], x) THEN One ELSE Zero)
\* for a point mass at x, cdf(t) = [x <= t]; the CDF rule gives the probability of the (lower, upper] version of the event
PointCdf(x, t) == IF Le(x, t) THEN One ELSE Zero
ProbIsHalfOpenEvent(bt, x, t, u) ==
  (~IsNaN(x) /\ Le(t, u)) =>
     LET halfopen == IF bt \in {"below", "below="} THEN "below=" ELSE IF bt \in {"above", "above="} THEN "above" ELSE "within="
     IN  ProbOfEvent(bt, PointCdf(x, t), PointCdf(x, u)) = (IF InEvent(halfopen, x, t, u) THEN One ELSE Zero)
=============================================================================
