SPECIFICATION Spec
CONSTANTS Kind = "cli"
          K = 1
          Family = "none"
INVARIANT InvVector
INVARIANT InvOrderIndependent
CHECK_DEADLOCK FALSE
