-------------------------------- MODULE Expr --------------------------------
(* Expression trees over exact rationals, for results that involve a square   *)
(* root, cube root, logarithm, exponential or the normal quantile.  The case   *)
(* analysis (defined / undefined, which branch, perfect value, bounds) is      *)
(* decided in TLA+ on the rational arguments; only the final transcendental    *)
(* is evaluated by the harness (harness/expr.py, Python's math module).        *)
(* The smart constructors fold constants, so a result that IS rational         *)
(* (e.g. the correlation of a vector with itself) comes out as Q(value).       *)
EXTENDS Rat

Q(x) == [op |-> "q", v |-> x]
IsQ(e) == e.op = "q"
Undef == [op |-> "undef", v |-> NaN]       \* the definition does not apply: NaN or a non-finite value is acceptable
IsUndef(e) == e.op = "undef"
NaNE == Q(NaN)
AnyE == [op |-> "any", v |-> NaN]          \* a value the definition does not constrain (e.g. the abscissa of an undrawn point)

\* exact square root of a rational whose numerator and denominator are perfect squares, else <<>>
SqrtBound(n) == IF n < 317 THEN n ELSE 317          \* 317^2 > 100000, the largest radicand simplified; keeps r * r inside 32 bits
IntSqrt(n) == IF \E r \in 0..SqrtBound(n) : r * r = n THEN CHOOSE r \in 0..SqrtBound(n) : r * r = n ELSE -1
HasExactSqrt(x) == IsFinite(x) /\ x[1] >= 0 /\ x[1] <= 100000 /\ x[2] <= 100000 /\ IntSqrt(x[1]) >= 0 /\ IntSqrt(x[2]) >= 0

Un(op, a) == IF IsUndef(a) THEN Undef ELSE [op |-> op, a |-> a]
Bin(op, a, b) == IF IsUndef(a) \/ IsUndef(b) THEN Undef ELSE [op |-> op, a |-> a, b |-> b]

IsZeroQ(e) == IsQ(e) /\ e.v = Zero
AddE(a, b) == IF IsQ(a) /\ IsQ(b) THEN Q(Add(a.v, b.v)) ELSE IF IsZeroQ(a) THEN b ELSE IF IsZeroQ(b) THEN a ELSE Bin("add", a, b)
SubE(a, b) == IF IsQ(a) /\ IsQ(b) THEN Q(Sub(a.v, b.v)) ELSE IF IsZeroQ(b) THEN a ELSE Bin("sub", a, b)
MulE(a, b) == IF IsQ(a) /\ IsQ(b) THEN Q(Mul(a.v, b.v)) ELSE Bin("mul", a, b)
\* x / x = 1 for a non-constant x (callers guarantee x # 0: logarithms of rationals other than 1, roots of positives)
DivE(a, b) == IF IsQ(a) /\ IsQ(b) THEN Q(Div(a.v, b.v)) ELSE IF ~IsUndef(a) /\ ~IsQ(a) /\ a = b THEN Q(One) ELSE Bin("div", a, b)
SqE(a)     == MulE(a, a)
AbsE(a)    == IF IsQ(a) THEN Q(IF IsNaN(a.v) THEN NaN ELSE AbsR(a.v)) ELSE Un("abs", a)
SqrtE(a)   == IF IsQ(a) /\ HasExactSqrt(a.v) THEN Q(Frac(IntSqrt(a.v[1]), IntSqrt(a.v[2])))
              ELSE IF IsQ(a) /\ (IsNaN(a.v) \/ Lt(a.v, Zero)) THEN NaNE
              ELSE Un("sqrt", a)
\* the cube root is held to its definition for non-negative radicands only (a negative one arises only from
\* meaningless combinations such as -agg change; NaN is acceptable there)
CbrtE(a)   == IF IsQ(a) /\ a.v = Zero THEN Q(Zero) ELSE IF IsQ(a) /\ a.v = One THEN Q(One)
              ELSE IF IsQ(a) /\ (IsNaN(a.v) \/ Lt(a.v, Zero)) THEN Undef ELSE Un("cbrt", a)
LogE(a)    == IF IsQ(a) /\ a.v = One THEN Q(Zero) ELSE Un("log", a)
ExpE(a)    == IF IsQ(a) /\ a.v = Zero THEN Q(One) ELSE Un("exp", a)
Log2E(a)   == IF IsQ(a) /\ a.v = One THEN Q(Zero) ELSE Un("log2", a)
NormPpfE(a) == Un("normppf", a)

RECURSIVE SumE(_)
SumE(s) == IF s = <<>> THEN Q(Zero) ELSE AddE(Head(s), SumE(Tail(s)))
=============================================================================
