SPECIFICATION Spec
CONSTANT Kind = "exp"
INVARIANT InvAccIsPreAgg
INVARIANT InvCdfMonotone
INVARIANT InvPitRange
INVARIANT InvExpandSound
CHECK_DEADLOCK FALSE
