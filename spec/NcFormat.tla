------------------------------ MODULE NcFormat ------------------------------
(* C10 / C04: the documented NetCDF layout as a relation NcParse(file) = Input *)
(* (the same Input record as TextFormat!Parse), and an encoder from an Input    *)
(* to a file with a chosen dimension order and missing-value encoding.          *)
(*                                                                              *)
(* A file is [time, leadtime, location, lat, lon, altitude : sequences in FILE   *)
(*   order; hasLocationVar, hasLatLon, hasAltitude : BOOLEAN;                    *)
(*   vars : [name -> [<<i, j, k>> -> Stored]]   for obs, fcst, pit, other fields *)
(*   thresholds, quantiles : sequences; nmembers;                                *)
(*   cdf, x, ens : [<<i, j, k, n>> -> Stored] ; attrs : [name, units, x0, x1]]   *)
(* Stored == [kind, v] with kind in                                              *)
(*   "val" (a number), "fill" (_FillValue), "masked", "m999" (-999), "nan",      *)
(*   "big" (a value above 1e30)                                                  *)
EXTENDS TextFormat

MissingKinds == {"fill", "masked", "m999", "nan", "big"}
DecodeNc(s) == IF s.kind \in MissingKinds \/ s.v = R(-999) THEN NaN ELSE s.v

FirstIdx(seq, v) == CHOOSE i \in DOMAIN seq : seq[i] = v /\ \A j \in 1..(i - 1) : seq[j] # v
NcIds(N) == IF N.hasLocationVar THEN N.location ELSE [k \in DOMAIN N.location |-> k - 1]
NcField(N, var) ==
  LET ids == NcIds(N)
      coords == {<<t, l, s>> : t \in Elems(N.time), l \in Elems(N.leadtime), s \in Elems(ids)}
  IN  [c \in coords |-> DecodeNc(var[<<FirstIdx(N.time, c[1]), FirstIdx(N.leadtime, c[2]), FirstIdx(ids, c[3])>>])]
NcField4(N, var, n) ==
  LET ids == NcIds(N)
      coords == {<<t, l, s>> : t \in Elems(N.time), l \in Elems(N.leadtime), s \in Elems(ids)}
  IN  [c \in coords |-> DecodeNc(var[<<FirstIdx(N.time, c[1]), FirstIdx(N.leadtime, c[2]), FirstIdx(ids, c[3]), n>>])]

NcParse(N) ==
  LET ids == NcIds(N)  sid == SortInts(Elems(ids)) IN
  [times |-> SortInts(Elems(N.time)), leads |-> SortRSet(Elems(N.leadtime)), ids |-> sid,
   locations |-> [n \in DOMAIN sid |-> LET k == FirstIdx(ids, sid[n]) IN
                    [id |-> sid[n], lat |-> IF N.hasLatLon THEN N.lat[k] ELSE Zero, lon |-> IF N.hasLatLon THEN N.lon[k] ELSE Zero,
                     elev |-> IF N.hasAltitude THEN N.altitude[k] ELSE NaN]],
   hasObs |-> "obs" \in DOMAIN N.vars, hasFcst |-> "fcst" \in DOMAIN N.vars, hasPit |-> "pit" \in DOMAIN N.vars,
   obs  |-> IF "obs" \in DOMAIN N.vars THEN NcField(N, N.vars["obs"]) ELSE <<>>,
   fcst |-> IF "fcst" \in DOMAIN N.vars THEN NcField(N, N.vars["fcst"]) ELSE <<>>,
   pit  |-> IF "pit" \in DOMAIN N.vars THEN NcField(N, N.vars["pit"]) ELSE <<>>,
   thresholds |-> Elems(N.thresholds), quantiles |-> Elems(N.quantiles), members |-> {R(m - 1) : m \in 1..N.nmembers},
   cdf |-> [v \in Elems(N.thresholds) |-> NcField4(N, N.cdf, FirstIdx(N.thresholds, v))],
   x   |-> [v \in Elems(N.quantiles) |-> NcField4(N, N.x, FirstIdx(N.quantiles, v))],
   ens |-> [v \in {R(m - 1) : m \in 1..N.nmembers} |-> NcField4(N, N.ens, Num(v) + 1)],
   others |-> DOMAIN N.vars \ {"obs", "fcst", "pit"},
   other |-> [nm \in DOMAIN N.vars \ {"obs", "fcst", "pit"} |-> NcField(N, N.vars[nm])],
   variable |-> N.attrs]

\* ---- encoder: Input -> file, with a dimension order and a missing-value encoding per cell ----
OrderSeq(seq, o) == IF o = "rev" THEN [k \in DOMAIN seq |-> seq[Len(seq) + 1 - k]] ELSE seq
Stored(v, enc, n) ==      \* n: running cell number, used by the "mix" encoding
  IF ~IsNaN(v) THEN [kind |-> "val", v |-> v]
  ELSE [kind |-> IF enc = "mix" THEN <<"fill", "masked", "m999", "nan", "big">>[(n % 5) + 1] ELSE enc, v |-> NaN]
EncodeNc(I, enc, order, names) ==     \* names: other-field name (char seq) -> variable name (string)
  LET T == OrderSeq(I.times, order)  L == OrderSeq(I.leads, order)  S == OrderSeq(I.ids, order)
      pos3 == {<<i, j, k>> : i \in DOMAIN T, j \in DOMAIN L, k \in DOMAIN S}
      cell(p) == <<T[p[1]], L[p[2]], S[p[3]]>>
      nr(p) == (p[1] * 7 + p[2] * 3 + p[3])
      var3(fn) == [p \in pos3 |-> Stored(fn[cell(p)], enc, nr(p))]
      ths == SortRSet(I.thresholds)  qs == SortRSet(I.quantiles)  ms == SortRSet(I.members)
      var4(f, levels) == [p \in {<<q[1], q[2], q[3], n>> : q \in pos3, n \in DOMAIN levels} |->
                            Stored(f[levels[p[4]]][cell(<<p[1], p[2], p[3]>>)], enc, nr(p) + p[4])]
      locOf(id) == I.locations[CHOOSE n \in DOMAIN I.ids : I.ids[n] = id]
      base == (IF I.hasObs THEN [v \in {"obs"} |-> var3(I.obs)] ELSE <<>>)
  IN
  [time |-> T, leadtime |-> L, location |-> S,
   lat |-> [k \in DOMAIN S |-> locOf(S[k]).lat], lon |-> [k \in DOMAIN S |-> locOf(S[k]).lon],
   altitude |-> [k \in DOMAIN S |-> locOf(S[k]).elev],
   hasLocationVar |-> TRUE, hasLatLon |-> TRUE, hasAltitude |-> TRUE,
   vars |-> [nm \in (IF I.hasObs THEN {"obs"} ELSE {}) \cup (IF I.hasFcst THEN {"fcst"} ELSE {}) \cup (IF I.hasPit THEN {"pit"} ELSE {})
                    \cup {names[o] : o \in I.others} |->
               IF nm = "obs" THEN var3(I.obs) ELSE IF nm = "fcst" THEN var3(I.fcst) ELSE IF nm = "pit" THEN var3(I.pit)
               ELSE var3(I.other[CHOOSE o \in I.others : names[o] = nm])],
   thresholds |-> ths, quantiles |-> qs, nmembers |-> Len(ms),
   cdf |-> var4(I.cdf, ths), x |-> var4(I.x, qs), ens |-> var4(I.ens, ms),
   attrs |-> I.variable]

\* the round trip, up to the renaming of other fields and the member numbering 0..n-1
SameCore(A, B) == /\ A.times = B.times /\ A.leads = B.leads /\ A.ids = B.ids /\ A.locations = B.locations
                  /\ A.hasObs = B.hasObs /\ A.hasFcst = B.hasFcst /\ A.hasPit = B.hasPit
                  /\ A.obs = B.obs /\ A.fcst = B.fcst /\ A.pit = B.pit
                  /\ A.thresholds = B.thresholds /\ A.quantiles = B.quantiles /\ A.cdf = B.cdf /\ A.x = B.x
                  /\ Cardinality(A.members) = Cardinality(B.members) /\ Cardinality(A.others) = Cardinality(B.others)
RoundTrip(I, enc, order, names) == SameCore(NcParse(EncodeNc(I, enc, order, names)), I)
=============================================================================
