SPECIFICATION Spec
CONSTANT Universe = "len4"
INVARIANT InvPerfectAttains
INVARIANT InvPerfectAgg
INVARIANT InvNeverBetter
INVARIANT InvAggConsistency
INVARIANT InvOrder
INVARIANT InvShift
INVARIANT InvScale
CHECK_DEADLOCK FALSE
