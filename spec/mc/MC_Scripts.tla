------------------------------ MODULE MC_Scripts ------------------------------
(* C20: inputs and options of accumulate / ens2prob / expandverif, with the    *)
(* expected content of the NetCDF file each script writes.                      *)
EXTENDS Scripts, TLC, Json, SequencesExt
CONSTANT Kind
VARIABLES c, phase
vars == <<c, phase>>
J(x) == IF IsNaN(x) THEN "nan" ELSE IF IsInf(x) THEN (IF x[1] > 0 THEN "inf" ELSE "-inf") ELSE IF x[2] = 1 THEN x[1] ELSE x
Day1 == 1325376000
Pos(nt, nl, ns) == {<<i, j, k>> : i \in 1..nt, j \in 1..nl, k \in 1..ns}
FlatJ(C, nt, nl, ns) == [n \in 1..(nt * nl * ns) |-> J(C[<<((n - 1) \div (ns * nl)) + 1, (((n - 1) \div ns) % nl) + 1, ((n - 1) % ns) + 1>>])]

\* ---- accumulate ----
ANT == 3  ANL == 4  ANS == 1
AObs(mo) == [p \in Pos(ANT, ANL, ANS) |-> IF p \in mo THEN NaN ELSE R(p[1] * 3 + p[2] * p[2] - 2)]
AFc(mf)  == [p \in Pos(ANT, ANL, ANS) |-> IF p \in mf THEN NaN ELSE Frac(p[1] + 2 * p[2], 2)]
AccCases(u) == {[kind |-> "acc", mo |-> mo, mf |-> mf, w |-> w, axis |-> ax, ignore |-> ig] :
                  mo \in {{}, {<<1, 2, 1>>}, {<<1, 1, 1>>}, {<<2, 3, 1>>, <<2, 4, 1>>}}, mf \in {{}, {<<1, 3, 1>>}},
                  w \in 0..5, ax \in {"leadtime", "time"}, ig \in BOOLEAN}
AccErr(x) == x.w > (IF x.axis = "leadtime" THEN ANL ELSE ANT)

\* ---- ens2prob ----
EnsV == {R(0), Frac(7, 10), R(1), R(2), NaN}          \* 0.7 has no exact binary representation: ties must stay ties in any precision
EnsOf(m) == IF m = 1 THEN {<<a>> : a \in EnsV} ELSE IF m = 2 THEN {<<a, b>> : a \in EnsV, b \in EnsV} ELSE {<<a, b, d>> : a \in EnsV, b \in EnsV, d \in EnsV}
ThsInc == <<R(0), R(1), Frac(3, 2), R(2)>>
ThsMixed == <<Frac(3, 2), R(0), R(2), R(1)>>                 \* thresholds need not be given in increasing order
EnsCases(u) == {[kind |-> "ens", ens |-> e, obs |-> o, m |-> Len(e), ths |-> t] : e \in EnsOf(1) \cup EnsOf(2) \cup EnsOf(3),
                  o \in {R(0), Frac(7, 10), R(1), Frac(3, 2), R(3), NaN}, t \in {ThsInc, ThsMixed}}
Ths == c.ths
Lvs == <<Zero, Frac(1, 4), Frac(1, 2), One>>
Other(m) == IF m = 1 THEN <<R(1)>> ELSE IF m = 2 THEN <<R(2), R(0)>> ELSE <<R(1), R(2), R(0)>>      \* second cell: a complete ensemble

\* ---- expandverif ----
\* grid 1: runs every 12 h with lead times 0, 12, 24; grid 2: daily runs whose lead times reach beyond the next run and are unevenly
\* spaced (0, 12, 24, 36, 48, 72): the valid times of consecutive runs interleave
\* grid 3: five daily runs with lead times coarsening out to 120 h
\* grid 4: hourly runs with lead times in HALF hours (0, 0.5, 1, 1.5, 2 h): the valid times 1 h and 1.5 h after a run are different times
LUnit(g) == IF g = 4 THEN 1800 ELSE 3600
XTg(g) == IF g = 4 THEN <<Day1, Day1 + 3600, Day1 + 7200>> ELSE IF g = 1 THEN <<Day1, Day1 + 43200, Day1 + 86400>> ELSE IF g = 2 THEN <<Day1, Day1 + 86400, Day1 + 172800>>
          ELSE [k \in 1..5 |-> Day1 + 86400 * (k - 1)]
XLg(g) == IF g = 4 THEN <<0, 1, 2, 3, 4>> ELSE IF g = 1 THEN <<0, 12, 24>> ELSE IF g = 2 THEN <<0, 12, 24, 36, 48, 72>> ELSE <<0, 12, 24, 36, 48, 72, 96, 120>>
XObs(g, mo) == [p \in Pos(Len(XTg(g)), Len(XLg(g)), 2) |-> IF <<p[1], p[2]>> \in mo THEN NaN
                  ELSE IF g = 4 THEN R(((XTg(g)[p[1]] - Day1) \div 1800) + XLg(g)[p[2]] + 100 * p[3])
                  ELSE R(((XTg(g)[p[1]] - Day1) \div 43200) + (XLg(g)[p[2]] \div 12) + 100 * p[3])]   \* a function of valid time and location
ExpCases(u) == {[kind |-> "exp", grid |-> 1, times |-> ts, mo |-> mo, hours |-> h, oleads |-> ol] :
                  ts \in {<<1, 2, 3>>, <<1, 3>>, <<2>>}, mo \in {{}, {<<1, 1>>}, {<<1, 2>>, <<2, 1>>}},
                  h \in {<<0>>, <<0, 12>>, <<6>>}, ol \in {<<0, 12>>, <<0, 24, 36>>, <<6>>, <<12, 0>>}}
         \cup {[kind |-> "exp", grid |-> 2, times |-> ts, mo |-> mo, hours |-> h, oleads |-> ol] :
                  ts \in {<<1, 2, 3>>, <<1, 3>>}, mo \in {{}, {<<1, 4>>, <<2, 1>>}},
                  h \in {<<0>>, <<0, 12>>}, ol \in {<<0, 12, 24, 36, 48, 72>>, <<0, 24, 60>>}}
ExpCases3(u) == {[kind |-> "exp", grid |-> 3, times |-> <<1, 2, 3, 4, 5>>, mo |-> mo, hours |-> h, oleads |-> ol] :
                   mo \in {{}, {<<1, 4>>, <<2, 1>>}}, h \in {<<0, 12>>, <<0>>}, ol \in {<<0, 12, 24, 36, 48, 72, 96, 120>>, <<0, 60, 84>>}}
ExpCases4(u) == {[kind |-> "exp", grid |-> 4, times |-> ts, mo |-> mo, hours |-> h, oleads |-> ol] :
                   ts \in {<<1, 2, 3>>, <<1, 3>>}, mo \in {{}, {<<1, 4>>, <<2, 1>>}}, h \in {<<0>>, <<0, 1>>, <<2>>}, ol \in {<<0, 1, 2, 3, 4>>, <<3>>, <<1, 5>>, <<2, 3>>}}
\* ---- window: two runs x four unevenly spaced lead times x two locations; amounts 0, 1, 2 or missing ----
WLeads == <<0, 6, 12, 24>>
WVals == {Zero, R(1), R(2), NaN}
Rev(s) == [k \in DOMAIN s |-> s[Len(s) + 1 - k]]
WinCases(u) == {[kind |-> "win", s |-> <<a, b, cc, d>>, bt |-> bt, thr |-> t] : a \in WVals, b \in WVals, cc \in WVals, d \in WVals,
                   bt \in WindowTypes, t \in {Zero, R(1), Frac(5, 2)}}
\* observations: the series (run 1, location 1), reversed (run 2, location 1), all zero / all one at location 2; forecasts: the other way round
WObs(x) == [p \in Pos(2, 4, 2) |-> IF p[3] = 1 THEN (IF p[1] = 1 THEN x.s[p[2]] ELSE Rev(x.s)[p[2]]) ELSE (IF p[1] = 1 THEN Zero ELSE R(1))]
WFc(x)  == [p \in Pos(2, 4, 2) |-> IF p[3] = 1 THEN (IF p[1] = 2 THEN x.s[p[2]] ELSE Rev(x.s)[p[2]]) ELSE (IF p[1] = 2 THEN Zero ELSE R(1))]
SubT(c1) == [k \in DOMAIN c1.times |-> XTg(c1.grid)[c1.times[k]]]
SubObs(c1) == [p \in Pos(Len(c1.times), Len(XLg(c1.grid)), 2) |-> XObs(c1.grid, c1.mo)[<<c1.times[p[1]], p[2], p[3]>>]]

Cases(u) == IF Kind = "acc" THEN AccCases(u) ELSE IF Kind = "ens" THEN EnsCases(u) ELSE IF Kind = "win" THEN WinCases(u) ELSE ExpCases(u) \cup ExpCases3(u) \cup ExpCases4(u)

Emit ==
  CASE c.kind = "acc" ->
        PrintT(ToJson([kind |-> "acc", times |-> <<Day1, Day1 + 86400, Day1 + 172800>>, leads |-> <<0, 6, 12, 18>>, locs |-> <<5>>,
                       obs |-> FlatJ(AObs(c.mo), ANT, ANL, ANS), fcst |-> FlatJ(AFc(c.mf), ANT, ANL, ANS),
                       w |-> c.w, axis |-> c.axis, ignore |-> c.ignore, err |-> AccErr(c),
                       eobs |-> IF AccErr(c) THEN <<>> ELSE FlatJ(Accumulate(AObs(c.mo), ANT, ANL, ANS, c.w, c.axis, c.ignore), ANT, ANL, ANS),
                       efcst |-> IF AccErr(c) THEN <<>> ELSE FlatJ(Accumulate(AFc(c.mf), ANT, ANL, ANS, c.w, c.axis, c.ignore), ANT, ANL, ANS)]))
    [] c.kind = "ens" ->
        PrintT(ToJson([kind |-> "ens", ens |-> <<[k \in DOMAIN c.ens |-> J(c.ens[k])], [k \in DOMAIN Other(c.m) |-> J(Other(c.m)[k])]>>,
                       obs |-> <<J(c.obs), 1>>, thresholds |-> [k \in DOMAIN Ths |-> J(Ths[k])], levels |-> [k \in DOMAIN Lvs |-> J(Lvs[k])],
                       cdflo |-> [k \in DOMAIN Ths |-> J(FracBelow(c.ens, Ths[k]))], cdfhi |-> [k \in DOMAIN Ths |-> J(FracAtOrBelow(c.ens, Ths[k]))],
                       anyMissing |-> HasNaN(c.ens), allMissing |-> Mem(c.ens) = <<>>,
                       lo |-> IF Mem(c.ens) = <<>> THEN "nan" ELSE J(MinSeq(Mem(c.ens))), hi |-> IF Mem(c.ens) = <<>> THEN "nan" ELSE J(MaxSeq(Mem(c.ens))),
                       pit |-> J(Pit(c.ens, c.obs))]))
    [] c.kind = "win" ->
        PrintT(ToJson([kind |-> "win", times |-> <<Day1, Day1 + 86400>>, leads |-> WLeads, locs |-> <<5, 9>>,
                       obs |-> FlatJ(WObs(c), 2, 4, 2), fcst |-> FlatJ(WFc(c), 2, 4, 2), bt |-> c.bt, thr |-> J(c.thr),
                       eobs |-> FlatJ(WindowScript(WObs(c), 2, 4, 2, WLeads, c.bt, c.thr), 2, 4, 2),
                       efcst |-> FlatJ(WindowScript(WFc(c), 2, 4, 2, WLeads, c.bt, c.thr), 2, 4, 2)]))
    [] c.kind = "exp" ->
        LET ts == SubT(c)  C == SubObs(c)  ot == ExpandTimes(ts, c.hours)  XL == XLg(c.grid)
            E == ExpandVerifU(ts, XL, 2, C, c.hours, c.oleads, LUnit(c.grid)) IN
        PrintT(ToJson([kind |-> "exp", times |-> ts, leads |-> XL, locs |-> <<5, 9>>, obs |-> FlatJ(C, Len(ts), Len(XL), 2),
                       hours |-> c.hours, oleads |-> c.oleads, lunit |-> LUnit(c.grid), otimes |-> ot, eobs |-> FlatJ(E, Len(ot), Len(c.oleads), 2)]))
Init == c \in Cases(0) /\ phase = "case"
Evaluate == phase = "case" /\ phase' = "emitted" /\ c' = c /\ Emit
Next == Evaluate
Spec == Init /\ [][Next]_vars

InvAccIsPreAgg == c.kind = "acc" => \A i \in 1..ANT : AccumulateIsPreAggSum([j \in 1..ANL |-> AObs(c.mo)[<<i, j, 1>>]], c.w)
InvCdfMonotone == c.kind = "ens" => CdfMonotone(c.ens, Ths)
InvPitRange == c.kind = "ens" => (IsNaN(Pit(c.ens, c.obs)) \/ (Ge(Pit(c.ens, c.obs), Zero) /\ Le(Pit(c.ens, c.obs), One)))
InvExpandSound == c.kind = "exp" => ExpandSoundU(SubT(c), XLg(c.grid), 2, SubObs(c), c.hours, c.oleads, LUnit(c.grid))
InvWindowIsSpell == c.kind = "win" => (WindowIsSpell(c.s, c.bt, c.thr) /\ WindowIsSpell(Rev(c.s), c.bt, c.thr))
InvWindowBounded == c.kind = "win" => (WindowBounded(c.s, WLeads, c.bt, c.thr) /\ WindowBounded(Rev(c.s), WLeads, c.bt, c.thr))
\* ---- witnesses against vacuity (tools/vacuity.py): each is the NEGATION of a lemma's antecedent and must be VIOLATED by some enumerated case ----
W_ExpandPlaces == ~(c.kind = "exp" /\ \E p \in DOMAIN ExpandVerifU(SubT(c), XLg(c.grid), 2, SubObs(c), c.hours, c.oleads, LUnit(c.grid)) :
                        ~IsNaN(ExpandVerifU(SubT(c), XLg(c.grid), 2, SubObs(c), c.hours, c.oleads, LUnit(c.grid))[p]))
W_ExpandHalfHour == ~(c.kind = "exp" /\ c.grid = 4 /\ \E p \in DOMAIN ExpandVerifU(SubT(c), XLg(c.grid), 2, SubObs(c), c.hours, c.oleads, 1800) :
                        c.oleads[p[2]] % 2 = 1 /\ ~IsNaN(ExpandVerifU(SubT(c), XLg(c.grid), 2, SubObs(c), c.hours, c.oleads, 1800)[p]))
W_WindowEndsEarly == ~(c.kind = "win" /\ c.bt \in {"below", "below="} /\ ~HasNaN(c.s) /\ WinCount(c.s, 1, c.bt, c.thr) \in 1..2)
W_AccWindow == ~(c.kind = "acc" /\ ~AccErr(c))
=============================================================================
