SPECIFICATION Spec
CONSTANTS Kind = "quant"
          Size = "small"
INVARIANT InvDecomposition
INVARIANT InvComplement
INVARIANT InvRange
INVARIANT InvBins
INVARIANT InvEventComplement
INVARIANT InvEnsMonotone
INVARIANT InvPitCounts
CHECK_DEADLOCK FALSE
