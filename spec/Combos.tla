-------------------------------- MODULE Combos --------------------------------
(* C19: the documented combinations of metric / diagram, -x dimension, output   *)
(* type and their option variants, from the --help text, and the gate model of   *)
(* the driver: what kind of outcome the documentation lets a user expect.        *)
(* The property itself is only: outcome \in {"output", "error exit"} -- never an *)
(* unhandled exception; the prediction is compared as MODEL-DRIFT at most.       *)
EXTENDS Integers, Sequences, FiniteSets

DetNames == {"alphaindex", "bias", "cmae", "corr", "derror", "diff", "dmb", "ef", "fcst", "fcststddev", "kendallcorr", "kge", "leps", "mae",
             "mbias", "nnsec", "nsec", "obs", "obsstddev", "rankcorr", "ratio", "rmse", "rmsf", "stderror", "within"}
CatNames == {"a", "b", "baserate", "biasfreq", "c", "d", "dscore", "edi", "eds", "ets", "fa", "far", "fcstrate", "hit", "hss", "kss", "lor",
             "miss", "n", "or", "pc", "sedi", "seds", "threat", "yulesq"}
ProbNames == {"bs", "bsrel", "bsres", "bsunc", "bss", "bssrel", "bssres", "ign0", "marginalratio", "pit", "pithistdev", "pithistshape",
              "pithistslope", "quantile", "quantilecoverage", "quantilescore", "spherical", "spread", "spreadskillratio", "threshold"}
DiagramNames == {"against", "autocorr", "autocov", "bsdecomp", "change", "cond", "droc", "droc0", "discrimination", "economicvalue", "error",
                 "freq", "fss", "igncontrib", "invreliability", "marginal", "meteo", "murphy", "obsfcst", "performance", "pithist", "qq",
                 "reliability", "roc", "scatter", "spreadskill", "taylor", "timeseries"}
MetricNames == DetNames \cup CatNames \cup ProbNames
AllNames == MetricNames \cup DiagramNames
\* the 16 dimensions of the help text plus obs, fcst, dayofmonth; "(default)" = no -x given
AxisNames == {"time", "leadtime", "year", "month", "week", "day", "timeofday", "dayofyear", "monthofyear", "location", "elev", "lat", "lon",
              "threshold", "leadtimeday", "no", "obs", "fcst", "dayofmonth", "(default)"}
TypeNames == {"plot", "text", "csv", "map", "rank", "maprank", "impact", "mapimpact"}
WithAgg == {"mae", "bias", "diff", "ratio", "rmse", "rmsf", "cmae", "obs", "fcst", "pit"}
QuantileMetrics == {"quantile", "quantilecoverage", "quantilescore", "spread", "spreadskillratio"}

\* option variants, applied where they are meaningful; every diagram meets every -b event type (several draw one-sided events only and
\* have to say so: after seed C19-i)
Variants(m) ==
  {"plain"} \cup (IF m \in WithAgg THEN {"agg-median", "agg-0.9", "agg-count"} ELSE {})
            \cup (IF m \in CatNames \cup ProbNames \cup {"within"} \cup DiagramNames THEN {"b-within", "b-below=", "b-=within", "b-=within=", "b-above=", "r-given", "r-single"} ELSE {})
            \cup (IF m \in QuantileMetrics THEN {"q-given", "q-single"} ELSE {})
            \cup (IF m \in DetNames THEN {"acc", "hist", "sort", "T-6"} ELSE {})
            \cup (IF m \in DiagramNames THEN {"q-edges", "r-q-edges"} ELSE {})      \* -q also gives the bin edges / levels of several diagrams
VariantTokens(v) ==
  CASE v = "plain" -> <<>> [] v = "three-files" -> <<>> [] v = "agg-median" -> <<"-agg", "median">> [] v = "agg-0.9" -> <<"-agg", "0.9">> [] v = "agg-count" -> <<"-agg", "count">>
    [] v = "b-within" -> <<"-b", "within", "-r", "1,2,3">> [] v = "b-below=" -> <<"-b", "below=", "-r", "1,2">>
    [] v = "b-=within" -> <<"-b", "=within", "-r", "1,2,3">> [] v = "b-=within=" -> <<"-b", "=within=", "-r", "1,2,3">>
    [] v = "b-above=" -> <<"-b", "above=", "-r", "1,2">>
    [] v = "r-given" -> <<"-r", "1,2,3">> [] v = "r-single" -> <<"-r", "2">>
    [] v = "q-given" -> <<"-q", "0.1,0.9">> [] v = "q-single" -> <<"-q", "0.5">>
    [] v = "q-edges" -> <<"-q", "0,0.25,0.5,0.75,1">> [] v = "r-q-edges" -> <<"-r", "2", "-q", "0,0.25,0.5,0.75,1">>
    [] v = "acc" -> <<"-acc">> [] v = "hist" -> <<"-hist">> [] v = "sort" -> <<"-sort">> [] v = "T-6" -> <<"-T", "6", "-Tagg", "sum">>

\* the gate model: what the documentation lets a user expect ("either" where it is silent)
DataAxes == AxisNames \ {"threshold", "obs", "fcst"}
Predict(m, x, t, v) ==
  IF m \in DetNames \ {"within"} /\ t \in {"plot", "text", "csv"} /\ x \in DataAxes /\ v \in {"plain", "agg-median", "agg-0.9", "agg-count", "acc"} THEN "output"
  ELSE IF m \in CatNames /\ t \in {"plot", "text", "csv"} /\ x \in DataAxes \cup {"threshold"} /\ v \in {"r-given", "r-single", "b-below="} THEN "output"
  ELSE "either"
ArgvOf(m, x, t, v) == <<"-m", m>> \o (IF x = "(default)" THEN <<>> ELSE <<"-x", x>>) \o <<"-type", t>> \o VariantTokens(v)
=============================================================================
