SPECIFICATION Spec
CONSTANT Universe = "quick"
INVARIANT InvColumnOrder
INVARIANT InvRowOrder
INVARIANT InvIntended
CHECK_DEADLOCK FALSE
