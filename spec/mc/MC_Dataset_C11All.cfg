SPECIFICATION Spec
CONSTANT Family = "C11All"
INVARIANT InvSameCases
INVARIANT InvSameObs
INVARIANT InvDims
INVARIANT InvPartition
INVARIANT InvNonInterference
CHECK_DEADLOCK FALSE
