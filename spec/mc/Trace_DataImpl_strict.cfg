SPECIFICATION TraceSpec
CONSTANTS Strict = TRUE
          CopyOnAll = TRUE
INVARIANT HistoryIndependent
INVARIANT EarlierUnaltered
INVARIANT CacheCoherent
CHECK_DEADLOCK FALSE
