SPECIFICATION Spec
CONSTANT Family = "C04Quick"
INVARIANT InvPairsValid
INVARIANT InvCountsAddUp
INVARIANT InvMeanDecomposes
INVARIANT InvSameCounts
CHECK_DEADLOCK FALSE
