------------------------------ MODULE Metrics ------------------------------
(* Score definitions, written from the cited references / textbook forms      *)
(* (DESIGN.md appendix D), not from verif's source.  A score is computed on   *)
(* the VALID pairs only (both observation and forecast finite), so what the   *)
(* placeholder of a missing value was can never matter (C04).                 *)
(* Results are Expr trees (exact rationals where the definition is rational). *)
(* Undef = the definition does not apply (NaN or a non-finite value is fine). *)
EXTENDS Aggregators, Events

\* pairs: sequence of <<o, f>>
ValidPairs(obs, fcst) ==
  LET idx == SelectSeq([i \in DOMAIN obs |-> i], LAMBDA i : IsFinite(obs[i]) /\ IsFinite(fcst[i]))
  IN  [k \in DOMAIN idx |-> <<obs[idx[k]], fcst[idx[k]]>>]
\* pairs in which both values are present (not NaN); infinite values never reach a score (Dataset drops them)
ValidPairsNaN(obs, fcst) ==
  LET idx == SelectSeq([i \in DOMAIN obs |-> i], LAMBDA i : ~IsNaN(obs[i]) /\ ~IsNaN(fcst[i]))
  IN  [k \in DOMAIN idx |-> <<obs[idx[k]], fcst[idx[k]]>>]
O(p) == [k \in DOMAIN p |-> p[k][1]]
F(p) == [k \in DOMAIN p |-> p[k][2]]
Err(p) == [k \in DOMAIN p |-> Sub(p[k][1], p[k][2])]          \* o - f
N(p) == Len(p)

Cov(x, y) == LET mx == MeanSeq(x)  my == MeanSeq(y)
             IN  MeanSeq([k \in DOMAIN x |-> Mul(Sub(x[k], mx), Sub(y[k], my))])
\* Pearson correlation of two sequences: cov / sqrt(var var)
Pearson(x, y) ==
  IF Len(x) <= 1 \/ VarSeq(x) = Zero \/ VarSeq(y) = Zero THEN Undef
  ELSE DivE(Q(Cov(x, y)), SqrtE(Q(Mul(VarSeq(x), VarSeq(y)))))
\* twice the average rank (ties share the mean of their positions): 2*#less + #equal + 1
Rank2(x) == [k \in DOMAIN x |-> R(2 * Cardinality({j \in DOMAIN x : Lt(x[j], x[k])})
                                   + Cardinality({j \in DOMAIN x : x[j] = x[k]}) + 1)]
\* Kendall tau-b
PairsIdx(n) == {<<i, j>> \in (1..n) \X (1..n) : i < j}
KendallTauB(x, y) ==
  LET n  == Len(x)
      P  == PairsIdx(n)
      sg(a, b) == Cmp(a, b)
      C  == Cardinality({p \in P : sg(x[p[1]], x[p[2]]) * sg(y[p[1]], y[p[2]]) > 0})
      Dd == Cardinality({p \in P : sg(x[p[1]], x[p[2]]) * sg(y[p[1]], y[p[2]]) < 0})
      tx == Cardinality({p \in P : x[p[1]] = x[p[2]]})
      ty == Cardinality({p \in P : y[p[1]] = y[p[2]]})
      n0 == Cardinality(P)
  IN  IF n <= 1 \/ (n0 - tx) * (n0 - ty) = 0 THEN Undef
      ELSE DivE(Q(R(C - Dd)), SqrtE(Q(R((n0 - tx) * (n0 - ty)))))

\* empirical cdf of the observations
Fobs(p, v) == Frac(Cardinality({k \in DOMAIN p : Le(p[k][1], v)}), N(p))

MetricsWithAgg == {"mae", "bias", "diff", "ratio", "rmse", "cmae", "obs", "fcst"}
DetMetrics == {"mae", "bias", "diff", "ratio", "ef", "stderror", "obsstddev", "fcststddev", "rmse", "rmsf", "cmae",
               "nsec", "nnsec", "kge", "alphaindex", "leps", "dmb", "mbias", "corr", "rankcorr", "kendallcorr", "derror"}

\* within: the percentage of the pairs whose absolute error lies in the event (bin type bt, thresholds t, u) -- "-m within -r 2": |o - f| < 2
WithinPct(p, bt, t, u) == IF p = <<>> THEN Undef ELSE Q(Frac(100 * Cardinality({k \in DOMAIN p : InEvent(bt, AbsR(Sub(p[k][1], p[k][2])), t, u)}), Len(p)))
\* p = the valid pairs (possibly empty); agg, q = aggregator name and quantile level (mean unless the metric supports -agg)
Det(name, p, agg, q) ==
  IF N(p) = 0 THEN Undef
  ELSE LET o == O(p)  f == F(p)  n == N(p)
           absErr == [k \in DOMAIN p |-> AbsR(Sub(o[k], f[k]))]
           sqErr  == [k \in DOMAIN p |-> Sq(Sub(o[k], f[k]))]
           mo == MeanSeq(o)  mf == MeanSeq(f)  vo == VarSeq(o)  vf == VarSeq(f)
  IN CASE name = "mae"   -> Agg(agg, q, absErr)
       [] name = "bias"  -> Agg(agg, q, [k \in DOMAIN p |-> Sub(f[k], o[k])])
       [] name = "diff"  -> SubE(Agg(agg, q, f), Agg(agg, q, o))
       [] name = "ratio" -> IF AggIsZero(agg, q, o) THEN Undef ELSE DivE(Agg(agg, q, f), Agg(agg, q, o))
       [] name = "ef"    -> Q(Frac(Cardinality({k \in DOMAIN p : Gt(f[k], o[k])}), n))
       [] name = "stderror"   -> SqrtE(Q(VarSeq(Err(p))))
       [] name = "obsstddev"  -> SqrtE(Q(vo))
       [] name = "fcststddev" -> SqrtE(Q(vf))
       [] name = "rmse"  -> SqrtE(Agg(agg, q, sqErr))
       [] name = "cmae"  -> CbrtE(Agg(agg, q, [k \in DOMAIN p |-> AbsR(Sub(Mul(o[k], Sq(o[k])), Mul(f[k], Sq(f[k]))))]))
       [] name = "rmsf"  -> \* exp(sqrt(mean(ln(f/o)^2))) ; needs f/o > 0 for every pair
            IF \E k \in DOMAIN p : ~Gt(Div(f[k], o[k]), Zero) \/ ~IsFinite(Div(f[k], o[k])) THEN Undef
            ELSE ExpE(SqrtE(DivE(SumE([k \in DOMAIN p |-> SqE(LogE(Q(Div(f[k], o[k]))))]), Q(R(n)))))
       [] name = "nsec"  -> IF vo = Zero THEN Undef ELSE Q(Sub(One, Div(SumSeq(sqErr), Mul(R(n), vo))))
       [] name = "nnsec" -> IF vo = Zero THEN Undef
                            ELSE Q(Div(One, Sub(R(2), Sub(One, Div(SumSeq(sqErr), Mul(R(n), vo))))))
       [] name = "kge"   -> IF vo = Zero \/ vf = Zero \/ mo = Zero THEN Undef
                            ELSE SubE(Q(One), SqrtE(AddE(AddE(SqE(SubE(Pearson(o, f), Q(One))),
                                                              Q(Sq(Sub(Div(mf, mo), One)))),
                                                         SqE(SubE(SqrtE(Q(Div(vf, vo))), Q(One))))))
       [] name = "alphaindex" -> IF Add(vf, vo) = Zero THEN Undef ELSE Q(Div(VarSeq(Err(p)), Add(vf, vo)))
       [] name = "leps"  -> Q(MeanSeq([k \in DOMAIN p |-> AbsR(Sub(Fobs(p, f[k]), Fobs(p, o[k])))]))
       [] name = "dmb"   -> IF mf = Zero THEN Undef ELSE Q(Div(mo, mf))
       [] name = "mbias" -> IF mo = Zero THEN Undef ELSE Q(Div(mf, mo))
       [] name = "corr"  -> Pearson(o, f)
       [] name = "rankcorr" -> Pearson(Rank2(o), Rank2(f))
       [] name = "kendallcorr" -> KendallTauB(o, f)
       [] name = "derror" -> Q(MeanSeq([k \in DOMAIN p |-> AbsR(Sub(SortR(o)[k], SortR(f)[k]))]))

\* declared perfect scores of the error / skill metrics (the documentation's table), and their orientation
\* (-1: smaller is better, 1: larger is better, 0: closest to the perfect value)
\* ---- shift lemmas: scores of the ERROR SPREAD or of ORDER do not change when a constant is added to every forecast, and scores of
\* the errors do not change when the same constant is added to observations and forecasts (used with offsets of 10^6 in the replay:
\* one-pass formulas that cancel catastrophically are told apart from the definitions)
FcstShiftInvariant == {"stderror", "corr", "rankcorr", "kendallcorr", "fcststddev", "obsstddev"}
CommonShiftInvariant == {"mae", "rmse", "bias", "stderror", "corr", "rankcorr", "kendallcorr", "fcststddev", "obsstddev"}
ShiftF(p, k) == [i \in DOMAIN p |-> <<p[i][1], Add(p[i][2], k)>>]
ShiftBoth(p, k) == [i \in DOMAIN p |-> <<Add(p[i][1], k), Add(p[i][2], k)>>]
ShiftLemmas(p) == \A k \in {R(3), R(-7)} :
   /\ \A m \in FcstShiftInvariant : Det(m, ShiftF(p, k), "mean", Zero) = Det(m, p, "mean", Zero)
   /\ \A m \in CommonShiftInvariant : Det(m, ShiftBoth(p, k), "mean", Zero) = Det(m, p, "mean", Zero)

\* ---- scale lemmas: scores of ORDER and of CORRELATION do not depend on the unit the two series are expressed in (metres or
\* millimetres): multiplying observations and forecasts by the same positive constant leaves them unchanged (used with a factor of
\* 10^-5 in the replay: "is the variance zero" decided with an absolute tolerance is told apart from the definition)
ScaleInvariant == {"corr", "rankcorr", "kendallcorr"}
ScaleBoth(p, k) == [i \in DOMAIN p |-> <<Mul(p[i][1], k), Mul(p[i][2], k)>>]
ScaleLemmas(p) == \A k \in {R(2), <<1, 2>>} :
   LET q == ScaleBoth(p, k) IN
   /\ \A m \in {"rankcorr", "kendallcorr"} : Det(m, q, "mean", Zero) = Det(m, p, "mean", Zero)
   \* Pearson's r is a quotient under a square root: r(q)^2 = r(p)^2 as a rational identity, and the covariances have the same sign
   /\ Mul(Sq(Cov(O(q), F(q))), Mul(VarSeq(O(p)), VarSeq(F(p)))) = Mul(Sq(Cov(O(p), F(p))), Mul(VarSeq(O(q)), VarSeq(F(q))))
   /\ Lt(Cov(O(q), F(q)), Zero) = Lt(Cov(O(p), F(p)), Zero) /\ Gt(Cov(O(q), F(q)), Zero) = Gt(Cov(O(p), F(p)), Zero)
   /\ (VarSeq(F(q)) = Zero) = (VarSeq(F(p)) = Zero) /\ (VarSeq(O(q)) = Zero) = (VarSeq(O(p)) = Zero)

Perfect(name) ==
  CASE name \in {"mae", "rmse", "stderror", "cmae", "derror", "leps", "alphaindex", "bias", "diff"} -> Zero
    [] name \in {"nsec", "nnsec", "kge", "corr", "rankcorr", "kendallcorr", "rmsf", "dmb", "mbias", "ratio"} -> One
SkillMetrics == {"mae", "rmse", "stderror", "cmae", "derror", "leps", "alphaindex", "bias", "diff",
                 "nsec", "nnsec", "kge", "corr", "rankcorr", "kendallcorr", "rmsf", "dmb", "mbias", "ratio"}
NonNegative == {"mae", "rmse", "stderror", "cmae", "derror", "leps", "alphaindex"}
AtMostOne   == {"nsec", "nnsec", "corr", "rankcorr", "kendallcorr"}

\* sign information available without evaluating a transcendental
NonNegExpr(e) == IsUndef(e) \/ (IsQ(e) /\ (IsNaN(e.v) \/ Ge(e.v, Zero)))
                 \/ (e.op \in {"sqrt", "cbrt", "abs"} /\ (~IsQ(e.a) \/ Ge(e.a.v, Zero)))

\* a forecast identical to the observations attains the perfect score wherever the definition applies
PerfectAttains(name, o) ==
  LET p == [k \in DOMAIN o |-> <<o[k], o[k]>>]
      e == Det(name, p, "mean", Zero)
  IN  IsUndef(e) \/ (IsQ(e) /\ e.v = Perfect(name))
\* no forecast beats the perfect score in the declared orientation
NeverBetter(name, p) ==
  LET e == Det(name, p, "mean", Zero) IN
  /\ (name \in NonNegative => NonNegExpr(e))
  /\ (name \in {"nsec", "nnsec"} => (IsUndef(e) \/ Le(e.v, One)))
  /\ (name = "nnsec" => (IsUndef(e) \/ Ge(e.v, Zero)))
  /\ (name = "alphaindex" => (IsUndef(e) \/ Le(e.v, R(2))))
  /\ (name = "corr" => (N(p) <= 1 \/ Le(Sq(Cov(O(p), F(p))), Mul(VarSeq(O(p)), VarSeq(F(p))))))     \* Cauchy-Schwarz: |r| <= 1
  /\ (name = "ef" => (IsUndef(e) \/ (Ge(e.v, Zero) /\ Le(e.v, One))))
\* -agg: the score is that statistic of the per-pair errors (spot relations between aggregators)
AggregatorConsistency(p) ==
  N(p) = 0 \/
  /\ LET mx == Det("mae", p, "max", Zero)  mn == Det("mae", p, "min", Zero)  md == Det("mae", p, "median", Zero)
         me == Det("mae", p, "mean", Zero) IN Le(mn.v, md.v) /\ Le(md.v, mx.v) /\ Le(mn.v, me.v) /\ Le(me.v, mx.v)
  /\ Det("mae", p, "sum", Zero).v = Mul(R(N(p)), Det("mae", p, "mean", Zero).v)
  /\ Det("mae", p, "count", Zero).v = R(N(p))
  /\ Det("bias", p, "mean", Zero).v = Neg(MeanSeq(Err(p)))
  /\ Det("diff", p, "mean", Zero).v = Det("bias", p, "mean", Zero).v

---------------------------------------------------------------------------
(* C06: categorical scores from the 2x2 contingency table                   *)
(*   a = hits, b = false alarms, c = misses, d = correct rejections         *)
\* the table of a sequence of <<o, f>> pairs: counted over exactly the pairs in which both values are present;
\* the event is the same bin type and thresholds for observation and forecast
TablePairs(obs, fcst) == ValidPairsNaN(obs, fcst)
Table(p, bt, t, u) ==
  <<Cardinality({k \in DOMAIN p : InEvent(bt, p[k][2], t, u) /\ InEvent(bt, p[k][1], t, u)}),
    Cardinality({k \in DOMAIN p : InEvent(bt, p[k][2], t, u) /\ ~InEvent(bt, p[k][1], t, u)}),
    Cardinality({k \in DOMAIN p : ~InEvent(bt, p[k][2], t, u) /\ InEvent(bt, p[k][1], t, u)}),
    Cardinality({k \in DOMAIN p : ~InEvent(bt, p[k][2], t, u) /\ ~InEvent(bt, p[k][1], t, u)})>>
SwapT(T) == <<T[1], T[3], T[2], T[4]>>          \* exchange observations and forecasts
ComplT(T) == <<T[4], T[3], T[2], T[1]>>         \* complement the event

CatMetrics == {"a", "b", "c", "d", "n", "ets", "fcstrate", "dscore", "threat", "pc", "edi", "sedi", "eds", "seds",
               "biasfreq", "hss", "baserate", "or", "lor", "yulesq", "kss", "hit", "miss", "fa", "far"}
RatioOrUndef(nm, dn) == IF dn = 0 THEN Undef ELSE Q(Frac(nm, dn))
LnQ(x) == LogE(Q(x))

Cat(name, T) ==
  LET a == T[1]  b == T[2]  c == T[3]  d == T[4]  n == T[1] + T[2] + T[3] + T[4]
      H == Frac(a, a + c)  Fr == Frac(b, b + d)  pb == Frac(a + c, n)  qf == Frac(a + b, n)
  IN
  IF n = 0 THEN Undef ELSE
  CASE name = "a" -> Q(Frac(a, n)) [] name = "b" -> Q(Frac(b, n)) [] name = "c" -> Q(Frac(c, n)) [] name = "d" -> Q(Frac(d, n))
    [] name = "n" -> Q(R(n))
    [] name = "baserate" -> Q(pb)
    [] name = "fcstrate" -> Q(qf)
    [] name = "pc"       -> Q(Frac(a + d, n))
    [] name = "hit"      -> RatioOrUndef(a, a + c)
    [] name = "miss"     -> RatioOrUndef(c, a + c)
    [] name = "fa"       -> RatioOrUndef(b, b + d)
    [] name = "far"      -> RatioOrUndef(b, a + b)
    [] name = "threat"   -> RatioOrUndef(a, a + b + c)
    [] name = "biasfreq" -> RatioOrUndef(a + b, a + c)
    [] name = "ets"      -> LET ar == Frac((a + b) * (a + c), n)  den == Sub(R(a + b + c), ar)
                            IN  IF den = Zero THEN Undef ELSE Q(Div(Sub(R(a), ar), den))
    [] name = "kss"      -> RatioOrUndef(a * d - b * c, (a + c) * (b + d))
    [] name = "hss"      -> RatioOrUndef(2 * (a * d - b * c), (a + c) * (c + d) + (a + b) * (b + d))
    [] name = "or"       -> RatioOrUndef(a * d, b * c)
    [] name = "lor"      -> IF a * d = 0 \/ b * c = 0 THEN Undef ELSE LnQ(Frac(a * d, b * c))
    [] name = "yulesq"   -> RatioOrUndef(a * d - b * c, a * d + b * c)
    [] name = "dscore"   -> IF (a + c) * (b + d) = 0 THEN Undef
                            ELSE Q(Div(Add(R(a * d), Frac(a * b + c * d, 2)), R((a + c) * (b + d))))
    [] name = "edi"      -> IF a + c = 0 \/ b + d = 0 \/ a = 0 \/ b = 0 \/ Mul(H, Fr) = One THEN Undef
                            ELSE DivE(SubE(LnQ(Fr), LnQ(H)), AddE(LnQ(Fr), LnQ(H)))
    [] name = "sedi"     -> IF a + c = 0 \/ b + d = 0 \/ a = 0 \/ b = 0 \/ c = 0 \/ d = 0 THEN Undef
                            ELSE DivE(AddE(SubE(SubE(LnQ(Fr), LnQ(H)), LnQ(Sub(One, Fr))), LnQ(Sub(One, H))),
                                      AddE(AddE(AddE(LnQ(Fr), LnQ(H)), LnQ(Sub(One, Fr))), LnQ(Sub(One, H))))
    [] name = "eds"      -> IF a + c = 0 \/ a = 0 \/ Mul(pb, H) = One THEN Undef
                            ELSE DivE(SubE(LnQ(pb), LnQ(H)), AddE(LnQ(pb), LnQ(H)))
    [] name = "seds"     -> IF a + c = 0 \/ a = 0 \/ Mul(pb, H) = One THEN Undef
                            ELSE DivE(SubE(LnQ(qf), LnQ(H)), AddE(LnQ(pb), LnQ(H)))

\* perfect values (documentation); a perfect forecast has b = c = 0
CatPerfect(name) == CASE name \in {"hit", "threat", "ets", "pc", "biasfreq", "kss", "hss", "yulesq", "dscore", "edi", "sedi", "eds", "seds"} -> One
                      [] name \in {"miss", "fa", "far", "b", "c"} -> Zero
CatWithPerfect == {"hit", "threat", "ets", "pc", "biasfreq", "kss", "hss", "yulesq", "dscore", "edi", "sedi", "eds", "seds", "miss", "fa", "far", "b", "c"}

\* ---- lemmas ----
CountsSum(p, bt, t, u) == LET T == Table(p, bt, t, u) IN T[1] + T[2] + T[3] + T[4] = N(p)
SwapTable(p, bt, t, u) == Table([k \in DOMAIN p |-> <<p[k][2], p[k][1]>>], bt, t, u) = SwapT(Table(p, bt, t, u))
\* complementing the event exchanges hits and correct rejections (complement of below= is above, of below is above=)
ComplementTable(p, t) == /\ Table(p, "above", t, t) = ComplT(Table(p, "below=", t, t))
                         /\ Table(p, "above=", t, t) = ComplT(Table(p, "below", t, t))
SameE(x, y) == x = y
SwapInvariant == {"a", "d", "n", "threat", "ets", "pc", "hss", "or", "lor", "yulesq"}
ComplInvariant == {"n", "pc", "hss", "or", "lor", "yulesq"}
SwapLemma(T) ==
  /\ \A m \in SwapInvariant : Cat(m, SwapT(T)) = Cat(m, T)
  /\ Cat("baserate", SwapT(T)) = Cat("fcstrate", T)
  /\ (T[1] + T[3] > 0 => Cat("hit", T).v = Sub(One, Cat("far", SwapT(T)).v))
  /\ (T[1] + T[3] > 0 /\ T[1] + T[2] > 0 => Cat("biasfreq", T).v = Inv(Cat("biasfreq", SwapT(T)).v))
  /\ Cat("b", SwapT(T)) = Cat("c", T)
ComplLemma(T) ==
  /\ \A m \in ComplInvariant : Cat(m, ComplT(T)) = Cat(m, T)
  /\ (T[1] + T[2] + T[3] + T[4] > 0 => Cat("baserate", ComplT(T)).v = Sub(One, Cat("baserate", T).v))
  /\ Cat("a", ComplT(T)) = Cat("d", T)
PerfectTable(T) == (T[2] = 0 /\ T[3] = 0) => \A m \in CatWithPerfect : LET e == Cat(m, T) IN IsUndef(e) \/ (IsQ(e) /\ e.v = CatPerfect(m))
Bounds01(T) == \A m \in {"a", "b", "c", "d", "baserate", "fcstrate", "pc", "hit", "miss", "fa", "far", "threat"} :
                  LET e == Cat(m, T) IN IsUndef(e) \/ (Ge(e.v, Zero) /\ Le(e.v, One))

---------------------------------------------------------------------------
(* C08: probabilistic scores.  pe = sequence of <<p, e>>: forecast probability of the event and its outcome (0/1) *)
PP(pe) == [k \in DOMAIN pe |-> pe[k][1]]
EE(pe) == [k \in DOMAIN pe |-> pe[k][2]]
\* ten probability bins [j/10, (j+1)/10), the last one closed at 1
ProbBin(p) == IF Ge(p, One) THEN 10 ELSE FloorR(Mul(p, R(10))) + 1
InBin(pe, b) == {k \in DOMAIN pe : ProbBin(pe[k][1]) = b}
MeanOver(pe, S, col) == Div(SumSeq([m \in DOMAIN SortInts(S) |-> pe[SortInts(S)[m]][col]]), R(Cardinality(S)))
EbarBin(pe, k) == MeanOver(pe, InBin(pe, ProbBin(pe[k][1])), 2)
Ebar(pe) == MeanSeq(EE(pe))
BsV(pe)    == MeanSeq([k \in DOMAIN pe |-> Sq(Sub(pe[k][1], pe[k][2]))])
BsUncV(pe) == Mul(Ebar(pe), Sub(One, Ebar(pe)))
BsRelV(pe) == MeanSeq([k \in DOMAIN pe |-> Sq(Sub(pe[k][1], EbarBin(pe, k)))])
BsResV(pe) == MeanSeq([k \in DOMAIN pe |-> Sq(Sub(EbarBin(pe, k), Ebar(pe)))])
\* (the `threshold` output -- mean stored cumulative probability -- is not an event score and is not listed here)
ProbMetrics == {"bs", "bsunc", "bsrel", "bsres", "bss", "bssrel", "bssres", "ign0", "spherical", "marginalratio"}
Prob(name, pe) ==
  IF Len(pe) = 0 THEN Undef
  ELSE LET n == Len(pe)  unc == BsUncV(pe) IN
  CASE name = "bs"     -> Q(BsV(pe))
    [] name = "bsunc"  -> Q(unc)
    [] name = "bsrel"  -> Q(BsRelV(pe))
    [] name = "bsres"  -> Q(BsResV(pe))
    [] name = "bss"    -> IF unc = Zero THEN Undef ELSE Q(Div(Sub(unc, BsV(pe)), unc))
    [] name = "bssrel" -> IF unc = Zero THEN Undef ELSE Q(Div(BsRelV(pe), unc))
    [] name = "bssres" -> IF unc = Zero THEN Undef ELSE Q(Div(BsResV(pe), unc))
    [] name = "threshold" -> Q(MeanSeq(PP(pe)))
    [] name = "marginalratio" -> IF MeanSeq(PP(pe)) = Zero THEN Undef ELSE Q(Div(Ebar(pe), MeanSeq(PP(pe))))
    \* binary ignorance: -log2 of the probability given to what happened (infinite if a certain forecast fails)
    [] name = "ign0"   -> DivE(SumE([k \in DOMAIN pe |-> SubE(Q(Zero), Log2E(Q(IF pe[k][2] = One THEN pe[k][1] ELSE Sub(One, pe[k][1]))))]), Q(R(n)))
    \* spherical score: P(outcome) / sqrt(p^2 + (1-p)^2)
    [] name = "spherical" -> DivE(SumE([k \in DOMAIN pe |->
                                  DivE(Q(IF pe[k][2] = One THEN pe[k][1] ELSE Sub(One, pe[k][1])),
                                       SqrtE(Q(Add(Sq(pe[k][1]), Sq(Sub(One, pe[k][1]))))))]), Q(R(n)))

\* lemmas
OneValuePerBin(pe) == \A j, k \in DOMAIN pe : ProbBin(pe[j][1]) = ProbBin(pe[k][1]) => pe[j][1] = pe[k][1]
BrierDecomposition(pe) == (Len(pe) > 0 /\ OneValuePerBin(pe)) => BsV(pe) = Add(Sub(BsRelV(pe), BsResV(pe)), BsUncV(pe))
BrierComplement(pe) == Len(pe) > 0 => BsV([k \in DOMAIN pe |-> <<Sub(One, pe[k][1]), Sub(One, pe[k][2])>>]) = BsV(pe)
BrierRange(pe) == Len(pe) > 0 => /\ Ge(BsV(pe), Zero) /\ Le(BsV(pe), One) /\ Ge(BsRelV(pe), Zero) /\ Ge(BsResV(pe), Zero)
                                 /\ Le(BsResV(pe), BsUncV(pe)) /\ Le(BsUncV(pe), Frac(1, 4))
EveryProbInOneBin(p) == (Ge(p, Zero) /\ Le(p, One)) => ProbBin(p) \in 1..10

\* the (probability, outcome) pairs of a case list for an event: cases are <<o, cdf(t), cdf(u)>> (below*/above* use the
\* first threshold only); only cases in which the observation and the needed cumulative probabilities are present take part
EventPE(cases, bt, t, u) ==
  LET ok(x) == ~IsNaN(x[1]) /\ ~IsNaN(x[2]) /\ (bt \in WithinTypes => ~IsNaN(x[3]))
      keep == SelectSeq(cases, ok)
  IN  [k \in DOMAIN keep |-> <<ProbOfEvent(bt, keep[k][2], keep[k][3]), IF InEvent(bt, keep[k][1], t, u) THEN One ELSE Zero>>]

\* ---- quantile forecasts: cases are <<o, f, xLo, xHi>> for the levels <<lo, hi>> ----
QuantileScore(ox, tau) ==        \* ox: seq of <<o, x>> ; pinball loss
  IF Len(ox) = 0 THEN Undef
  ELSE Q(MeanSeq([k \in DOMAIN ox |-> Mul(Sub(ox[k][1], ox[k][2]), Sub(tau, IF Lt(ox[k][1], ox[k][2]) THEN One ELSE Zero))]))
QuantileCoverage(cs, bt) ==      \* fraction of cases with o inside the quantile interval, ends per bin type
  IF Len(cs) = 0 THEN Undef
  ELSE Q(Frac(Cardinality({k \in DOMAIN cs : InEvent(bt, cs[k][1], cs[k][3], cs[k][4])}), Len(cs)))
SpreadV(cs) == MeanSeq([k \in DOMAIN cs |-> Sub(cs[k][4], cs[k][3])])
SpreadSkillRatio(cs, lo, hi) ==
  IF Len(cs) = 0 THEN Undef
  ELSE LET mse == MeanSeq([k \in DOMAIN cs |-> Sq(Sub(cs[k][1], cs[k][2]))]) IN
       IF mse = Zero THEN Undef
       ELSE DivE(DivE(Q(SpreadV(cs)), DivE(SubE(NormPpfE(Q(hi)), NormPpfE(Q(lo))), Q(R(2)))), SqrtE(Q(mse)))

\* ---- ensembles: event probability and quantiles when the file does not store them ----
Members(ens) == SelectSeq(ens, LAMBDA m : ~IsNaN(m))
EnsProb(ens, t) == IF Members(ens) = <<>> THEN NaN
                   ELSE Frac(Cardinality({k \in DOMAIN Members(ens) : Le(Members(ens)[k], t)}), Len(Members(ens)))
\* envelope for a quantile taken from an ensemble (the interpolation rule is not documented):
QuantileEnvelopeOk(ens, level, x) ==
  IF HasNaN(ens) \/ ens = <<>> THEN IsNaN(x)
  ELSE /\ Ge(x, MinSeq(ens)) /\ Le(x, MaxSeq(ens))
       /\ (Len(ens) = 1 => x = ens[1])

\* ---- PIT statistics: ten bins [j/10,(j+1)/10), last closed ----
PitCounts(pit) == [b \in 1..10 |-> Cardinality({k \in DOMAIN pit : ProbBin(pit[k]) = b})]
PitHistDev(pit) ==
  IF Len(pit) = 0 THEN Undef
  ELSE LET n == Len(pit)  c == PitCounts(pit)
           D2 == Div(SumSeq([b \in 1..10 |-> Sq(Sub(Frac(c[b], n), Frac(1, 10)))]), R(10))
           D02 == Div(Sub(One, Frac(1, 10)), R(n * 10))
       IN  DivE(SqrtE(Q(D2)), SqrtE(Q(D02)))
\* mean first / second difference quotient of the relative histogram over the bin centres (spacing 1/10)
PitHistSlope(pit) ==
  IF Len(pit) = 0 THEN Undef
  ELSE LET n == Len(pit)  c == PitCounts(pit) IN
       Q(MeanSeq([b \in 1..9 |-> Mul(Sub(Frac(c[b + 1], n), Frac(c[b], n)), R(10))]))
PitHistShape(pit) ==
  IF Len(pit) = 0 THEN Undef
  ELSE LET n == Len(pit)  c == PitCounts(pit)
           d == [b \in 1..9 |-> Mul(Sub(Frac(c[b + 1], n), Frac(c[b], n)), R(10))] IN
       Q(MeanSeq([b \in 1..8 |-> Mul(Sub(d[b + 1], d[b]), R(10))]))
=============================================================================
