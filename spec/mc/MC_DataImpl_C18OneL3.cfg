SPECIFICATION Spec
CONSTANTS Family = "C18One"
          MaxLen = 3
          EmitLeaves = FALSE
          CopyOnAll = TRUE
INVARIANT HistoryIndependent
INVARIANT EarlierUnaltered
INVARIANT CacheCoherent
PROPERTY CacheGrows
CHECK_DEADLOCK FALSE
