#!/bin/bash
# tools/try_seed.sh <seed dir> <name> <check>[:thorough] ...   e.g. tools/try_seed.sh /tmp/seed_C02/seed_out C02-a C02 C03
# Applies the seeded patch to a SCRATCH worktree of /repo (never to /repo itself), runs its demonstration there and the given
# checks with VERIF_REPO pointing at the scratch tree, and removes the worktree.
SRC=$1; NAME=$2; shift 2
DST=/verif/seeded/$NAME
mkdir -p $DST && cp $SRC/patch.diff $SRC/demo.py $SRC/meta.json $DST/ 2>/dev/null
WT=/tmp/seedtest_$NAME
git -C /repo worktree remove --force $WT >/dev/null 2>&1
git -C /repo worktree add -q --detach $WT HEAD || exit 2
trap 'git -C /repo worktree remove --force '$WT' >/dev/null 2>&1' EXIT
echo "== demo on clean tree"; (cd $WT && PYTHONPATH=$WT MPLBACKEND=Agg timeout 600 /venv/bin/python $DST/demo.py >/tmp/demo_clean_$NAME.out 2>&1; echo "exit=$?")
git -C $WT apply $DST/patch.diff || { echo "patch does not apply"; exit 2; }
echo "== demo with patch"; (cd $WT && PYTHONPATH=$WT MPLBACKEND=Agg timeout 600 /venv/bin/python $DST/demo.py >/tmp/demo_patched_$NAME.out 2>&1; echo "exit=$?"; tail -2 /tmp/demo_patched_$NAME.out | cut -c1-300)
RES=""
for c in "$@"; do
  tier=quick; cc=$c
  case $c in *:thorough) tier=thorough; cc=${c%%:*};; esac
  (cd /verif && VERIF_REPO=$WT ./check $cc $tier > /tmp/seed_check_${NAME}_$cc.out 2>&1); rc=$?
  echo "== ./check $cc $tier -> exit $rc ; $(grep -c '^VIOLATION' /tmp/seed_check_${NAME}_$cc.out) VIOLATION lines; $(tail -1 /tmp/seed_check_${NAME}_$cc.out | cut -c1-200)"
  grep -m2 -A1 '^VIOLATION' /tmp/seed_check_${NAME}_$cc.out | cut -c1-400
  RES="$RES $cc:$tier=$rc"
done
echo "RESULT $NAME:$RES"
