SPECIFICATION Spec
CONSTANT Universe = "len4"
INVARIANT InvPerfectAttains
INVARIANT InvPerfectAgg
INVARIANT InvNeverBetter
INVARIANT InvAggConsistency
INVARIANT InvOrder
CHECK_DEADLOCK FALSE
