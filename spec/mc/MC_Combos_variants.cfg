SPECIFICATION Spec
CONSTANT Part = "variants"
INVARIANT InvPrediction
INVARIANT InvCounts
CHECK_DEADLOCK FALSE
