------------------------------- MODULE Trace_Cli -------------------------------
(* Trace validation of the driver's argument loop against Cli.tla: recorded      *)
(* events CliSpliced (the argument list after the config pass), Token (position   *)
(* and token at the head of every loop iteration), Parsed (files, metric, type)   *)
(* and ErrorExit.  White box only: a disagreement is MODEL-DRIFT, the observable  *)
(* behaviour of every command line is judged by the replay of C13.                *)
EXTENDS Cli, Json, IOUtils, TLCExt, SequencesExt
VARIABLES tid, l, i, acc, sp
tvars == <<tid, l, i, acc, sp>>
Batch == JsonDeserialize(IOEnv.TRACE_FILE)
Traces == Batch.traces
Events == Traces[tid].events
IsKnownToken(tok) == TRUE
Init == /\ tid \in DOMAIN Traces /\ l = 1 /\ i = 1 /\ acc = EmptyParse
        /\ sp = Spliced(Traces[tid].argv, [n \in {Traces[tid].cfgname, Traces[tid].cfgname2} |->
                                              IF n = Traces[tid].cfgname THEN Traces[tid].config ELSE Traces[tid].config2])
\* the first event carries the spliced argument list: config tokens at the end, in file order
TraceSpliced == /\ l <= Len(Events) /\ Events[l].ev = "CliSpliced" /\ l = 1
                /\ Events[l].argv = sp
                /\ l' = l + 1 /\ UNCHANGED <<tid, i, acc, sp>>
\* every Token event is the head of a loop iteration: at the model's position, holding the model's token
TraceToken == /\ l <= Len(Events) /\ Events[l].ev = "Token"
              /\ acc.status = "ok" /\ i <= Len(sp)
              /\ Events[l].pos = i /\ Events[l].token = sp[i]
              /\ LET st == StepAt(sp, i, acc) IN i' = st.i /\ acc' = st.acc
              /\ l' = l + 1 /\ UNCHANGED <<tid, sp>>
\* the loop is over: the files (in order), the metric and the output type are what the model parsed
TraceParsed == /\ l <= Len(Events) /\ Events[l].ev = "Parsed"
               /\ i > Len(sp) /\ acc.status = "ok"
               /\ Events[l].files = acc.files
               /\ Events[l].metric = acc.values["-m"]
               /\ Events[l].type = (IF acc.values["-type"] = NoValue THEN "plot" ELSE acc.values["-type"])
               /\ Events[l].acc = ("-acc" \in acc.switches)
               /\ l' = l + 1 /\ UNCHANGED <<tid, i, acc, sp>>
\* an error exit: either the loop model is in an error state, or the value of the group just consumed was rejected
\* (value validation is not part of the loop model), or the run is past the loop
TraceError == /\ l <= Len(Events) /\ Events[l].ev = "ErrorExit"
              /\ l' = Len(Events) + 1 /\ UNCHANGED <<tid, i, acc, sp>>
\* events of other components (Data, ...) are not this model's business
TraceOther == /\ l <= Len(Events) /\ Events[l].ev \notin {"CliSpliced", "Token", "Parsed", "ErrorExit"}
              /\ l' = l + 1 /\ UNCHANGED <<tid, i, acc, sp>>
TraceDone == /\ l = Len(Events) + 1 /\ l' = l + 1 /\ UNCHANGED <<tid, i, acc, sp>>
             /\ PrintT(ToJson([accept |-> Traces[tid].id]))
Next == TraceSpliced \/ TraceToken \/ TraceParsed \/ TraceError \/ TraceOther \/ TraceDone
Spec == Init /\ [][Next]_tvars
\* evaluated at every step of the real execution
InvPositions == i >= 1 /\ i <= Len(sp) + 2
InvFilesInOrder == \A a, b \in DOMAIN acc.files : a < b => \E p, q \in DOMAIN sp : p < q /\ sp[p] = acc.files[a] /\ sp[q] = acc.files[b]
=============================================================================
