#!/usr/bin/env python3
"""Regenerate MANIFEST.json from the table below (kept valid at all times; validated when python3-vt is present)."""
import json, os, subprocess
ROOT = os.path.dirname(os.path.dirname(os.path.abspath(__file__)))

NOTE_COMMON = ("Trusted base: TLC 1.8 and the TLA+ modules under spec/ (written from verif's documentation and the property "
               "statements, not from its source); the materialiser (own text/NetCDF writers, no verif import) and the projection "
               "of real objects into abstract values; numpy/netCDF4/matplotlib themselves. Bounded small-scope exhaustion plus "
               "seeded samples: nothing is claimed beyond the constants listed in the evidence file.")

CHECKS = {
 "C01": dict(
    text="Dataset.tla gives the contributing cases and values of every request as a pure function of the files; TLC enumerates "
         "every missing-value pattern of obs/fcst on small grids (2 inputs, 3 inputs, obs-less inputs, climatology) and checks "
         "SameCases / SameObs / NonInterference on each; every enumerated dataset is written to real files and every request of "
         "the menu is replayed into verif.data.Data and compared cell by cell (also: other fields with their own missing cells, NetCDF fill values, "
         "files whose coverage differs along coordinates that are close but not equal). Exhaustive in the thorough tier (2^16 patterns). NetCDF files that list a station / time / lead time twice (also before other entries) are among them.",
    technique="TLA+ spec (Dataset.tla) model-checked with TLC; TLC-generated datasets and expected results replayed into verif.data.Data",
    ref="6/C01"),
 "C02": dict(
    text="Dataset.tla defines the value of an input at (time, lead, location) as what that file stores at the FIRST position with "
         "those coordinates; TLC enumerates inputs listing each dimension in every order (all ordered sub-lists of a 3-element pool, "
         "extra entries, repeated entries) and emits expected verified dimensions and request results; the materialiser writes text "
         "files with shuffled rows/columns and NetCDF files; every request is replayed into verif.data.Data. Coordinate-encoding "
         "cell values make any wrong index visible.",
    technique="TLA+ spec (Dataset.tla At/Common*) model-checked with TLC; generated datasets replayed into verif.input + verif.data",
    ref="6/C02"),
 "C03": dict(
    text="Dataset.tla defines the verified times/leads/locations as set comprehensions over the documented predicates of the nine "
         "subsetting options (+ obsrange masking); TLC enumerates every set of up to 2 (quick) / 3 (thorough) options, each with values "
         "selecting everything / a strict subset / range ends equal to a coordinate / nothing, on two inputs with different order and "
         "coverage (+ climatology); dims, error-exit/NaN outcome of empty selections and all request results are compared with Data(...). "
         "Code->spec: the Data objects the repository's own tests build (its -t/-d/-tod/-l/-lx/-latrange/-lonrange/-obsrange fixtures) are recorded and TLC checks their verified dimensions, error exits and returned arrays against the same definitions (Trace_DataImpl). The options are sets: the replay also spells the list options in another order with every value twice, next to a second option. -d is also given dates in December, on 1 March of a non-leap year and on a leap day (family C11Sel on files that store unix times).",
    technique="TLA+ spec (Dataset.tla SelTime/SelLead/SelLoc) model-checked with TLC; generated option sets replayed into verif.data.Data; executions of the repository's test-suite validated by TLC",
    ref="6/C03"),
 "C04": dict(
    text="Scoring.tla composes Dataset.tla and Metrics.tla: a score is the metric's definition on the contributing cases of the slice, "
         "so the expected value cannot depend on a placeholder, and a slice without contributing cases has no defined score; TLC emits "
         "datasets with missing single cells, whole missing time/location slices and whole missing fields together with the expected score "
         "of 49 metrics x 4 axes x every slice and input; each dataset is materialised once per missing-value encoding of its format "
         "(text: -999, -999.0, nan, non-numeric; NetCDF: NaN, _FillValue, masked, -999, >1e30; Decode/DecodeNc in TextFormat/NcFormat.tla) "
         "and every score recomputed by Metric.compute (a number where the spec says undefined, or any exception, is a violation); "
         "obs / fcst / mae also under the sum and max aggregators, -T windows with a missing value (family C15T), ensemble members and probabilistic fields with missing values. A combination a ragged text file has no row for is missing for every field derived from its ensemble members. A slice in which every field is missing has no score under any aggregator, for every metric (Aggregators!EmptyIsUndefined).",
    technique="TLA+ specs (Scoring.tla = Dataset.tla + Metrics.tla) evaluated by TLC; expected score matrices replayed through files in every missing-value encoding into verif.data + verif.metric",
    ref="6/C04"),
 "C11": dict(
    text="Calendar.tla is an integer proleptic-Gregorian calendar; TLC checks bucket-containment, monotonicity and inverse-conversion "
         "lemmas on every day 1900-2100 (thorough) and emits each day's facts, replayed into verif.util conversions and all time-like "
         "axes; Dataset.tla SliceKey/SliceOf with the Partition invariant gives the slices of datasets whose initialisation times "
         "straddle year/month/week/leap-day boundaries (runs off the hour and lead times before the initialisation time included), replayed through Data.get_axis_values and get_scores for 15 axes, "
         "also after another dataset has been opened in the same process and under other time zones. Family C11Two: two files whose lists of runs differ, so that a common run sits at different positions in them. The families are also written with date + hour columns.",
    technique="TLA+ specs (Calendar.tla, Dataset.tla) model-checked with TLC; per-day facts and per-slice cases replayed into verif.util/axis/data",
    ref="6/C11"),
 "C12": dict(
    text="Report.tla defines the table of a command as the score matrix of Scoring.tla with one row per slice in axis order, a "
         "descriptor that identifies the slice (calendar components, lead time, location id/lat/lon/elev, threshold), one score column "
         "per input in command-line order, -acc as running sums and the -x threshold table; TLC checks the shape lemmas on every "
         "(dataset, metric, axis) case; each is run through verif.driver.run with -type text and csv, with/without -f, -leg, -acc, and "
         "the printed table (warnings stripped) is parsed and compared to the format's precision (6 / 4 significant digits); "
         "the table of the obs/fcst diagram with quantile lines (one column per series, named after its input) comes from Diagrams.tla; "
         "Report!ConditionalTable gives the -x obs / -x fcst tables (scores of the pairs whose observed / forecast value lies in each event of -b / -r, "
         "rows labelled by the bin edge; rows of consecutive within= events share no pair). The table behind the fss diagram along lead time (rows = temporal scales of Diagrams!FssSeries) is compared as well.",
    technique="TLA+ spec (Report.tla over Scoring.tla) evaluated by TLC; expected tables compared with the parsed output of verif.driver.run -type text|csv",
    ref="6/C12"),
 "C13": dict(
    text="Cli.tla specifies the vector syntax (Expand with end-point / step / calendar-day lemmas), the option grammar as "
         "Meaning(set of groups, files) and the two-pass argument loop with --config splicing; TLC checks that the loop refines Meaning "
         "for every order of up to 2 (quick) / 3 (thorough) option groups (selection, computation, -c/-C, -T/-Tagg/-Tx, malformed ones), every "
         "file position and every split over one or two config files, and "
         "computes -- through Dataset.tla, Scoring.tla and Report.tla -- the table each well-formed option set must print or the "
         "rejection each malformed one must get; every emitted argv variant is run through verif.driver.run (exit status, error "
         "message, table, identical output across orders and splits) and every vector string through util.parse_numbers. The first file of the dataset has a lead time without any observation, so tables along lead time have a row without a score (where -acc counts it as 0).",
    technique="TLA+ spec (Cli.tla + Report/Scoring/Dataset) model-checked with TLC: loop refines order-free Meaning; generated command lines replayed into verif.driver.run",
    ref="6/C13"),
 "C14": dict(
    text="Dataset.tla Adj subtracts/divides the climatology forecast at the same coordinates (exact rationals; zero divisors give "
         "non-finite, hence dropped, cases); TLC enumerates climatologies with their own coverage, order, missing cells and zeros, "
         "checks the shift-equivalence theorem (-c X versus X as extra input) and emits expected results replayed into Data(clim=...); "
         "through the driver: legend / table columns never name the climatology, and the operation applied is the one given with the file that is used; "
         "-obsrange together with a climatology selects by observed value, not by anomaly (family C14Range). A climatology file called like the first scored input does not disturb the legend, the csv header or the numbers under them. NetCDF climatologies that list the common coordinates in another order are matched by coordinates too.",
    technique="TLA+ spec (Dataset.tla Adj) model-checked with TLC; generated datasets replayed into verif.data.Data with clim",
    ref="6/C14"),
 "C07": dict(
    text="Events.tla states the eight bin types as events in four formulations (by cases, as intervals, as binary thresholding, as "
         "event probability from the CDF); TLC checks the partition / complement / NaN / agreement lemmas on the complete set of order "
         "relations of a value to 1-3 thresholds (below, equal, between, equal, above, NaN, -inf, +inf) and every case is replayed into "
         "Interval.within (scalar, array), util.get_intervals, util.apply_threshold and util.apply_threshold_prob; exhaustive for the "
         "property's own quantifier; event probabilities derived from ensemble members (a member on the threshold) come from MC_Prob. The thorough tier adds an Apalache (SMT) proof of the order lemmas over unbounded integers.",
    technique="TLA+ spec (Events.tla) model-checked with TLC (+ Apalache over unbounded Int); every enumerated placement replayed into verif.interval / verif.util",
    ref="6/C07"),
 "C08": dict(
    text="Metrics.tla defines the Brier family (10 bins, top edge inclusive), binary ignorance, spherical score, marginal ratio, quantile "
         "(pinball) score, quantile coverage, spread, spread-skill ratio and the PIT histogram statistics as exact rationals / expression "
         "trees, the event probability through Events!ProbOfEvent, and ensemble-derived probabilities/quantiles (the latter as an envelope); "
         "TLC checks BS = REL - RES + UNC (one value per bin), BS(event) = BS(complement), ranges and monotonicity; Brier scores are "
         "replayed through compute_from_obs_fcst and everything else end to end through generated text files with p<t>/q<l>/e<k>/pit "
         "columns, verif.data.Data and Metric.compute_single for all 8 bin types.",
    technique="TLA+ spec (Metrics.tla probabilistic part, Events.tla) model-checked with TLC; generated probability/quantile/ensemble/PIT cases replayed through files into verif.data + verif.metric",
    ref="6/C08"),
 "C09": dict(
    text="TextFormat.tla gives the text format as a relation Parse(file) = Input over literal files (header names as character sequences, "
         "so that the p<t>/q<l>/e<k>/pit/elev classification is decided in the spec; tokens with their missing-value spellings; rows in "
         "any order; metadata lines); TLC checks ColumnOrderInvariant / RowOrderInvariant / parse-of-generated = intended on every "
         "generated file; each file is written literally (several separators, extra comment lines), read with verif.input.Text and all "
         "attributes are compared by coordinates with Parse(file). Files without a location column are defined in the module (LocationsNoId: sites = distinct position triples, also a hundred-thousandth of a degree apart); only a # x0 / # x1 line gives the variable a discrete mass (NoMassWithoutLine). Every file is also read through verif.input.get_input on a path that held another file before.",
    technique="TLA+ spec (TextFormat.tla) model-checked with TLC; generated literal files read by verif.input.Text and compared with the spec's Parse",
    ref="6/C09"),
 "C10": dict(
    text="NcFormat.tla gives the documented NetCDF layout as a relation NcParse(file) = Input (the same record as TextFormat!Parse), "
         "DecodeNc for _FillValue / masked / -999 / NaN / >1e30, an encoder and the RoundTrip lemma NcParse(EncodeNc(I)) = I checked by "
         "TLC for every generated Input x encoding x dimension order; both literal files are written by the harness' own writers "
         "(with swapped file-name extensions), read with verif.input.get_input and compared by coordinates with the expected Input; "
         "scripts/text2nc.py is run on the text file and its output compared variable by variable. Stations in the 0..360 longitude convention are part of the universe.",
    technique="TLA+ spec (NcFormat.tla + TextFormat.tla) model-checked with TLC; generated text/NetCDF file pairs read by verif.input and text2nc output compared with the spec's Input",
    ref="6/C10"),
 "C05": dict(
    text="Metrics.tla transcribes the textbook definition of 22 deterministic scores and of `within` (and Aggregators.tla the 14 -agg statistics plus "
         "quantile levels) as expression trees over exact rationals, with explicit undefined cases; TLC enumerates every obs/fcst vector "
         "of length 0..3 over small integers (ties, constants, zeros, negatives, single pairs, missing on either side; length 4 and the "
         "5-value alphabet in the thorough tier), checks PerfectAttains / NeverBetter / AggregatorConsistency exactly, and each expected "
         "score is replayed into the real metric class (compute_from_obs_fcst) with every aggregator.",
    technique="TLA+ spec (Metrics.tla, Aggregators.tla, Expr.tla) model-checked with TLC; expected scores emitted as exact expression trees and replayed into verif.metric",
    ref="6/C05"),
 "C06": dict(
    text="Metrics.tla defines the 2x2 table of a pair sequence through Events.tla and the 25 categorical scores as exact rationals "
         "(log-based ones as expression trees) with explicit undefined cases; TLC checks counts-sum, Swap, Complement, PerfectTable and "
         "[0,1] bounds on every table with total <= 8 (quick) / 14 (thorough) and on every pair vector of length <= 2-3 over values "
         "below/at/between/at/above the thresholds and missing x 8 bin types; each case is replayed into compute_from_abcd, "
         "_compute_abcd and compute_from_obs_fcst (undefined must be NaN, never infinite). The scores are also read from the tables the program prints (Report.tla), including tables under -C with a climatology that holds zeros (pairs whose quotient is no number are no pairs of the table). Tables are handed over as np.int64 and as plain Python ints / floats.",
    technique="TLA+ spec (Metrics.tla Table/Cat) model-checked with TLC; all small tables and pair vectors replayed into verif.metric.Contingency classes",
    ref="6/C06"),
 "C15": dict(
    text="Aggregators.tla gives the 14 -agg/-Tagg statistics and quantile levels as exact rationals (std as an expression tree) with "
         "order lemmas, and the -T trailing window (g-h, g] by grid value with window lemmas; TLC enumerates vectors with ties and missing "
         "values, 3-d arrays along every dimension, and every lead-time grid drawn from {0,1,2,3,5,8} in increasing and permuted file order "
         "x window length x aggregator; replayed into verif.aggregator.get(name)(array, axis), preaggregate_leadtime / preaggregate_time "
         "and, end to end, Data(dim_agg_length=..) for observations and forecasts alike; Dataset!PreAggAt composes -T with selection, "
         "intersection and fair comparison on multi-input datasets with different, unsorted grids (family C15T).",
    technique="TLA+ specs (Aggregators.tla; Dataset.tla with -T) model-checked with TLC; enumerated vectors/arrays/grids replayed into verif.aggregator and verif.data pre-aggregation",
    ref="6/C15"),
 "C16": dict(
    text="Diagrams.tla defines, per diagram, the series of points it must draw as functions of the common valid cases of Dataset.tla "
         "(standard line and bar plots, obsfcst, qq, scatter, against, sort, hist, freq, error, performance, and the probabilistic "
         "diagrams reliability, discrimination, roc, marginal, pithist; droc, droc0, change, autocov, autocorr, taylor, fss, murphy, "
         "economicvalue, bsdecomp, igncontrib, invreliability, spreadskill, meteo, obsfcst with quantile lines, time series with one line per ensemble member; the map and impact views), one series per input in "
         "command-line order, with the every-value-in-one-bin lemma for binned diagrams checked by TLC; every (dataset, diagram, option variant) is run through verif.driver.run with the Agg backend and "
         "the Line2D / bar / scatter artists of the figure are projected (label, x data, y data): each expected series must be drawn under the "
         "right label and in input order. The rank / maprank / mapimpact views are not transcribed (see the evidence of every run).",
    technique="TLA+ spec (Diagrams.tla over Scoring/Dataset/Metrics) evaluated by TLC; expected series compared with the artists of the matplotlib figure produced by verif.driver.run",
    note="Geometric decorations, cartopy maps and pixel output are not specified. ",
    ref="6/C16"),
 "C17": dict(
    text="Figure.tla gives every documented appearance option one owned figure property (with the value it must read for each of two "
         "argument values), the few properties it may legitimately disturb, and the Independent lemma; TLC enumerates every consistent "
         "set of up to 2 options on a standard plot and single options on pithist / reliability / obsfcst / the map view (-clabel, -clim, -cmap) / a plot whose values all lie on one side of the perfect score (-sp must bring the line into the picture); "
         "a derived property says whether the image is the whole figure or cropped (explicit margins, 0 included); the matplotlib figure "
         "left by verif.driver.run and the written image are projected into the abstract properties: owned ones must carry the option's "
         "value, all properties no given option controls must equal the option-free baseline figure; image formats by extension.",
    technique="TLA+ spec (Figure.tla) enumerated by TLC; option sets run through verif.driver.run and the resulting matplotlib figure projected and compared",
    ref="6/C17"),
 "C18": dict(
    text="DataImpl.tla models Data.get_scores as the code has it (heap of mutable arrays, per-input field cache handed out without "
         "copying, request cache, observation sharing by aliasing, in-place propagation and -obsrange); TLC checks that it refines "
         "Dataset.tla (HistoryIndependent, EarlierUnaltered, CacheCoherent, CacheGrows) over every request sequence up to length 3 of a "
         "36-request menu (plus menus over other fields, ensemble members, and slices of several derived dimensions with the same slice number) and, under a canonical view that forgets object ids, in EVERY cache state reachable by histories of any length "
         "over a 12-request core menu (datasets x 2^12 states). Spec->code: maximal behaviours are replayed on one real Data object (results vs the history-free "
         "expectation, all earlier arrays vs their snapshots, Input arrays unchanged). Code->spec: hook traces of those executions are "
         "and of random request sequences are validated by TLC against the model (Trace_DataImpl), internal disagreement being MODEL-DRIFT only. "
         "Repeating a command: every command of a small menu is run in several fresh interpreters (different string-hash seeds) on files with and without a location column and must print the same. "
         "The repository's own test-suite is run with the hooks on: every Data object its tests build from verif/tests/files and every array those objects return is one more trace that TLC validates (verified dimensions, error exits only for empty selections, returned values, cache internals). Probabilities the files do not store (derived from ensemble members, DatasetGen!DerivedProb) are fields of the model like any other: family C18Derived replays every ordered pair of 48 requests on files whose members are missing at different cells. Stored quantiles are also replayed on NetCDF files whose missing values are a _FillValue of the file's own.",
    technique="TLA+ refinement DataImpl => Dataset checked by TLC over all request histories (bounded: every sequence; unbounded: every reachable cache state under a canonical view); behaviours replayed into verif.data.Data; hook traces (own drivers and the repository's test-suite) validated by TLC",
    ref="6/C18"),
 "C19": dict(
    text="Combos.tla lists the documented names (70 metrics, 28 diagrams, 19 -x dimensions + default, 8 output types), the option variants "
         "(-agg, -b, -r, -q, -acc, -hist, -sort, -T; -q bin edges on every diagram; on plot, csv and impact output) and the driver's gate "
         "model as a prediction; TLC enumerates the full cross product (15 680 combinations) and 6 060 variants; each is run through verif.driver.run with a real savefig under a time limit on "
         "generated datasets (all column kinds; single time; single location; an all-missing slice): outcome must be an output or an "
         "error exit with a message. Quick: a 4 400-run sample (variants stratified by kind and output type) on two datasets; thorough: everything on four datasets. Every one of the 28 diagrams meets every -b event type (Combos!Variants), each (diagram, variant) pair at least once in the quick tier.",
    technique="TLA+ spec (Combos.tla) enumerated exhaustively by TLC; every enumerated command line run through verif.driver.run and classified",
    ref="6/C19"),
 "C20": dict(
    text="Scripts.tla specifies accumulate (trailing sums by steps, incomplete windows missing, -i, cumulative without -w; lemma "
         "Accumulate = PreAgg(sum) on unit grids, tying it to C15), ens2prob (cdf between the strict and non-strict member fractions, "
         "hence in [0,1] and monotone; quantiles within the member range and non-decreasing; PIT = fraction of members below the "
         "observation, missing where it is missing) and expandverif (valid-time matching with a soundness lemma, lead times in hours or half hours) and window (from every lead time on, how long the "
         "accumulated amount stays in the event; lemmas: a spell of consecutive lead times for non-negative amounts, never negative, never beyond the series); TLC enumerates inputs "
         "with missing values x all options from small menus and each case is run through the real script's main() on a text or NetCDF "
         "input, the written file being read back with netCDF4 directly.",
    technique="TLA+ spec (Scripts.tla, Aggregators.tla) model-checked with TLC; enumerated inputs/options run through the scripts and their output files compared with the spec",
    ref="6/C20"),
}
REASON_WIP = "check not built yet (work in progress; the TLA+ technique applies, see DESIGN.md section 6)"
NOT_APPLICABLE = {}

def main():
    props = [json.loads(l)["id"] for l in open(os.path.join(ROOT, "properties.jsonl"))]
    hooks_commits = []
    hc = os.path.join(ROOT, "hooks_commits.txt")
    if os.path.exists(hc):
        hooks_commits = [l.split()[0] for l in open(hc) if l.strip()]
    m = {
     "version": 1,
     "setup_cmd": "./setup.sh",
     "hooks": {
      "guard": "VERIF_TLA_TRACE",
      "enable": "hooks are plain Python in /repo/verif, imported from the working tree (PYTHONPATH=/repo); a check enables them by "
                "setting VERIF_TLA_TRACE=<ndjson path> in the environment of the process that imports verif; unset = every hook is one `if` that returns",
      "baseline_off_cmd": "cd /repo && env -u VERIF_TLA_TRACE /venv/bin/python -m pytest -ra -q -p no:cacheprovider --timeout=900 --continue-on-collection-errors",
      "source_commits": hooks_commits,
      "add_only": True,
     },
     "engines": [
      {"name": "tlc", "path": "/opt/veriftools/tla/tla2tools.jar", "serves_properties": sorted(CHECKS),
       "kind_free_text": "explicit-state model checker for the TLA+ modules in spec/; also the generator of the cases replayed into the code"},
      {"name": "harness", "path": "harness/", "serves_properties": sorted(CHECKS),
       "kind_free_text": "Python conformance harness: materialises TLC's abstract inputs as real files / argv, runs the code of /repo's working tree, projects and compares"},
     ],
     "checks": [],
     "notes": "See DESIGN.md. Verdicts: VIOLATION only when an observable named by the property disagrees with the abstract TLA+ "
              "specification; MODEL-DRIFT (exit 0) for internal disagreement with implementation-shaped models; exit 2 = machinery failure. "
              "known_findings.json lists recorded defects (open) and repaired ones (fixed).",
     "not_applicable": [],
    }
    for pid in props:
        if pid in CHECKS:
            c = CHECKS[pid]
            m["checks"].append({
              "property_id": pid,
              "quick_cmd": "./check %s quick" % pid,
              "thorough_cmd": "./check %s thorough" % pid,
              "evidence_file": "evidence/%s.json" % pid,
              "replay_cmd_template": "./check %s --replay {path}" % pid,
              "engine": "tlc",
              "level_claimed": {"category": "model_checking", "text": c["text"], "design_ref": "DESIGN.md section " + c["ref"]},
              "level_note": c.get("note", "") + NOTE_COMMON,
              "technique": c["technique"],
            })
        else:
            m["not_applicable"].append({"property_id": pid, "reason": NOT_APPLICABLE.get(pid, REASON_WIP)})
    with open(os.path.join(ROOT, "MANIFEST.json"), "w") as f:
        json.dump(m, f, indent=1)
    try:
        subprocess.run(["python3-vt", "-c", "import json,jsonschema;jsonschema.validate(json.load(open('%s/MANIFEST.json')), json.load(open('/root/.vp/MANIFEST.schema.json')));print('manifest valid')" % ROOT], check=True)
    except FileNotFoundError:
        pass

if __name__ == "__main__":
    main()
