"""C06 Categorical scores from the 2x2 table. Spec: Metrics.tla (Table, Cat, Swap/Complement/PerfectTable/Bounds lemmas
checked by TLC on every table up to a total and every small pair vector x bin type); every case replayed into
Contingency.compute_from_abcd (np.int64 counts) and compute_from_obs_fcst / _compute_abcd (intervals from util.get_intervals)."""
import math

from harness import tlc, par, expr
from harness.materialize import num
from harness.dsreplay import quiet, exc_site


def _check_chunk(cases):
    import numpy as np
    import verif.metric
    import verif.util
    n = 0
    divs = []
    metrics = {}
    for c in cases:
        def bad(site, detail, extra=None):
            rep = {"kind": "contingency", "case": {k: c[k] for k in ("kind", "T", "bt", "t", "o", "f")}}
            rep.update(extra or {})
            divs.append((site, detail, rep))
        try:
            with quiet():
                for name, e in c["scores"].items():
                    m = metrics.get(name) or verif.metric.get(name)
                    metrics[name] = m
                    want = expr.ev(e)
                    if c["kind"] == "table":
                        a, b, cc, d = [np.int64(x) for x in c["T"]]
                        with np.errstate(all="ignore"):
                            got = m.compute_from_abcd(a, b, cc, d)
                        n += 1
                        if not expr.agrees(want, got, rtol=1e-9):
                            bad("cat:" + name, "%s on table %r: expected %r observed %r" % (name, c["T"], want, float(got)),
                                {"metric": name, "expected": want, "observed": float(got)})
                        # the same table as plain Python numbers (what the resampling path and a caller of the API hand over): an undefined
                        # score is NaN there too, never an exception or infinity (after seed C06-j)
                        for conv in (int, float):
                            try:
                                with np.errstate(all="ignore"):
                                    got2 = m.compute_from_abcd(*[conv(x) for x in c["T"]])
                                n += 1
                                if not expr.agrees(want, got2, rtol=1e-9):
                                    bad("cat:" + name + ":python-numbers", "%s on table %r given as Python %s: expected %r observed %r"
                                        % (name, c["T"], conv.__name__, want, float(got2)), {"metric": name, "expected": want, "observed": float(got2)})
                            except ArithmeticError as ex:
                                bad("cat:" + name + ":python-numbers", "%s on table %r given as Python %s: expected %r, raised %r" % (name, c["T"], conv.__name__, want, ex),
                                    {"metric": name, "expected": want, "observed": repr(ex)})
                    else:
                        obs = np.array([num(x) for x in c["o"]], float)
                        fcst = np.array([num(x) for x in c["f"]], float)
                        iv = verif.util.get_intervals(c["bt"], np.array(c["t"], float))[0]
                        with np.errstate(all="ignore"):
                            got = m.compute_from_obs_fcst(obs, fcst, iv)
                        n += 1
                        ok = (math.isnan(float(got)) if want == "undef" else expr.agrees(want, got))
                        if not ok:
                            site = "cat:%s:infinite" % name if math.isinf(float(got)) else "cat:" + name
                            bad(site, "%s with -b %s -r 1,2 on obs=%r fcst=%r (table %r): expected %r observed %r"
                                % (name, c["bt"], c["o"], c["f"], c["T"], "NaN" if want == "undef" else want, float(got)),
                                {"metric": name, "expected": want, "observed": float(got)})
                if c["kind"] == "pairs":
                    obs = np.array([num(x) for x in c["o"]], float)
                    fcst = np.array([num(x) for x in c["f"]], float)
                    iv = verif.util.get_intervals(c["bt"], np.array(c["t"], float))[0]
                    T = [0 if np.ma.is_masked(x) else int(x) for x in metrics["ets"]._compute_abcd(obs, fcst, iv)]   # all pairs missing: masked sums
                    n += 1
                    if T != c["T"]:
                        bad("cat:table", "-b %s -r 1,2 on obs=%r fcst=%r: expected table %r observed %r" % (c["bt"], c["o"], c["f"], c["T"], T))
        except SystemExit:
            bad("cat:error-exit", "case ended in an error exit")
        except Exception as e:
            bad(exc_site(e), "%r" % (e,))
    return n, divs


def _run(ctx, cfg, limit=None):
    res = tlc.run("MC_Contingency", cfg, tag=ctx.pid + "_" + cfg, timeout_s=1500)
    ctx.add_tlc(cfg, res)
    cases = res.emitted
    if limit and len(cases) > limit:
        import random
        cases = random.Random(ctx.seed).sample(cases, limit)
    chunks = [cases[i:i + 100] for i in range(0, len(cases), 100)]
    for n, divs in par.pmap(_check_chunk, chunks, chunk=1):
        ctx.evaluations += n
        for site, detail, rep in divs:
            ctx.diverge(site, rep, detail=detail)
    ctx.traces += len(cases)
    for c in cases:
        if 0 in c["T"] or "nan" in c["o"] + c["f"]:
            ctx.nontriv(str((c["T"], c["bt"], c["o"], c["f"])))
    if cases:
        c = cases[len(cases) // 2]
        ctx.sample({"kind": c["kind"], "table": c["T"], "bin_type": c["bt"], "obs": c["o"], "fcst": c["f"],
                    "expected": {k: c["scores"][k] for k in ("ets", "hit", "far", "lor")}})


def _through_driver(ctx, limit):
    """the same scores as the program prints them (Report.tla): one event, and the mean over the events of several thresholds"""
    import random
    from harness.checks import c12
    res = tlc.run("MC_Report", "MC_Report_C12", tag=ctx.pid + "_report", timeout_s=1800)
    ctx.add_tlc("MC_Report/C12 (categorical scores through the driver)", res)
    cases = [o for o in res.emitted if o["metric"] in ("ets", "hit", "n")]
    if limit and len(cases) > limit:
        # tables under -C with a climatology that holds zeros (pairs whose quotient is no number are no pairs of the table) are always among them
        div = [o for o in cases if o.get("hasClim") and o.get("climType") == "divide" and o["axis"] in ("no", "time", "location", "leadtime", "threshold")]
        rng = random.Random(ctx.seed)
        cases = rng.sample(div, min(len(div), 12)) + rng.sample([o for o in cases if o not in div], limit)
    for n, divs in par.pmap(c12._check, [(o, [("csv", False, False, False)]) for o in cases], chunk=2):
        ctx.evaluations += n
        for site, detail, rep in divs:
            ctx.diverge(site, rep, detail=detail)
    ctx.traces += len(cases)
    par.clean_workdirs()


def run(ctx):
    ctx.rule = ("case = a 2x2 table (all tables with total <= 8 quick / 14 thorough) or a pair vector of length <= 2-3 over values placed "
                "below/at/between/at/above the thresholds and missing, x 8 bin types; x 25 metrics; non-trivial = a zero count or a missing value")
    ctx.assumptions = ["compute_from_abcd is called with np.int64 counts (the dataset path) and with Python ints / floats (the resampling path), total >= 1"]
    if ctx.tier == "quick":
        _run(ctx, "MC_Contingency_quick")
        _run(ctx, "MC_Contingency_pairsquick")
        _through_driver(ctx, 40)
    else:
        _run(ctx, "MC_Contingency_full")
        _run(ctx, "MC_Contingency_pairs")
        _through_driver(ctx, None)
        ctx.exhaustive = True


def replay(ctx, rep):
    c = dict(rep["case"])
    c["scores"] = {}
    print("replay: re-run ./check C06 quick for the full case; case was %r" % (c,))
    return 0
