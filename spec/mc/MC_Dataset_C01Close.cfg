SPECIFICATION Spec
CONSTANT Family = "C01Close"
INVARIANT InvSameCases
INVARIANT InvSameObs
INVARIANT InvDims
INVARIANT InvPartition
INVARIANT InvNonInterference
CHECK_DEADLOCK FALSE
