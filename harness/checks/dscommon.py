"""Shared driver for the Dataset.tla-based checks: run generator configs, replay, collate."""
import json

from harness import tlc, par, dsreplay


def run_family(ctx, family, fmt="text", variant=None, fresh=True, timeout_s=900, limit=None, nontrivial_key=None,
               module="MC_Dataset", seed_sample=None, always_nontrivial=False, nontrivial_fn=None, cli_lists=0, select_fn=None):
    res = tlc.run(module, "%s_%s" % (module, family), tag="%s_%s_%s" % (ctx.pid, module, family), timeout_s=timeout_s)
    ctx.add_tlc("%s/%s" % (module, family), res, {"Family": family})
    objs = res.emitted
    if select_fn:
        objs = [o for o in objs if select_fn(o)]
    if limit and len(objs) > limit:
        import random
        rng = random.Random(ctx.seed if seed_sample is None else seed_sample)
        objs = rng.sample(objs, limit)
    jobs = [(o, fmt, variant, fresh) for o in objs]
    results = par.pmap(dsreplay.check_dataset, jobs)
    for o, r in zip(objs, results):
        ctx.traces += 1
        ctx.evaluations += r["n"]
        if (nontrivial_fn(o) if nontrivial_fn else (r["nontrivial"] or always_nontrivial)):
            ctx.nontriv(json.dumps([o["inputs"], o.get("clim") if o.get("hasClim") else None, o["opts"]], sort_keys=True))
        for site, detail, rep in r["divs"]:
            ctx.diverge(site, rep, detail=detail)
    if cli_lists:
        sub = objs if len(objs) <= cli_lists else __import__("random").Random(ctx.seed + 7).sample(objs, cli_lists)
        for r in par.pmap(dsreplay.check_cli_lists, [(o, fmt if fmt != "auto" else "text") for o in sub]):
            ctx.evaluations += r["n"]
            ctx.traces += 1 if r["n"] else 0
            for site, detail, rep in r["divs"]:
                ctx.diverge(site, rep, detail=detail)
    if objs:
        o = objs[len(objs) // 2]
        ctx.sample({"family": family, "format": fmt, "inputs": o["inputs"], "opts": o["opts"],
                    "verified": {"times": o["times"], "leads": o["leads"], "locs": o["locs"]},
                    "first_requests": o["req"][:3]})
    return len(objs)


def replay(ctx, rep):
    divs = dsreplay.replay_dataset(rep)
    for site, detail, r in divs:
        ctx.diverge(site, r, detail=detail)
    print("replay: %d divergence(s)" % len(divs))
    return 1 if divs else 0
