SPECIFICATION SpecNc
CONSTANT Universe = "quick"
INVARIANT InvRoundTrip
INVARIANT InvDecode
CHECK_DEADLOCK FALSE
