"""Spec -> code replay for Dataset.tla: build real files from a TLC-emitted dataset, construct
verif.data.Data, and compare verified dimensions and every request with what TLC said."""
import math
import os
import sys
import traceback
import io
import contextlib

import numpy as np

from harness import materialize as mat
from harness import par

_REPO = os.environ.get("VERIF_REPO", "/repo").rstrip("/")
RTOL = 1e-9
ATOL = 1e-12
RTOL32 = 2e-6


def close(a, b, rtol=RTOL):
    if math.isnan(a) or math.isnan(b):
        return math.isnan(a) and math.isnan(b)
    if math.isinf(a) or math.isinf(b):
        return a == b
    return abs(a - b) <= ATOL + rtol * max(abs(a), abs(b))


def exc_site(e):
    """exception -> 'exception:Type@file.py:line' of the innermost frame inside /repo"""
    tb = traceback.extract_tb(e.__traceback__)
    where = "?"
    for fr in tb:
        if fr.filename.startswith(_REPO + "/"):
            where = "%s:%d" % (os.path.basename(fr.filename), fr.lineno)
    return "exception:%s@%s" % (type(e).__name__, where)


@contextlib.contextmanager
def quiet():
    """verif prints warnings to stdout; keep the check's own output clean"""
    old = sys.stdout
    sys.stdout = io.StringIO()
    try:
        yield sys.stdout
    finally:
        sys.stdout = old


def opts_kwargs(o):
    g = set(o.get("given", []))
    kw = {}
    if "t" in g:
        kw["times"] = np.array(o["t"], float)
    if "d" in g:
        kw["dates"] = np.array(o["d"], int)
    if "tod" in g:
        kw["tods"] = np.array(o["tod"], float)
    if "o" in g:
        kw["leadtimes"] = np.array(o["o"], float)
    if "l" in g:
        kw["locations"] = list(o["l"])
    if "lx" in g:
        kw["locations_x"] = list(o["lx"])
    if "latrange" in g:
        kw["lat_range"] = [float(x) for x in o["latrange"]]
    if "lonrange" in g:
        kw["lon_range"] = [float(x) for x in o["lonrange"]]
    if "elevrange" in g:
        kw["elev_range"] = [float(x) for x in o["elevrange"]]
    if "obsrange" in g:
        kw["obs_range"] = [mat.num(x) for x in o["obsrange"]]
    if "T" in g:
        import verif.aggregator
        import verif.axis
        kw["dim_agg_length"] = mat.num(o["T"][0])
        kw["dim_agg_method"] = verif.aggregator.get(o["T"][1])
        kw["dim_agg_axis"] = verif.axis.get(o["T"][2])
    return kw


def write_files(obj, fmt="text", variant=None, tag=""):
    """materialise all inputs (and the climatology) of a TLC dataset; returns (paths, clim path or None)"""
    wd = par.workdir()
    variant = variant or {}
    paths = []
    allin = list(obj["inputs"]) + ([obj["clim"]] if obj.get("hasClim") else [])
    for n, inp in enumerate(allin):
        use_nc = fmt == "netcdf" or (fmt == "auto" and mat.has_repeats(inp))
        inp = with_extra_nc(inp) if use_nc else with_extra(inp)
        p = os.path.join(wd, "%sin%d.%s" % (tag, n, "nc" if use_nc else "txt"))
        if os.path.exists(p):
            os.remove(p)
        if use_nc:
            mat.write_netcdf(p, inp, missing=variant.get("nc_missing", "nan"), nc_format=variant.get("nc_format", "NETCDF4"),
                             pad_time=bool(variant.get("nc_pad_time")) and n == 0)
        else:
            mat.write_text(p, inp, missing_token=variant.get("missing_token", "-999"),
                           row_order=variant.get("row_order"), col_order=variant.get("col_order"),
                           rng=variant.get("rng"), time_format=variant.get("time_format", "unixtime"))
        paths.append(p)
    clim = paths.pop() if obj.get("hasClim") else None
    return paths, clim


def load(obj, fmt="text", variant=None):
    import verif.input
    paths, climp = write_files(obj, fmt, variant)
    inputs = [verif.input.get_input(p) for p in paths]
    clim = verif.input.get_input(climp) if climp else None
    return inputs, clim


def make_data(obj, inputs, clim, extra=None):
    import verif.data
    kw = opts_kwargs(obj["opts"])
    if clim is not None:
        kw["clim"] = clim
        kw["clim_type"] = obj["climType"]
    if extra:
        kw.update(extra)
    # the caller's own list is handed over, every time: building a Data object must not change it (checked by callers that reuse it)
    return verif.data.Data(inputs, **kw)


def field_of(name):
    """field names of the specification -> verif.field objects: obs, fcst, q<level> (a quantile), p<threshold>, any other column name"""
    import verif.field
    if name in ("obs", "fcst"):
        return {"obs": verif.field.Obs, "fcst": verif.field.Fcst}[name]()
    lvl = (lambda v: float(np.float32(v))) if LEVELS_SINGLE_PRECISION else float
    if name[0] == "q" and mat_isnum(name[1:]):
        return verif.field.Quantile(lvl(name[1:]))
    if name[0] == "p" and mat_isnum(name[1:]):
        return verif.field.Threshold(lvl(name[1:]))
    if name[0] == "e" and name[1:].isdigit():
        return verif.field.Ensemble(int(name[1:]))
    return verif.field.Other(name)


def mat_isnum(s):
    try:
        float(s)
        return True
    except ValueError:
        return False


def with_extra(inp):
    """the extra fields of a specification input become columns of the same name (q<level> / p<threshold> / other score columns)"""
    ex = inp.get("extra")
    if not ex or not isinstance(ex, dict):
        return inp
    out = dict(inp)
    other = dict(out.get("other") or {})
    other.update({k: v for k, v in ex.items() if k not in (inp.get("derived") or [])})      # derived fields have no column: the program computes them
    out["other"] = other
    return out


def with_extra_nc(inp):
    """the same for a NetCDF file, whose layout has no free-form q<level> / p<threshold> / e<member> columns: those extra fields become the
    x / cdf / ensemble variables with their coordinate variables; every other name stays a variable of its own"""
    ex = inp.get("extra")
    if not ex or not isinstance(ex, dict):
        return inp
    out = dict(inp)
    ex = {k: v for k, v in ex.items() if k not in (inp.get("derived") or [])}
    groups = {"q": ("quantiles", "x"), "p": ("thresholds", "cdf"), "e": ("members", "ens")}
    other = dict(out.get("other") or {})
    for prefix, (levels_key, data_key) in groups.items():
        names = sorted([k for k in ex if k[0] == prefix and mat_isnum(k[1:])], key=lambda k: float(k[1:]))
        if not names:
            continue
        ncell = len(ex[names[0]])
        out[levels_key] = [float(k[1:]) if prefix != "e" else int(k[1:]) for k in names]
        out[data_key] = [ex[k][n] for n in range(ncell) for k in names]
    for k, v in ex.items():
        if not (k[0] in groups and mat_isnum(k[1:])):
            other[k] = v
    out["other"] = other
    return out


LEVELS_SINGLE_PRECISION = False      # set while a NetCDF dataset is replayed: the layout stores quantile levels / thresholds as single-precision numbers


def do_request(data, r):
    import verif.axis
    fields = [field_of(f) for f in r["f"]]
    axis = verif.axis.get(r["a"])
    if r["a"] == "all":
        return data.get_scores(fields, r["i"] - 1, axis, None)
    return data.get_scores(fields, r["i"] - 1, axis, r["k"] - 1)


def compare_request(r, res, grid_size, rtol=RTOL):
    """Returns None if the real result equals the expected one, else a short description."""
    nf = len(r["f"])
    if len(res) != nf:
        return "expected %d arrays, got %d" % (nf, len(res))
    arrs = [np.asarray(a, float) for a in res]
    if r["a"] == "all":
        flat = [a.reshape(-1) for a in arrs]
        if any(len(a) != grid_size for a in flat):
            return "whole-array request returned %s cells, verified grid has %d" % ([len(a) for a in flat], grid_size)
        exp = {c[0] - 1: [mat.num(v) for v in c[1:]] for c in r["c"]}
        for n in range(grid_size):
            for k in range(nf):
                e = exp[n][k] if n in exp else float("nan")
                if not close(float(flat[k][n]), e, rtol):
                    return "cell %d field %s: expected %r observed %r" % (n + 1, r["f"][k], e, float(flat[k][n]))
        return None
    if any(a.ndim != 1 for a in arrs):
        return "slice request returned non-vector"
    lens = set(len(a) for a in arrs)
    if len(lens) != 1:
        return "fields have different lengths %s" % sorted(lens)
    obs = sorted(tuple(float(a[m]) for a in arrs) for m in range(len(arrs[0])))
    exp = sorted(tuple(mat.num(v) for v in c[1:]) for c in r["c"])
    if not exp:
        if len(obs) == 1 and all(math.isnan(x) for x in obs[0]):
            return None
        return "no contributing case: expected a single NaN, observed %r" % (obs[:6],)
    if len(obs) != len(exp):
        return "expected %d cases %r, observed %d %r" % (len(exp), exp[:6], len(obs), obs[:6])
    for a, b in zip(obs, exp):
        for x, y in zip(a, b):
            if not close(x, y, rtol):
                return "expected %r observed %r" % (exp[:6], obs[:6])
    return None


def dims_of(data):
    return {"times": [int(t) for t in data.times], "leads": [float(x) for x in data.leadtimes],
            "locs": [int(loc.id) for loc in data.locations]}


def compare_dims(obj, d):
    for key in ("times", "leads", "locs"):
        e = [float(x) for x in obj[key]]
        o = [float(x) for x in d[key]]
        if e != o:
            return "%s: expected %r observed %r" % (key, e, o)
    return None


def compare_axis(obj, data, ax):
    """Data.get_axis_values(axis) against the spec's slice keys (C11)."""
    import verif.axis
    name = ax["a"]
    try:
        with quiet():
            vals = [float(v) for v in data.get_axis_values(verif.axis.get(name))]
    except SystemExit:
        return "get_axis_values(%s) ended in an error exit" % name
    except Exception as e:
        return "get_axis_values(%s): %r" % (name, e)
    keys = [float(k) for k in ax["keys"]]
    if len(vals) != len(keys):
        return "%s: expected %d slices %r, observed %d %r" % (name, len(keys), keys, len(vals), vals)
    if name in ("lat", "lon", "elev"):
        # one slice per location, labelled by the first input's metadata of that location
        meta = {"lat": "lat", "lon": "lon", "elev": "elev"}[name]
        first = obj["inputs"][0]
        lab = [float(first[meta][first["locs"].index(s)]) for s in obj["locs"]]
        return None if vals == lab else "%s labels: expected %r observed %r" % (name, lab, vals)
    if name == "dayofyear":
        # envelope: strictly increasing in calendar order; the spec's own numbering is one admissible choice
        if sorted(vals) != vals or len(set(vals)) != len(vals):
            return "dayofyear values not strictly increasing: %r" % vals
        return None
    if name in ("no", "threshold", "obs", "fcst"):
        return None
    if name == "timeofday":
        keys = [k / 3600.0 for k in keys]          # the spec keeps the time of day in seconds; the axis is labelled in hours
    return None if vals == keys else "%s: expected %r observed %r" % (name, keys, vals)


def nontrivial_c01(obj):
    """some cell is missing in one input and present in another (same field)"""
    ins = obj["inputs"] + ([obj["clim"]] if obj.get("hasClim") else [])
    for f in ("obs", "fcst"):
        cols = [i[f] for i in ins if (f != "obs" or i["hasObs"])]
        if len(cols) >= 2 and len(set(len(c) for c in cols)) == 1:
            for vals in zip(*cols):
                m = [v == "nan" for v in vals]
                if any(m) and not all(m):
                    return True
    return False


def _decoy():
    """another, unrelated dataset opened in the same process (other runs, other lead times): what one Data object answers is its own business"""
    import verif.data
    import verif.input
    p = os.path.join(par.workdir(), "decoy.txt")
    if not os.path.exists(p):
        mat.write_text(p, {"times": [1459317600, 1459490400, 1462082400], "leads": [3, 27, 51, 75], "locs": [7], "lat": [10], "lon": [20], "elev": [30],
                           "hasObs": True, "obs": list(range(12)), "fcst": list(range(1, 13))})
    with quiet():
        return verif.data.Data([verif.input.get_input(p)])


def scale_leads(obj, f):
    """the same dataset with every lead time multiplied by f (lead times need not be whole hours: with f = 1/8, 12 h -> 1.5 h); only for families whose
    request menu has no lead-time axis (the -o selection and the verified lead times scale along)"""
    import copy
    o = copy.deepcopy(obj)
    for inp in list(o["inputs"]) + ([o["clim"]] if o.get("clim") else []):
        if isinstance(inp, dict) and "leads" in inp:
            inp["leads"] = [l * f for l in inp["leads"]]
    o["leads"] = [l * f for l in o["leads"]]
    if "o" in o.get("opts", {}):
        o["opts"]["o"] = [l * f for l in o["opts"]["o"]]
    # the lead-time axis is labelled by the lead times themselves (they scale along); lead-time days are not a function of the scaled values
    axes = []
    for ax in o.get("axes", []):
        if ax["a"] == "leadtime":
            ax = dict(ax, keys=[k * f for k in ax["keys"]])
        if ax["a"] != "leadtimeday":
            axes.append(ax)
    if "axes" in o:
        o["axes"] = axes
    return o


LIST_OPTIONS = ("t", "d", "tod", "o", "l", "lx")


def respell_options(obj):
    """Dataset.tla takes the value of -t / -d / -tod / -o / -l / -lx as a SET: the same option spelled in another order and with
    every value given twice (-l 3,2,3,2 for {2, 3}; overlapping ranges on a command line do that) selects the same cases."""
    o = dict(obj)
    opts = dict(o["opts"])
    for name in LIST_OPTIONS:
        if name in opts.get("given", []) and opts.get(name):
            vals = list(opts[name])[::-1]
            opts[name] = vals + vals
    o["opts"] = opts
    return o


def check_dataset(job):
    """job = (obj, fmt, variant, fresh_per_request). Returns dict(n, divs, nontrivial)."""
    obj, fmt, variant, fresh = job
    if (variant or {}).get("lead_scale"):
        obj = scale_leads(obj, variant["lead_scale"])
    if (variant or {}).get("opt_spelling") == "repeat":
        obj = respell_options(obj)
    out = {"n": 0, "divs": [], "nontrivial": nontrivial_c01(obj)}
    base = {"kind": "dataset", "format": fmt, "variant": {k: v for k, v in (variant or {}).items() if k != "rng"},
            "dataset": {k: obj[k] for k in obj if k != "req"}}

    def div(site, detail, req=None, observed=None):
        rep = dict(base)
        rep["request"] = req
        rep["observed"] = observed
        out["divs"].append((site, detail, rep))

    try:
        with quiet():
            inputs, clim = load(obj, fmt, variant)
    except SystemExit:
        div("load:error-exit", "reading a well-formed generated file ended in an error exit")
        return out
    except Exception as e:
        div(exc_site(e), "reading generated files: %r" % (e,))
        return out
    try:
        with quiet():
            data = make_data(obj, inputs, clim)
    except SystemExit:
        out["n"] += 1
        if not obj["err"]:
            div("data:unexpected-error-exit", "Data() stopped with an error although the selection is not empty")
        return out
    except Exception as e:
        div(exc_site(e), "Data(): %r" % (e,))
        return out
    if obj["err"]:
        # an empty selection must not yield a number: every pooled request must be NaN
        out["n"] += 1
        try:
            with quiet():
                for f in (["obs"], ["fcst"]):
                    res = do_request(data, {"f": f, "i": 1, "a": "no", "k": 1})
                    if not np.all(np.isnan(np.asarray(res[0], float))):
                        div("empty-selection:numeric", "empty selection produced numbers %r" % (res[0][:5],))
        except SystemExit:
            pass
        except Exception as e:
            div(exc_site(e), "request on empty selection: %r" % (e,))
        return out
    d = dims_of(data)
    out["n"] += 1
    msg = compare_dims(obj, d)
    if msg:
        div("dims", msg, observed=d)
        return out
    grid = len(obj["times"]) * len(obj["leads"]) * len(obj["locs"])
    for ax in obj.get("axes", []):
        msg = compare_axis(obj, data, ax)
        out["n"] += 1
        if msg:
            div("axis-values:%s" % ax["a"], msg)
    rtol = RTOL32 if fmt != "text" else RTOL
    decoy = (variant or {}).get("decoy")
    if decoy:
        keep = _decoy()
    for r in obj["req"]:
        try:
            with quiet():
                dd = make_data(obj, inputs, clim) if fresh else data
                if decoy and fresh:
                    keep = _decoy()
                res = do_request(dd, r)
            out["n"] += 1
            if dd.num_inputs != len(obj["inputs"]) or len(inputs) != len(obj["inputs"]):
                div("data:scored-inputs", "Data() built from %d input files%s scores %d inputs (the caller's list now holds %d)"
                    % (len(obj["inputs"]), " and a climatology" if clim is not None else "", dd.num_inputs, len(inputs)), req=r)
                break
            msg = compare_request(r, res, grid, rtol)
            if msg:
                div("scores:%s" % r["a"], "fields=%s input=%d axis=%s[%d]: %s" % (r["f"], r["i"], r["a"], r["k"], msg), req=r)
        except SystemExit:
            div("scores:error-exit", "request %r ended in an error exit" % (r,), req=r)
        except Exception as e:
            div(exc_site(e), "request %r: %r" % (r, e), req=r)
    return out


def spell_dates(dates):
    """a set of dates in the documented list syntax, runs of consecutive days as a:b ranges, the LAST run first and a range never first
    when there is a choice (single dates and ranges mix in one list)"""
    ds = sorted(int(d) for d in dates)
    runs = []
    for d in ds:
        if runs and d == runs[-1][1] + 1:
            runs[-1][1] = d
        else:
            runs.append([d, d])
    parts = ["%d" % a if a == b else "%d:%d" % (a, b) for a, b in runs]
    parts.sort(key=lambda p: (":" in p, p))        # singles first, then the ranges
    return ",".join(parts)


def opts_argv(o):
    """the subsetting options of a TLC dataset as command-line tokens"""
    g = set(o.get("given", []))
    f = lambda xs: ",".join(mat.fmt(mat.num(x) if isinstance(x, list) else x) for x in xs)
    argv = []
    for name, flag in (("t", "-t"), ("d", "-d"), ("tod", "-tod"), ("o", "-o"), ("l", "-l"), ("lx", "-lx"),
                       ("latrange", "-latrange"), ("lonrange", "-lonrange"), ("elevrange", "-elevrange"), ("obsrange", "-obsrange")):
        if name in g:
            vals = o[name]
            if name == "lx" and not vals:
                continue
            if name == "d":
                argv += [flag, spell_dates(vals)]
                continue
            argv += [flag, f(vals)]
    if "T" in g:
        argv += ["-T", mat.fmt(mat.num(o["T"][0])), "-Tagg", o["T"][1], "-Tx", o["T"][2]]
    return argv


def check_cli_lists(job):
    """C03 through the command line: --list-times / --list-locations and the row descriptors of a csv table must show exactly
    the verified dimensions of the specification (option-to-argument wiring of the driver is inside the loop)."""
    import io
    import sys as _sys
    import verif.driver
    obj, fmt = job
    out = {"n": 0, "divs": []}
    base = {"kind": "cli-lists", "format": fmt, "dataset": {k: obj[k] for k in obj if k != "req"}}
    if "lx" in obj["opts"].get("given", []) and not obj["opts"]["lx"]:
        return out
    paths, climp = write_files(obj, fmt, tag="cl")
    argv0 = ["verif"] + paths + (["-c" if obj["climType"] == "subtract" else "-C", climp] if climp else []) + opts_argv(obj["opts"])

    def run(extra):
        old = _sys.stdout
        buf = io.StringIO()
        _sys.stdout = buf
        try:
            verif.driver.run(argv0 + extra)
            st = "ok"
        except SystemExit as e:
            st = "exit:%s" % (e.code,)
        except Exception as e:
            st = exc_site(e) + " " + repr(e)[:100]
        finally:
            _sys.stdout = old
        return st, "\n".join(l for l in buf.getvalue().split("\n") if not l.startswith("\x1b[1;3"))
    for what, extra in (("times", ["--list-times"]), ("locs", ["--list-locations"])):
        st, text = run(extra)
        out["n"] += 1
        rep = dict(base, argv=argv0[1 + len(paths):] + extra, output=text[:500])
        if st.startswith("exception"):
            out["divs"].append((st.split(" ")[0], "%s -> %s" % (" ".join(rep["argv"]), st), rep))
            continue
        if obj["err"] and st != "ok":
            continue          # an empty selection may end in an error exit
        if st != "ok":
            out["divs"].append(("cli:list:" + st, "%s ended with %s" % (" ".join(rep["argv"]), st), rep))
            continue
        if what == "times":
            got = [int(l) for l in text.split() if l.strip().lstrip("-").isdigit()]
            want = [int(t) for t in obj["times"]]
        else:
            got = []
            for l in text.split("\n"):
                parts = l.split()
                if len(parts) == 4 and parts[0].lstrip("-").isdigit():
                    got.append(int(parts[0]))
            want = [int(x) for x in obj["locs"]]
        if got != want:
            out["divs"].append(("cli:list-" + what, "%s: expected %r listed %r" % (" ".join(rep["argv"]), want, got), rep))
    return out


def replay_dataset(rep):
    """Re-run one recorded divergence (./check Cxx --replay file). Returns list of divergences now."""
    obj = dict(rep["dataset"])
    obj["req"] = [rep["request"]] if rep.get("request") else []
    res = check_dataset((obj, rep.get("format", "text"), rep.get("variant"), True))
    return res["divs"]
