"""C20 Helper scripts. Spec: Scripts.tla (Accumulate by steps with incomplete windows missing and the lemma
Accumulate = PreAgg(sum) on unit grids; Ens2Prob as envelopes: cdf between the strict and non-strict member fractions,
quantiles within the ensemble range and non-decreasing, PIT = fraction of members below the observation, missing where
the observation is; ExpandVerif by valid-time matching with the soundness lemma). Every TLC case is materialised as a text
or NetCDF input, the script's main() is run with patched sys.argv, and the NetCDF file it writes is read back with netCDF4
(independently of verif's reader) and compared variable by variable."""
import math
import os
import runpy
import sys

from harness import core, tlc, par, materialize as mat
from harness.materialize import num
from harness.dsreplay import quiet, exc_site, close

RT = 2e-6


def run_script(name, argv):
    old = sys.argv
    sys.argv = [name] + argv
    try:
        with quiet() as out:
            runpy.run_path(os.path.join(core.REPO, "scripts", "%s.py" % name), run_name="__main__")
    finally:
        sys.argv = old


def read_nc(path):
    import netCDF4
    import numpy as np
    f = netCDF4.Dataset(path)
    out = {}
    for name, v in f.variables.items():
        out[name] = np.ma.filled(np.ma.masked_invalid(v[:].astype(float)) if v.dtype.kind == "f" else v[:].astype(float), np.nan)
    f.close()
    return out


def arr_eq(want, got, tol=RT):
    import numpy as np
    g = np.asarray(got, float).reshape(-1)
    if len(want) != len(g):
        return False
    return all(close(num(w), float(x), tol) for w, x in zip(want, g))


def _check_chunk(jobs):
    import numpy as np
    n = 0
    divs = []
    wd = par.workdir()
    for idx, c in jobs:
        rep = {"kind": "script", "case": c}

        def bad(site, msg):
            divs.append((site, msg, rep))
        ipath = os.path.join(wd, "in.nc" if idx % 2 else "in.txt")
        opath = os.path.join(wd, "out.nc")
        for p in (ipath, opath):
            if os.path.exists(p):
                os.remove(p)
        try:
            if c["kind"] == "exp" and c.get("lunit", 3600) != 3600:      # lead times in hours, possibly fractional
                c = dict(c, leads=[l * c["lunit"] / 3600.0 for l in c["leads"]], oleads=[l * c["lunit"] / 3600.0 for l in c["oleads"]])
            if c["kind"] in ("acc", "exp", "win"):
                nloc = len(c["locs"])
                inp = {"times": c["times"], "leads": c["leads"], "locs": c["locs"], "lat": [50 + k for k in range(nloc)],
                       "lon": [10 + k for k in range(nloc)], "elev": [100 * k for k in range(nloc)], "hasObs": True,
                       "obs": c["obs"], "fcst": c.get("fcst", c["obs"])}
            else:
                m = len(c["ens"][0])
                inp = {"times": [1325376000], "leads": [0], "locs": [5, 9], "lat": [50, 51], "lon": [10, 11], "elev": [0, 100], "hasObs": True,
                       "obs": c["obs"], "fcst": [1, 1], "members": list(range(m)), "ens": [v for e in c["ens"] for v in e]}
            if ipath.endswith(".nc"):
                mat.write_netcdf(ipath, inp)
            else:
                mat.write_text(ipath, inp)
            meta_ok = lambda out: (arr_eq(inp["locs"], out["location"]) and arr_eq(inp["lat"], out["lat"]) and arr_eq(inp["lon"], out["lon"])
                                   and arr_eq(inp["elev"], out["altitude"]))
            if c["kind"] in ("acc", "exp", "win") and ipath.endswith(".txt"):
                # text2nc: the converted file carries the same times, lead times, location metadata and values
                cpath = os.path.join(wd, "converted.nc")
                if os.path.exists(cpath):
                    os.remove(cpath)
                run_script("text2nc", [ipath, cpath])
                n += 1
                conv = read_nc(cpath)
                if not (arr_eq(inp["times"], conv["time"], tol=0) and arr_eq(inp["leads"], conv["leadtime"]) and meta_ok(conv)):
                    bad("text2nc:metadata", "text2nc on times %r leads %r: times, lead times or location metadata not preserved (times %r, lead times %r)"
                        % (inp["times"], inp["leads"], np.asarray(conv["time"]).reshape(-1).tolist(), np.asarray(conv["leadtime"]).reshape(-1).tolist()))
                if not (arr_eq(inp["obs"], conv["obs"]) and arr_eq(inp["fcst"], conv["fcst"])):
                    bad("text2nc:values", "text2nc on obs %r fcst %r: observed obs %r fcst %r" % (inp["obs"], inp["fcst"],
                        np.asarray(conv["obs"]).reshape(-1).tolist(), np.asarray(conv["fcst"]).reshape(-1).tolist()))
            if c["kind"] == "win":
                argv = [ipath, opath, "-r", repr(float(num(c["thr"]))), "-b", c["bt"]]
                run_script("window", argv)
                n += 1
                out = read_nc(opath)
                lab = "window %s on obs=%r fcst=%r" % (" ".join(argv[2:]), c["obs"], c["fcst"])
                if not arr_eq(c["eobs"], out["obs"]):
                    bad("window:obs", "%s: expected obs windows %r observed %r" % (lab, [num(x) for x in c["eobs"]], np.asarray(out["obs"]).reshape(-1).tolist()))
                if not arr_eq(c["efcst"], out["fcst"]):
                    bad("window:fcst", "%s: expected fcst windows %r observed %r" % (lab, [num(x) for x in c["efcst"]], np.asarray(out["fcst"]).reshape(-1).tolist()))
                if not (arr_eq(inp["times"], out["time"], tol=0) and arr_eq(inp["leads"], out["leadtime"]) and meta_ok(out)):
                    bad("window:metadata", "%s: times, lead times or location metadata not preserved" % lab)
            elif c["kind"] == "acc":
                argv = [ipath, opath] + (["-w", str(c["w"])] if c["w"] > 0 else []) + (["-i"] if c["ignore"] else []) + ["-x", c["axis"]]
                try:
                    run_script("accumulate", argv)
                    exited = False
                except SystemExit as e:
                    exited = e.code not in (0, None)
                n += 1
                if c["err"]:
                    if not exited:
                        bad("accumulate:window-too-long", "window %d longer than the %s dimension: expected an error exit" % (c["w"], c["axis"]))
                    continue
                if exited:
                    bad("accumulate:error-exit", "accumulate %r ended in an error exit" % (argv[2:],))
                    continue
                out = read_nc(opath)
                lab = "accumulate %s on obs=%r fcst=%r" % (" ".join(argv[2:]), c["obs"], c["fcst"])
                if not arr_eq(c["eobs"], out["obs"]):
                    bad("accumulate:obs", "%s: expected obs %r observed %r" % (lab, [num(x) for x in c["eobs"]], np.asarray(out["obs"]).reshape(-1).tolist()))
                if not arr_eq(c["efcst"], out["fcst"]):
                    bad("accumulate:fcst", "%s: expected fcst %r observed %r" % (lab, [num(x) for x in c["efcst"]], np.asarray(out["fcst"]).reshape(-1).tolist()))
                if not (arr_eq(c["times"], out["time"], tol=0) and arr_eq(c["leads"], out["leadtime"]) and meta_ok(out)):
                    bad("accumulate:metadata", "%s: times / lead times / location metadata not preserved" % lab)
            elif c["kind"] == "ens":
                ths = ",".join(mat.fmt(num(t)) for t in c["thresholds"])
                lvs = ",".join(mat.fmt(num(t)) for t in c["levels"])
                argv = [ipath, opath, "-r", ths, "-q", lvs, "-p"]
                run_script("ens2prob", argv)
                n += 1
                out = read_nc(opath)
                lab = "ens2prob on members %r obs %r" % (c["ens"][0], c["obs"][0])
                cdf = np.asarray(out["cdf"], float)[0, 0, 0, :]
                x = np.asarray(out["x"], float)[0, 0, 0, :]
                pit = float(np.asarray(out["pit"], float)[0, 0, 0])
                if c["allMissing"]:
                    if not all(math.isnan(v) for v in cdf):
                        bad("ens2prob:cdf", "%s: all members missing, expected missing cdf, observed %r" % (lab, cdf.tolist()))
                else:
                    for k, v in enumerate(cdf):
                        lo, hi = num(c["cdflo"][k]), num(c["cdfhi"][k])
                        if math.isnan(v) or v < lo - 1e-6 or v > hi + 1e-6 or v < -1e-9 or v > 1 + 1e-9:
                            bad("ens2prob:cdf", "%s: cdf at threshold %r = %r outside [%r, %r]" % (lab, c["thresholds"][k], float(v), lo, hi))
                    bythr = sorted((num(t), float(v)) for t, v in zip(c["thresholds"], cdf))
                    if any(b[1] < a[1] - 1e-9 for a, b in zip(bythr, bythr[1:])):
                        bad("ens2prob:cdf-monotone", "%s: cdf decreases with the threshold: %r" % (lab, bythr))
                if not c["anyMissing"]:
                    lo, hi = num(c["lo"]), num(c["hi"])
                    prevx = -1e30
                    for k, v in enumerate(x):
                        if math.isnan(v) or v < lo - 1e-6 or v > hi + 1e-6:
                            bad("ens2prob:quantile", "%s: quantile %r = %r outside the ensemble range [%r, %r]" % (lab, c["levels"][k], float(v), lo, hi))
                        elif v < prevx - 1e-9:
                            bad("ens2prob:quantile-monotone", "%s: quantiles decrease with the level: %r" % (lab, x.tolist()))
                        prevx = v if not math.isnan(v) else prevx
                    want = num(c["pit"])
                    ok = math.isnan(pit) if math.isnan(want) else close(want, pit, RT)
                    if not ok:
                        site = "ens2prob:pit-missing-obs" if math.isnan(want) else "ens2prob:pit"
                        bad(site, "%s: expected PIT %r observed %r" % (lab, want, pit))
                if not arr_eq(c["thresholds"], out["threshold"]) or not arr_eq(c["levels"], out["quantile"]):
                    bad("ens2prob:levels", "%s: threshold / quantile variables %r %r do not list the requested values" % (lab, out["threshold"].tolist(), out["quantile"].tolist()))
                if not (arr_eq(inp["times"], out["time"], tol=0) and arr_eq(inp["leads"], out["leadtime"]) and meta_ok(out)
                        and arr_eq(inp["obs"], out["obs"]) and arr_eq(inp["fcst"], out["fcst"])):
                    bad("ens2prob:metadata", "%s: dimensions, location metadata or obs/fcst not preserved" % lab)
            else:
                argv = [ipath, "-o", opath, "-i", ",".join(str(h) for h in c["hours"]), "-lt", ",".join(str(h) for h in c["oleads"])]
                run_script("expandverif", argv)
                n += 1
                out = read_nc(opath)
                lab = "expandverif -i %s -lt %s on times %r obs %r" % (c["hours"], c["oleads"], c["times"], c["obs"])
                # the order in which the output lists its times is not part of the property: compare by coordinates
                otimes = [float(t) for t in np.asarray(out["time"]).reshape(-1)]
                if sorted(otimes) != [float(t) for t in c["otimes"]] or not arr_eq(c["oleads"], out["leadtime"]):
                    bad("expandverif:dims", "%s: expected times %r leads %r, observed %r %r" % (lab, c["otimes"], c["oleads"], otimes, out["leadtime"].tolist()))
                    continue
                perm = [otimes.index(float(t)) for t in c["otimes"]]
                got = np.asarray(out["obs"], float)[perm, :, :]
                if not arr_eq(c["eobs"], got):
                    bad("expandverif:obs", "%s: expected %r observed %r" % (lab, [num(x) for x in c["eobs"]], got.reshape(-1).tolist()))
                if not meta_ok(out):
                    bad("expandverif:metadata", "%s: location metadata not preserved" % lab)
        except SystemExit:
            bad("script:error-exit", "%s case ended in an error exit" % c["kind"])
        except Exception as e:
            bad(exc_site(e), "%s: %r" % (c["kind"], e))
    return n, divs


def run(ctx):
    ctx.rule = ("case = (input series with missing values, script options): accumulate x window 0..5 x axis x -i; ens2prob x ensembles of 1-3 "
                "members with missing members x observation below/at/between/above/missing; expandverif x time subsets x init hours x "
                "lead-time lists; window x series of 0/1/2/missing amounts x 4 bin types x 3 thresholds; non-trivial = input has a missing value or the window is incomplete somewhere")
    ctx.assumptions = ["observations reported for the same valid time agree (expandverif)",
                       "ens2prob cdf and quantiles are held to envelopes (strictness and interpolation are not documented)"]
    for kind in ("acc", "ens", "exp", "win"):
        res = tlc.run("MC_Scripts", "MC_Scripts_" + kind, tag=ctx.pid + "_" + kind, timeout_s=900)
        ctx.add_tlc("MC_Scripts/" + kind, res, {"Kind": kind})
        cases = res.emitted
        if ctx.tier == "quick" and len(cases) > 250:
            import random
            cases = random.Random(ctx.seed).sample(cases, 250)
        jobs = list(enumerate(cases))
        for n, divs in par.pmap(_check_chunk, [jobs[i:i + 10] for i in range(0, len(jobs), 10)], chunk=1):
            ctx.evaluations += n
            for site, detail, rep in divs:
                ctx.diverge(site, rep, detail=detail)
        ctx.traces += len(cases)
        for c in cases:
            if "nan" in str(c) or c.get("w", 0) > 1:
                ctx.nontriv(str(c)[:300])
        if cases:
            ctx.sample(cases[len(cases) // 2])
    ctx.exhaustive = ctx.tier != "quick"
    par.clean_workdirs()


def replay(ctx, rep):
    n, divs = _check_chunk([(0, rep["case"])])
    for site, detail, r in divs:
        ctx.diverge(site, r, detail=detail)
    print("replay: %d divergence(s)" % len(divs))
    return 1 if divs else 0
