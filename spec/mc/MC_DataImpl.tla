----------------------------- MODULE MC_DataImpl -----------------------------
(* Model-checking wrapper for DataImpl.tla: all request sequences up to       *)
(* MaxLen over a menu, on every dataset of a universe.  TLC checks that the   *)
(* implementation-shaped model refines Dataset.tla; with EmitLeaves it also   *)
(* prints every maximal behaviour (dataset + request sequence + expected      *)
(* arrays) for replay into real verif.data.Data objects.                      *)
EXTENDS DataImpl, DatasetGen

CONSTANTS MaxLen, EmitLeaves
VARIABLES hist
vars == <<ds, opt, X, heap, fcache, rcache, nid, returned, last, hist>>

\* the request menu: single and multiple fields, every input, whole-array / pooled / sliced
MenuFields == {<<"obs">>, <<"fcst">>, <<"obs", "fcst">>}
Menu == {[fields |-> f, inp |-> i, axis |-> a[1], idx |-> a[2]] :
           f \in MenuFields, i \in 1..X.n, a \in {<<"all", 1>>, <<"no", 1>>, <<"time", 1>>, <<"time", 2>>, <<"location", 1>>, <<"location", 2>>}}
MenuOk(r) == r.axis = "all" \/ r.idx <= NumSlices(X, r.axis)

Usable(g) == LET D == DsOf(g) IN ~EmptySelection(D, g.opt) /\ SomeObs(D)
Init == /\ \E g \in {u \in Universe(0) : Usable(u)} : InitImpl(DsOf(g), g.opt)
        /\ hist = <<>>

ReqJ(r) == [f |-> r.fields, i |-> r.inp, a |-> r.axis, k |-> r.idx]
ArrJ(a) == [m \in DOMAIN a |-> J(a[m])]
EmitBehaviour(h) ==
  PrintT(ToJson([fam |-> Family,
                 inputs |-> [j \in DOMAIN ds.inputs |-> InputJson(ds.inputs[j])],
                 hasClim |-> ds.hasClim, clim |-> InputJson(ds.clim), climType |-> ds.climType,
                 opts |-> OptJson(opt), err |-> FALSE,
                 times |-> X.T, leads |-> X.L, locs |-> X.S,
                 seq |-> [q \in DOMAIN h |-> [r |-> ReqJ(h[q]),
                                              e |-> LET ea == ExpectedArrays(X, h[q]) IN [k \in DOMAIN ea |-> ArrJ(ea[k])]]]]))

\* (without EmitLeaves the history is not recorded, so that behaviours reaching the same caches merge)
Step == /\ TLCGet("level") <= MaxLen
        /\ \E r \in {q \in Menu : MenuOk(q)} :
              /\ Request(r)
              /\ hist' = IF EmitLeaves THEN Append(hist, r) ELSE hist
              /\ (EmitLeaves /\ Len(hist') = MaxLen) => EmitBehaviour(hist')
Next == Step
Spec == Init /\ [][Next]_vars

=============================================================================
