SPECIFICATION Spec
CONSTANT Kind = "acc"
INVARIANT InvAccIsPreAgg
INVARIANT InvCdfMonotone
INVARIANT InvPitRange
INVARIANT InvExpandSound
INVARIANT InvWindowIsSpell
INVARIANT InvWindowBounded
CHECK_DEADLOCK FALSE
