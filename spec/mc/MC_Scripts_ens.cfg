SPECIFICATION Spec
CONSTANT Kind = "ens"
INVARIANT InvAccIsPreAgg
INVARIANT InvCdfMonotone
INVARIANT InvPitRange
INVARIANT InvExpandSound
CHECK_DEADLOCK FALSE
