"""C16 Diagrams draw the quantities their definitions prescribe. Spec: Diagrams.tla (per diagram, the series of points it must
draw as functions of the common valid cases; one series per input in command-line order; every value in exactly one bin of a
binned diagram). Conformance: verif.driver.run with the Agg backend; the Line2D / bar artists of the resulting figure are
projected (label, x data, y data) and every expected series must be present with the right label, in input order."""
import io
import math
import os
import sys

from harness import tlc, par, expr, dsreplay
from harness.dsreplay import exc_site
from harness.checks.c17 import _figure

TOL = 1e-6


def artists(fig):
    """all drawn series of a figure: list of dict(kind, label, x, y)"""
    import numpy as np
    out = []
    for ax in fig.axes:
        for l in ax.get_lines():
            x = np.asarray(l.get_xdata(), float).reshape(-1)
            y = np.asarray(l.get_ydata(), float).reshape(-1)
            out.append({"kind": "line", "label": str(l.get_label()), "x": x.tolist(), "y": y.tolist()})
        bars = [p for p in ax.patches if p.__class__.__name__ == "Rectangle"]
        if bars:
            out.append({"kind": "bars", "label": "", "x": [float(p.get_x() + p.get_width() / 2.0) for p in bars], "y": [float(p.get_height()) for p in bars]})
        for cont in getattr(ax, "containers", []):
            ps = [p for p in cont.patches]
            out.append({"kind": "barset", "label": str(cont.get_label()), "title": ax.get_title(),
                        "x": [float(p.get_x() + p.get_width() / 2.0) for p in ps], "y": [float(p.get_height()) for p in ps]})
        for col in ax.collections:
            try:
                off = np.asarray(col.get_offsets(), float)
                if off.ndim == 2 and off.shape[1] == 2 and len(off):
                    arr = col.get_array()
                    out.append({"kind": "scatter", "label": str(col.get_label()), "x": off[:, 0].tolist(), "y": off[:, 1].tolist(),
                                "c": None if arr is None else np.asarray(arr, float).reshape(-1).tolist(), "title": ax.get_title(),
                                "colorbar": ax.get_label() == "<colorbar>", "s": np.asarray(col.get_sizes(), float).reshape(-1).tolist()})
            except Exception:
                pass
    return out


def _eq(want, got):
    if want == "any":
        return True
    if want == "undef":
        return math.isnan(got) or math.isinf(got)
    if math.isnan(want):
        return math.isnan(got)
    if math.isinf(want):
        return got == want
    return (not math.isnan(got)) and abs(want - got) <= TOL * max(1.0, abs(want))


def matches(ex, ey, art, unordered):
    if len(art["x"]) != len(ex) or len(art["y"]) != len(ey):
        return False
    if unordered:
        key = lambda p: tuple((-1e300 if (isinstance(v, str) or v != v) else v) for v in p)
        want = sorted(zip(ex, ey), key=key)
        got = sorted(zip(art["x"], art["y"]), key=lambda p: tuple((-1e300 if v != v else v) for v in p))
        return all(_eq(a[0], b[0]) and _eq(a[1], b[1]) for a, b in zip(want, got))
    return all(_eq(a, b) for a, b in zip(ex, art["x"])) and all(_eq(a, b) for a, b in zip(ey, art["y"]))


def _map_ok(c, arts, names):
    """map view: panel i (in input order) is titled with input i's name and holds exactly the locations with a score, at (lon, lat), coloured by it"""
    msgs = []
    panels = [a for a in arts if a["kind"] == "scatter" and a.get("c") is not None and not a.get("colorbar")]
    titles = [a["title"] for a in panels]
    if titles != names[:len(c["series"])]:
        msgs.append("panels are titled %r, expected the inputs in command-line order %r" % (titles, names))
        return msgs
    for s, a in zip(c["series"], panels):
        want = []
        for ex, ey, ec in zip(s["x"], s["y"], s["c"]):
            v = expr.ev(ec)
            if v == "undef" or (isinstance(v, float) and math.isnan(v)):
                continue
            want.append((expr.ev(ex), expr.ev(ey), v))
        got = sorted(zip(a["x"], a["y"], a["c"]))
        want.sort()
        if len(got) != len(want) or not all(_eq(w[0], g[0]) and _eq(w[1], g[1]) and _eq(w[2], g[2]) for w, g in zip(want, got)):
            msgs.append("panel %r: expected points (lon, lat, score) %r, drawn %r" % (a["title"], want, got))
    return msgs


def _check_chunk(cases):
    import matplotlib.pyplot as mpl
    n = 0
    divs = []
    wd = par.workdir()
    out = os.path.join(wd, "diagram.png")
    for c in cases:
        paths, _ = dsreplay.write_files(c, "text", tag="dg")
        names = [os.path.basename(p) for p in paths]
        st, fig = _figure(paths, list(c["argv"]), [], out)
        n += 1
        rep = {"kind": "diagram", "argv": c["argv"], "files": [open(p).read() for p in paths], "expected": c["series"]}
        if st != "ok":
            site = st.split(" ")[0] if st.startswith("exception") else "diagram:%s:%s" % (c["diagram"], st)
            divs.append((site, "%s -> %s" % (" ".join(c["argv"]), st), rep))
            continue
        arts = artists(fig)
        rep["drawn"] = [{"kind": a["kind"], "label": a["label"], "x": a["x"][:12], "y": a["y"][:12]} for a in arts[:12]]
        order = []
        if c["bars"]:
            bars = [a for a in arts if a["kind"] == "bars"]
            want = [expr.ev(s["y"][0]) for s in c["series"]]
            if not bars or len(bars[0]["y"]) != len(want) or not all(_eq(w, g) for w, g in zip(want, bars[0]["y"])):
                divs.append(("diagram:%s:bars" % c["diagram"], "%s: expected bar heights %r in input order, drawn %r" % (" ".join(c["argv"]), want, bars[0]["y"] if bars else None), rep))
            mpl.close("all")
            continue
        if c["diagram"] == "impact":
            for s in c["series"]:
                lab = names[s["label"][1] - 1] + s["label"][2]
                want = sorted((expr.ev(a), expr.ev(b), expr.ev(v)) for a, b, v in zip(s["x"], s["y"], s["c"]))
                got = [a for a in arts if a["kind"] == "scatter" and a["label"] == lab]
                pts = sorted(zip(got[0]["x"], got[0]["y"], [v / 400.0 for v in got[0]["s"]])) if got else None
                if want and (pts is None or len(pts) != len(want) or not all(_eq(w[k], g[k]) for w, g in zip(want, pts) for k in range(3))):
                    divs.append(("diagram:impact:points", "%s: %r expected points (x, y, relative area) %r, drawn %r" % (" ".join(c["argv"]), lab, want, pts), rep))
                if not want and got and len(got[0]["x"]):
                    divs.append(("diagram:impact:points", "%s: %r expected no point, drawn %r" % (" ".join(c["argv"]), lab, got[0]["x"]), rep))
            mpl.close("all")
            continue
        if c["diagram"] == "map":
            msgs = _map_ok(c, arts, names)
            for m in msgs:
                divs.append(("diagram:map:panel", "%s: %s" % (" ".join(c["argv"]), m), rep))
            mpl.close("all")
            continue
        for s in c["series"]:
            ex = [expr.ev(e) for e in s["x"]]
            ey = [expr.ev(e) for e in s["y"]]
            label = s["label"]
            cands = [k for k, a in enumerate(arts) if a["kind"] in ("line", "scatter") and matches(ex, ey, a, c["unordered"])]
            lab = (names[label[1] - 1] + (label[2] if len(label) > 2 else "")) if isinstance(label, list) else None
            if lab is not None:
                labelled = [k for k in cands if arts[k]["label"] == lab]
                if not labelled:
                    what = "drawn under another label %r" % [arts[k]["label"] for k in cands] if cands else "not drawn"
                    near = [a for a in arts if a["label"] == lab]
                    divs.append(("diagram:%s:series" % c["diagram"], "%s: the series of input %d (label %r) x=%r y=%r is %s; that label shows x=%r y=%r"
                                 % (" ".join(c["argv"]), label[1], lab, ex[:8], ey[:8], what, near[0]["x"][:8] if near else None, near[0]["y"][:8] if near else None), rep))
                else:
                    order.append((label[1], labelled[0]))
            elif not cands:
                divs.append(("diagram:%s:series" % c["diagram"], "%s: the %s series x=%r y=%r is not drawn" % (" ".join(c["argv"]), label or "unlabelled", ex[:8], ey[:8]), rep))
        idx = [k for _, k in sorted(order)]
        if idx != sorted(idx):
            divs.append(("diagram:%s:input-order" % c["diagram"], "%s: the series are not drawn in command-line order of the inputs" % " ".join(c["argv"]), rep))
        mpl.close("all")
    return n, divs


def prob_files(c, wd):
    from harness import materialize as mat
    paths = []
    n = len(c["inputs"][0]["obs"])
    for w, inp in enumerate(c["inputs"]):
        d = {"times": [1325376000], "leads": [0], "locs": list(range(1, n + 1)), "lat": [50 + k for k in range(n)], "lon": [10] * n, "elev": [0] * n,
             "hasObs": True, "obs": inp["obs"], "fcst": inp["fcst"], "pit": inp["pit"],
             "thresholds": [1, 2], "cdf": [v for pair in zip(inp["c1"], inp["c2"]) for v in pair],
             "quantiles": [0.1, 0.5, 0.9], "x": [v for trip in inp["q"] for v in trip]}
        p = os.path.join(wd, "pd%d.txt" % w)
        mat.write_text(p, d)
        paths.append(p)
    return paths


def _series_ok(c, series, arts, names):
    """-> list of messages for the expected series that are not drawn as specified"""
    msgs = []
    for s in series:
        ex = [expr.ev(e) for e in s["x"]]
        ey = [expr.ev(e) for e in s["y"]]
        label = s["label"]
        if isinstance(label, list) and label[0] == "#bars":
            want_label = names[label[1] - 1] + label[2]
            sets = [a for a in arts if a["kind"] == "barset" and (a["label"] == want_label or (label[2] == "" and a["title"] == names[label[1] - 1]))]
            if not any(len(a["y"]) == len(ey) and all(_eq(w, g) for w, g in zip(ey, a["y"])) for a in sets):
                msgs.append("bars of %r: expected heights %r, drawn %r" % (want_label, ey, [a["y"] for a in sets][:2]))
            continue
        cands = [a for a in arts if a["kind"] == "line" and matches(ex, ey, a, False)]
        if isinstance(label, list):
            lab = names[label[1] - 1] + (label[2] if len(label) > 2 else "")
            if not any(a["label"] == lab for a in cands):
                near = [a for a in arts if a["label"] == lab]
                msgs.append("series of input %d (%r): expected x=%r y=%r, that label shows x=%r y=%r" % (label[1], lab, ex, ey, near[0]["x"] if near else None, near[0]["y"] if near else None))
        elif not cands:
            msgs.append("%s series: expected x=%r y=%r is not drawn" % (label or "unlabelled", ex, ey))
    return msgs


def _check_session(cases, prob=False):
    """the same figures drawn in ONE session: every verif.driver.run of the chunk gets the SAME verif.data.Data object for the same
    files and selection (as a script does that loads its data once and draws several diagrams) -- a diagram must not change what
    the next one is drawn from"""
    from harness import session
    with session.shared_data():
        if prob:
            n, pdivs = _check_prob_chunk(cases)
            divs = [(site, detail, rep) for site, known, detail, rep in pdivs]
        else:
            n, divs = _check_chunk(cases)
    return n, [(site + ":one-session", detail + " [drawn in one session on a shared Data object, after: %s]" % ", ".join(c["diagram"] for c in cases[:6]), rep)
               for site, detail, rep in divs]


def _check_prob_session(cases):
    return _check_session(cases, prob=True)


def _check_prob_chunk(cases):
    import matplotlib.pyplot as mpl
    n = 0
    divs = []
    wd = par.workdir()
    out = os.path.join(wd, "pdiagram.png")
    for c in cases:
        paths = prob_files(c, wd)[:c.get("files", 2)]
        names = [os.path.basename(p) for p in paths]
        st, fig = _figure(paths, list(c["argv"]), [], out)
        n += 1
        rep = {"kind": "diagram", "argv": c["argv"], "inputs": c["inputs"], "expected": c["series"]}
        if st != "ok":
            site = st.split(" ")[0] if st.startswith("exception") else "diagram:%s:%s" % (c["diagram"], st)
            divs.append((site, False, "%s -> %s" % (" ".join(c["argv"]), st), rep))
            continue
        arts = artists(fig)
        msgs = _series_ok(c, c["series"], arts, names)
        if msgs:
            # recorded finding F-p1-bin: a probability of exactly 1 lies in no bin; known only if the figure equals the as-implemented series
            known = c["impl"] != c["series"] and not _series_ok(c, c["impl"], arts, names)
            site = "diagram:p-equal-1-in-no-bin" if known else "diagram:%s:series" % c["diagram"]
            divs.append((site, known, "%s: %s" % (" ".join(c["argv"]), msgs[0]), rep))
        mpl.close("all")
    return n, divs


def run(ctx):
    ctx.rule = ("case = (dataset with missing cells or boundary-straddling times | 12-case probabilistic dataset, diagram, option variant): standard "
                "line/bar plots, map and impact views, and all 28 special diagrams of the help text; non-trivial = the expected series has more than one point")
    ctx.assumptions = ["figures are compared as matplotlib artist data (Line2D x/y, bar heights), not pixels",
                       "fss and autocorr/autocov along -x leadtime / time only (geographic distances are not rational); taylor slices of at most 24 cases",
                       "meteo, invreliability with -r, spreadskill with -r: on the 12-case probabilistic datasets",
                       "impact view: positions and relative areas of the points (not the marginal bars); map view: one titled panel per input",
                       "not transcribed into Diagrams.tla: the rank / maprank / mapimpact views, whose tie tolerance (a 50th of the scores' standard deviation) "
                       "is an implementation choice without a documented definition (their crash-freedom is C19's)"]
    res = tlc.run("MC_Diagrams", "MC_Diagrams_C12", tag=ctx.pid + "_det", timeout_s=1500)
    ctx.add_tlc("MC_Diagrams/C12", res, {"Family": "C12"})
    cases = res.emitted
    # inputs with ensemble members, drawn as time series (one thin line per input, member and initialisation time)
    rese = tlc.run("MC_Diagrams", "MC_Diagrams_C18Ens", tag=ctx.pid + "_ens", timeout_s=600)
    ctx.add_tlc("MC_Diagrams/C18Ens", rese, {"Family": "C18Ens"})
    cases = cases + rese.emitted
    for n, divs in par.pmap(_check_chunk, [cases[i:i + 8] for i in range(0, len(cases), 8)], chunk=1):
        ctx.evaluations += n
        for site, detail, rep in divs:
            ctx.diverge(site, rep, detail=detail)
    # one session per dataset: all its diagrams on one shared Data object, qq / scatter / against first, then the rest; then in reverse
    import json as _json
    groups = {}
    for c in cases:
        groups.setdefault(_json.dumps(c["inputs"], sort_keys=True), []).append(c)
    first = {"qq": 0, "scatter": 1, "against": 2, "obsfcst": 3}
    sessions = []
    for key in sorted(groups):
        g = sorted(groups[key], key=lambda c: (first.get(c["diagram"], 9), c["diagram"], " ".join(c["argv"])))
        sessions.append(g)
        sessions.append(g[::-1])
    if ctx.tier == "quick":
        sessions = sessions[:4]
    for n, divs in par.pmap(_check_session, sessions, chunk=1):
        ctx.evaluations += n
        for site, detail, rep in divs:
            ctx.diverge(site, rep, detail=detail)
    ctx.traces += len(cases)
    for c in cases:
        if any(len(s["x"]) > 1 for s in c["series"]):
            ctx.nontriv(str((c["inputs"][0]["times"], c["inputs"][0]["obs"][:4], c["argv"])))
    if cases:
        c = cases[len(cases) // 2]
        ctx.sample({"argv": c["argv"], "expected_series": c["series"][:2]})
    res = tlc.run("MC_ProbDiagrams", "MC_ProbDiagrams", tag=ctx.pid + "_prob", timeout_s=1500)
    ctx.add_tlc("MC_ProbDiagrams", res)
    pcases = res.emitted
    if ctx.tier == "quick":
        import random
        pcases = random.Random(ctx.seed).sample(pcases, min(len(pcases), 220))
    for n, divs in par.pmap(_check_prob_chunk, [pcases[i:i + 8] for i in range(0, len(pcases), 8)], chunk=1):
        ctx.evaluations += n
        for site, known, detail, rep in divs:
            ctx.diverge(site, rep, as_implemented=known, detail=detail)
    pgroups = {}
    for c in pcases:
        pgroups.setdefault(_json.dumps(c["inputs"], sort_keys=True), []).append(c)
    psessions = []
    for key in sorted(pgroups):
        g = sorted(pgroups[key], key=lambda c: (c["diagram"], " ".join(c["argv"])))
        psessions.append(g)
        psessions.append(g[::-1])
    if ctx.tier == "quick":
        psessions = [g[:14] for g in psessions[:6]]
    for n, divs in par.pmap(_check_prob_session, psessions, chunk=1):
        ctx.evaluations += n
        for site, detail, rep in divs:
            ctx.diverge(site, rep, detail=detail)
    ctx.traces += len(pcases)
    kinds = {}
    for c in cases + pcases:
        kinds[c["diagram"]] = kinds.get(c["diagram"], 0) + 1
    ctx.extra["figures_per_diagram"] = kinds
    for c in pcases:
        ctx.nontriv(str((c["argv"], c["inputs"][0]["c1"], c["inputs"][1]["c1"], c["inputs"][0]["obs"][:3])))
    if pcases:
        c = pcases[len(pcases) // 2]
        ctx.sample({"argv": c["argv"], "expected_series": c["series"][:1]})
    ctx.exhaustive = ctx.tier != "quick"
    par.clean_workdirs()


def replay(ctx, rep):
    print("replay: %r -- re-run ./check C16 quick" % (rep.get("argv"),))
    return 0
