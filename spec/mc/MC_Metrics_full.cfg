SPECIFICATION Spec
CONSTANT Universe = "full"
INVARIANT InvPerfectAttains
INVARIANT InvPerfectAgg
INVARIANT InvNeverBetter
INVARIANT InvAggConsistency
INVARIANT InvOrder
CHECK_DEADLOCK FALSE
