SPECIFICATION Spec
CONSTANTS Kind = "cli"
          K = 3
          Family = "none"
INVARIANT InvVector
INVARIANT InvOrderIndependent
CHECK_DEADLOCK FALSE
