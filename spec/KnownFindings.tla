---------------------------- MODULE KnownFindings ----------------------------
(* As-implemented operators for recorded findings (known_findings.json).       *)
(* A divergence between the code and the abstract specification is reported    *)
(* as KNOWN-FINDING only if it occurs at the recorded site AND the observed    *)
(* value equals what the operator below predicts; anything else at the same    *)
(* site is a new VIOLATION.                                                    *)
EXTENDS Events

\* F-interval-infinite (C07): util.get_intervals builds below*/above* events as intervals whose infinite end is OPEN,
\* so Interval.within(-inf) is False for `below` (and within(+inf) False for `above`), although -inf < t and
\* util.apply_threshold agree that the value is in the event.
In_AsImplemented(iv, x) ==
  /\ ~IsNaN(x)
  /\ (Gt(x, iv.lo) \/ (iv.lc /\ iv.lo # MInf /\ x = iv.lo))
  /\ (Lt(x, iv.hi) \/ (iv.uc /\ iv.hi # PInf /\ x = iv.hi))
=============================================================================
