"""C18 Query results independent of history. Spec: DataImpl.tla (heap, field cache, request cache, aliasing, in-place
writes) refining Dataset.tla.  TLC (1) explores every request sequence up to length 3 over a 36-request menu and checks
HistoryIndependent / EarlierUnaltered / CacheCoherent / CacheGrows; (2) under a canonical view that forgets object ids,
visits EVERY cache state reachable by histories of any length over a 12-request core menu (datasets x 2^12 states).
Maximal behaviours are replayed on real Data objects (black box); hook traces of those executions and of random request
sequences are validated against the model (white box, MODEL-DRIFT only for internals)."""
import random
from harness import par, tlc, c18replay


def _validate_traces(ctx, recorded, tag):
    """white box: TLC checks the recorded executions against DataImpl.tla (Trace_DataImpl)"""
    from harness import tracecheck
    traces = [t for t in recorded if not t.get("nohooks")]
    if len(traces) < len(recorded):
        ctx.note_drift("hooks absent or silent: %d of %d executions left no events; white-box trace validation skipped for them"
                       % (len(recorded) - len(traces), len(recorded)))
    if not traces:
        return
    ok, drift, rejected = tracecheck.validate(ctx, "Trace_DataImpl", traces, tag)
    ctx.extra["traces_accepted_by_tlc"] = ctx.extra.get("traces_accepted_by_tlc", 0) + len(ok)
    ctx.traces += len(ok)
    for t in drift[:3]:
        ctx.note_drift("execution follows Dataset.tla on every returned value but not DataImpl.tla's internals (cache hits / object ids / load steps), e.g. %s"
                       % ([(e["fields"], e["input"], e["axis"], e["hit"], e["ids"]) for e in t["events"]],))
    if len(drift) > 3:
        ctx.drift["(further traces with internal drift)"] = len(drift) - 3
    for t in rejected:
        ctx.diverge("trace:rejected", {"kind": "trace", "trace": t},
                    detail="TLC cannot follow the recorded execution even on observables: %s" % ([(e["fields"], e["input"], e["axis"], e["index"]) for e in t["events"]],))


def _replay_cfg(ctx, cfg, fmt="text", limit=None, record=0, perturb=None, variant=None):
    res = tlc.run("MC_DataImpl", cfg, tag=ctx.pid + "_" + cfg, timeout_s=1500)
    ctx.add_tlc(cfg, res, {})
    emitted = res.emitted
    if limit and len(emitted) > limit:
        emitted = random.Random(ctx.seed).sample(emitted, limit)
    jobs = [(ds, seqs, fmt, False, perturb, variant) for ds, seqs in c18replay.group(emitted)]
    if record:
        # a sample of the behaviours is executed once more with the hooks on, and the recorded traces go to TLC
        rng = random.Random(ctx.seed + 1)
        sample = emitted if len(emitted) <= record else rng.sample(emitted, record)
        jobs += [(ds, seqs, fmt, True) for ds, seqs in c18replay.group(sample, per_group=100)]
    recorded = []
    for out in par.pmap(c18replay.check_group, jobs, chunk=1):
        recorded += out["recorded"]
        ctx.traces += out["traces"]
        ctx.evaluations += out["n"]
        for site, detail, rep in out["divs"]:
            ctx.diverge(site, rep, detail=detail)
    for o in emitted:
        rs = [s["r"] for s in o["seq"]]
        if len(set(map(str, rs))) > 1:
            ctx.nontriv(str((o["inputs"], rs)))
    if recorded:
        _validate_traces(ctx, recorded, cfg)
    if emitted:
        o = emitted[len(emitted) // 2]
        ctx.sample({"inputs": o["inputs"], "request_sequence": [s["r"] for s in o["seq"]], "expected_last": o["seq"][-1]["e"]})


def _random_sequences(ctx, family, n_datasets, per_dataset, maxlen):
    """code -> spec on RANDOM request sequences (seeded): executions of real Data objects are recorded through the hooks and
    TLC decides, with Trace_DataImpl, whether each is a behaviour of the model -- all refinement invariants being evaluated at
    every step.  No expected values exist on the Python side."""
    res = tlc.run("MC_Dataset", "MC_Dataset_" + family, tag=ctx.pid + "_rnd_" + family, timeout_s=900)
    ctx.add_tlc("MC_Dataset/%s (datasets for random sequences)" % family, res, {"Family": family})
    rng = random.Random(ctx.seed + 17)
    objs = [o for o in res.emitted if not o["err"]]
    objs = rng.sample(objs, min(n_datasets, len(objs)))
    jobs = []
    for o in objs:
        ds = {k: o[k] for k in ("fam", "inputs", "hasClim", "clim", "climType", "opts", "err", "times", "leads", "locs")}
        nin = len(o["inputs"])
        seqs = []
        for _ in range(per_dataset):
            seq = []
            for _ in range(rng.randint(3, maxlen)):
                axis = rng.choice(["all", "no", "time", "leadtime", "location"])
                size = {"all": 1, "no": 1, "time": len(o["times"]), "leadtime": len(o["leads"]), "location": len(o["locs"])}[axis]
                seq.append({"r": {"f": rng.choice([["obs"], ["fcst"], ["obs", "fcst"], ["fcst", "obs"]]), "i": rng.randint(1, nin), "a": axis, "k": rng.randint(1, size)}})
            seqs.append(seq)
        jobs.append((ds, seqs, "text", True))
    recorded = []
    for out in par.pmap(c18replay.check_group, jobs, chunk=1):
        ctx.evaluations += out["n"]
        for site, detail, rep in out["divs"]:
            ctx.diverge(site, rep, detail=detail)
        recorded += out["recorded"]
    for j in jobs:
        for seq in j[1]:
            ctx.nontriv(str((j[0]["inputs"], [s["r"] for s in seq])))
    _validate_traces(ctx, recorded, "random_" + family)


def _one_command(job):
    """one command line in a fresh interpreter with the given hash seed -> (status, output)"""
    import os
    import subprocess
    import sys
    from harness import core
    argv, seed = job
    env = dict(os.environ, PYTHONPATH=core.REPO, MPLBACKEND="Agg")
    env.pop("PYTHONHASHSEED", None)
    if seed is not None:
        env["PYTHONHASHSEED"] = str(seed)
    p = subprocess.run([sys.executable, "-c", "import sys, verif.driver; verif.driver.run(sys.argv)"] + list(argv),
                       env=env, stdout=subprocess.PIPE, stderr=subprocess.STDOUT, timeout=300)
    return p.returncode, p.stdout.decode("utf-8", "replace")


def _repeat_commands(ctx):
    """repeating the same command on the same files yields identical output: every command is run in several fresh interpreters (string hashing
    seeded differently, as it is from one run of a program to the next) and must print the same"""
    import os
    from harness import materialize as mat
    from harness.checks import c19
    wd = par.workdir()
    full = c19.dataset("full", 0)
    other = c19.dataset("full", 1)
    paths = {}
    for name, d in (("a", full), ("b", other)):
        paths[name] = os.path.join(wd, "rep_%s.txt" % name)
        mat.write_text(paths[name], d, row_order="shuffle", rng=random.Random(5))
        paths[name + "_noid"] = os.path.join(wd, "rep_%s_noid.txt" % name)
        lines = open(mat.write_text(os.path.join(wd, "tmp_rep.txt"), d)).read().split("\n")
        head = next(l for l in lines if l.strip() and not l.startswith("#")).split()
        k = head.index("location") if "location" in head else head.index("id")
        open(paths[name + "_noid"], "w").write("\n".join(l if l.startswith("#") else " ".join(c for j, c in enumerate(l.split()) if j != k)
                                                          for l in lines if l.strip()) + "\n")
        paths[name + "_nc"] = os.path.join(wd, "rep_%s.nc" % name)
        mat.write_netcdf(paths[name + "_nc"], d)
    commands = []
    for suffix in ("", "_noid", "_nc"):
        files = [paths["a" + suffix], paths["b" + suffix]]
        for opts in (["-m", "mae", "-x", "location", "-type", "csv"], ["-m", "mae", "-x", "leadtime", "-type", "text"],
                     ["-m", "ets", "-r", "2", "-x", "location", "-type", "csv"], ["-m", "obsfcst", "-x", "time", "-type", "csv"],
                     ["-m", "corr", "-x", "lat", "-type", "text"]):
            commands.append(files + opts)
    seeds = [0, 1, 2, 3] if ctx.tier == "quick" else [0, 1, 2, 3, 4, 5, None, None]
    jobs = [(argv, s) for argv in commands for s in seeds]
    results = par.pmap(_one_command, jobs, chunk=1)
    k = 0
    for argv in commands:
        outs = results[k:k + len(seeds)]
        k += len(seeds)
        ctx.evaluations += len(seeds)
        ctx.traces += 1
        if any(o != outs[0] for o in outs[1:]):
            j = next(i for i, o in enumerate(outs) if o != outs[0])
            ctx.diverge("repeat:command-output", {"kind": "repeat", "argv": [os.path.basename(a) if os.path.exists(a) else a for a in argv]},
                        detail="`verif %s` printed different output in two fresh interpreters (hash seeds %r and %r): %r versus %r"
                        % (" ".join(os.path.basename(a) if os.path.exists(a) else a for a in argv), seeds[0], seeds[j], outs[0][1][:160], outs[j][1][:160]))
        elif outs[0][0] != 0:
            ctx.diverge("repeat:command-failed", {"kind": "repeat", "argv": argv}, detail="`verif %s` failed: %s" % (" ".join(argv[2:]), outs[0][1][-200:]))


def _repository_tests(ctx):
    """code -> spec on the repository's own test-suite: every Data object its tests build (from verif/tests/files) and every array those
    objects return is validated by TLC against DataImpl.tla / Dataset.tla (harness/repotests.py)"""
    from harness import repotests
    info = repotests.validate(ctx, thorough=ctx.tier != "quick")
    for t in range(info["traces_full"] + info["traces_observables_only"]):
        ctx.nontriv("repository-test trace %d" % t)


def _unbounded(ctx, cfg, expect_states):
    """histories of ANY length: under VIEW CacheView (object ids are names) the state graph of DataImpl.tla is finite -- every subset
    of the 12-request core menu is a cache content -- and TLC visits all of it: CacheCoherent in every state, CacheGrows /
    HandedOutStable / LastIsCached on every transition.  The in-memory state queue (StateDeque) is required: TLC's disk queue cannot
    serialise the lazily built functions of states that were fingerprinted through a view."""
    res = tlc.run("MC_DataImpl", cfg, tag=ctx.pid + "_" + cfg, timeout_s=3000, require_emit=False, deque=True)
    ctx.add_tlc(cfg + " (unbounded histories, 12-request core menu, canonical view)", res, {"MaxLen": "unbounded"})
    if res.distinct != expect_states:
        raise tlc.TlcFailure("%s: expected %d canonical cache states (datasets x 2^12), TLC found %d" % (cfg, expect_states, res.distinct))
    ctx.extra.setdefault("unbounded_history_states", {})[cfg] = res.distinct


def run(ctx):
    ctx.rule = ("case = (dataset with inputs that disagree on missing cells, sequence of <= 3 requests from the 36-request menu) replayed into real "
                "Data objects, + random sequences of up to 12 requests validated by TLC, + every cache state reachable by histories of any "
                "length over a 12-request core menu (model level); non-trivial = the sequence contains at least two different requests")
    ctx.assumptions = ["observations of different inputs agree where both are present"]
    if ctx.tier == "quick":
        res = tlc.run("MC_DataImpl", "MC_DataImpl_C18QuickL2", tag=ctx.pid + "_model", timeout_s=900, require_emit=False)
        ctx.add_tlc("MC_DataImpl_C18QuickL2 (all sequences <= 2 over the 36-request menu, 16 datasets)", res, {"MaxLen": 2})
        res = tlc.run("MC_DataImpl", "MC_DataImpl_C18OneL3", tag=ctx.pid + "_model1", timeout_s=900, require_emit=False)
        ctx.add_tlc("MC_DataImpl_C18OneL3 (all sequences <= 3, 1 dataset)", res, {"MaxLen": 3})
        _unbounded(ctx, "MC_DataImpl_C18OneUnbounded", 4096)
        _replay_cfg(ctx, "MC_DataImpl_C18EmitL2", limit=6000, record=1000)
        _replay_cfg(ctx, "MC_DataImpl_C18EmitL3", limit=3000, record=500)
        _replay_cfg(ctx, "MC_DataImpl_C18EmitMix", limit=4000, record=500)
        _replay_cfg(ctx, "MC_DataImpl_C18EmitSingle", limit=3000, record=300)      # every input dimension aligned with the verified ones
        _replay_cfg(ctx, "MC_DataImpl_C18EmitAxes", limit=3000, record=300)        # slices of several derived dimensions with the same slice number
        _replay_cfg(ctx, "MC_DataImpl_C18EmitExtra", limit=3000)      # other fields as cache keys (two quantile levels that agree to two decimals)
        # the same on NetCDF files that mark missing values with a _FillValue of their own (-9999-like): a stored quantile asked for BEFORE
        # obs / fcst must not change how those are read (after seed C18-j)
        _replay_cfg(ctx, "MC_DataImpl_C18EmitExtra", limit=1200, fmt="netcdf", variant={"nc_missing": "fill"})
        # ensemble members as fields; before every request a quantile that has to be derived from the members is asked for as well
        _replay_cfg(ctx, "MC_DataImpl_C18EmitEns", limit=1500, perturb="quantile-from-ensemble")
        # probabilities the files do not store (derived from the members), files whose members are missing at different cells: every ordered
        # pair of requests, so also "first file, then second file"
        _replay_cfg(ctx, "MC_DataImpl_C18EmitDerived", limit=2500)
        _random_sequences(ctx, "C18Mix", 32, 10, 8)
        _repeat_commands(ctx)
        _repository_tests(ctx)
    else:
        res = tlc.run("MC_DataImpl", "MC_DataImpl_C18QuickFixed", tag=ctx.pid + "_model", timeout_s=900, require_emit=False)
        ctx.add_tlc("MC_DataImpl_C18QuickFixed (all sequences <= 3, 16 datasets)", res, {"MaxLen": 3})
        res = tlc.run("MC_DataImpl", "MC_DataImpl_C18MixFixed", tag=ctx.pid + "_model2", timeout_s=1500, require_emit=False)
        ctx.add_tlc("MC_DataImpl_C18MixFixed (obs-less input, climatology, -obsrange)", res, {"MaxLen": 3})
        _unbounded(ctx, "MC_DataImpl_C18QuickUnbounded", 16 * 4096)
        _unbounded(ctx, "MC_DataImpl_C18MixUnbounded", 32 * 4096)
        _replay_cfg(ctx, "MC_DataImpl_C18EmitL2")
        _replay_cfg(ctx, "MC_DataImpl_C18EmitL2", fmt="netcdf")
        _replay_cfg(ctx, "MC_DataImpl_C18EmitL3", record=4000)
        _replay_cfg(ctx, "MC_DataImpl_C18EmitMix", record=4000)
        _replay_cfg(ctx, "MC_DataImpl_C18EmitSingle", record=2000)
        _replay_cfg(ctx, "MC_DataImpl_C18EmitAxes", record=2000)
        _replay_cfg(ctx, "MC_DataImpl_C18EmitExtra")
        _replay_cfg(ctx, "MC_DataImpl_C18EmitEns", perturb="quantile-from-ensemble")
        _replay_cfg(ctx, "MC_DataImpl_C18EmitDerived")
        _random_sequences(ctx, "C18Mix", 32, 60, 12)
        _random_sequences(ctx, "C18Quick", 16, 60, 12)
        _repeat_commands(ctx)
        _repository_tests(ctx)
        ctx.exhaustive = True
    par.clean_workdirs()


def replay(ctx, rep):
    out = c18replay.check_group((rep["dataset"], [rep["seq"]] if rep.get("seq") else [], rep.get("format", "text")))
    for site, detail, r in out["divs"]:
        ctx.diverge(site, r, detail=detail)
    print("replay: %d divergence(s)" % len(out["divs"]))
    return 1 if out["divs"] else 0
