---------------------------- MODULE Trace_DataImpl ----------------------------
(* Trace validation: executions RECORDED from the real verif.data.Data (hook   *)
(* events + the values the harness projected from the arrays it was handed)    *)
(* are checked against DataImpl.tla.  A batch file holds many traces; every    *)
(* trace is its own initial state and its own linear behaviour; a trace is     *)
(* accepted iff TLC prints ACCEPT <id> for it.  All refinement invariants of   *)
(* DataImpl are INVARIANTs here, so they are evaluated at every step of the    *)
(* real execution.                                                             *)
(* Strict = TRUE : internal structure must match too (hit/miss, object ids =   *)
(*                 aliasing, Load/Propagate/ObsRange sub-steps)                *)
(* Strict = FALSE: only the observables (returned values) must match           *)
EXTENDS DataImpl, Json, IOUtils, TLCExt, SequencesExt

CONSTANT Strict
VARIABLES tid, l
tvars == <<ds, opt, X, heap, fcache, rcache, nid, returned, last, tid, l>>

Batch == JsonDeserialize(IOEnv.TRACE_FILE)
Traces == Batch.traces

\* ---- JSON -> specification values ----
\* flat arrays are row-major over the file's own (time, lead time, location) positions
Unflat(I, flat) == LET nl == Len(I.leads)  ns == Len(I.locs)
                   IN  [p \in (1..Len(I.times)) \X (1..nl) \X (1..ns) |->
                          LET m == ((p[1] - 1) * nl + (p[2] - 1)) * ns + p[3] IN <<flat[m][1], flat[m][2]>>]
InputOf(j) == [times |-> j.times, leads |-> j.leads, locs |-> j.locs, lat |-> j.lat, lon |-> j.lon, elev |-> j.elev,
               hasObs |-> j.hasObs, obs |-> Unflat(j, j.obs), fcst |-> Unflat(j, j.fcst)]
DsOfJson(t) == [inputs |-> [k \in DOMAIN t.inputs |-> InputOf(t.inputs[k])], hasClim |-> t.hasClim,
                clim |-> InputOf(t.clim), climType |-> t.climType]
OptOfJson(o) == [given |-> ToSet(o.given), t |-> ToSet(o.t), d |-> ToSet(o.d), tod |-> ToSet(o.tod), o |-> ToSet(o.o),
                 l |-> ToSet(o.l), lx |-> ToSet(o.lx), latrange |-> <<o.latrange[1], o.latrange[2]>>,
                 lonrange |-> <<o.lonrange[1], o.lonrange[2]>>, elevrange |-> <<o.elevrange[1], o.elevrange[2]>>,
                 obsrange |-> <<<<o.obsrange[1][1], o.obsrange[1][2]>>, <<o.obsrange[2][1], o.obsrange[2][2]>>>>]
ReqOfJson(e) == [fields |-> e.fields, inp |-> e.input, axis |-> e.axis, idx |-> e.index]

Events == Traces[tid].events

TraceInit == /\ tid \in DOMAIN Traces
             /\ InitImpl(DsOfJson(Traces[tid]), OptOfJson(Traces[tid].opts))
             /\ l = 1

\* the values the harness read from the arrays the call returned, against the model's arrays (observable)
ValuesMatch(e) == /\ Len(e.values) = Len(last'.ids)
                  /\ \A k \in DOMAIN e.values :
                        /\ Len(e.values[k]) = Len(heap'[last'.ids[k]])
                        /\ \A m \in DOMAIN e.values[k] : <<e.values[k][m][1], e.values[k][m][2]>> = heap'[last'.ids[k]][m]
\* internal structure (a maintainer may change it: disagreement is MODEL-DRIFT, never a violation)
StepsMatch(e) == /\ Len(e.steps) = Len(last'.steps)
                 /\ \A q \in DOMAIN e.steps :
                      LET a == e.steps[q]  b == last'.steps[q] IN
                      /\ a.ev = b.ev
                      /\ (a.ev = "Load" => a.field = b.field /\ a.ids = b.ids /\ a.propagated = b.propagated)
                      /\ (a.ev = "ObsRange" => a.input = b.input /\ a.masked = b.masked)
InternalMatch(e) == e.hit = last'.hit /\ e.ids = last'.ids /\ StepsMatch(e)

\* the verified dimensions a successfully built object reports (observable, C03)
TraceDims ==
  /\ l <= Len(Events) /\ Events[l].ev = "Dims"
  /\ LET e == Events[l] IN e.times = X.T /\ e.leads = X.L /\ e.locs = X.S
  /\ l' = l + 1 /\ tid' = tid
  /\ UNCHANGED ivars

\* building the object ended in an error exit: allowed only when the selection leaves nothing (C03)
TraceInitError ==
  /\ l <= Len(Events) /\ Events[l].ev = "InitError"
  /\ EmptySelection(ds, opt)
  /\ l' = l + 1 /\ tid' = tid
  /\ UNCHANGED ivars

TraceGetScores ==
  /\ l <= Len(Events) /\ Events[l].ev = "GetScores"
  /\ LET e == Events[l] IN
       /\ Request(ReqOfJson(e))
       /\ ValuesMatch(e)
       /\ (Strict => InternalMatch(e))
  /\ l' = l + 1 /\ tid' = tid

TraceDone == /\ l = Len(Events) + 1
             /\ l' = l + 1 /\ tid' = tid
             /\ UNCHANGED ivars
             /\ PrintT(ToJson([accept |-> Traces[tid].id]))

TraceNext == TraceGetScores \/ TraceDims \/ TraceInitError \/ TraceDone
TraceSpec == TraceInit /\ [][TraceNext]_tvars
=============================================================================
