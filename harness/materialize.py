"""Abstract Input (as emitted by the TLA+ generators) -> real verif text / NetCDF files.

Nothing here imports verif: a bug in verif's readers cannot cancel against the same bug in the writer.
An abstract input is a dict: times, leads, locs, lat, lon, elev (lists), hasObs, obs, fcst (flat row-major
lists over positions; "nan" = missing), optionally: pit (flat), thresholds + cdf (flat, last dim threshold),
quantiles + x, members + ens, other {name: flat}, variable {name, units, x0, x1}.
"""
import os
import random

import numpy as np

MISSING = ("nan", None)


def num(v):
    """abstract value -> float"""
    if v in MISSING:
        return float("nan")
    if v == "inf":
        return float("inf")
    if v == "-inf":
        return float("-inf")
    if isinstance(v, (list, tuple)):
        return v[0] / float(v[1])
    return float(v)


def fmt(v):
    if isinstance(v, (list, tuple)):
        return repr(v[0] / float(v[1]))
    if isinstance(v, float) and v == int(v):
        return str(int(v))
    return str(v)


def cell_index(inp, i, j, k):
    return (i * len(inp["leads"]) + j) * len(inp["locs"]) + k


def has_repeats(inp):
    return any(len(set(inp[d])) != len(inp[d]) for d in ("times", "leads", "locs"))


def write_text(path, inp, missing_token="-999", row_order=None, col_order=None, time_format="unixtime",
               lead_name="leadtime", id_name="location", elev_name="altitude", sep=" ", rng=None,
               comment_lines=None):
    """Write the abstract input as a verif text file. row_order: None (row-major), "reverse", "shuffle"."""
    cols = []
    if time_format == "unixtime":
        cols.append("unixtime")
    else:
        cols += ["date", "hour"]
    cols += [lead_name, id_name, "lat", "lon", elev_name]
    if inp.get("hasObs", True):
        cols.append("obs")
    if inp.get("hasFcst", True):
        cols.append("fcst")
    if inp.get("pit") is not None:
        cols.append("pit")
    for t in inp.get("thresholds", []):
        cols.append("p" + fmt(t))
    for q in inp.get("quantiles", []):
        cols.append("q" + fmt(q))
    for m in inp.get("members", []):
        cols.append("e" + fmt(m))
    for name in sorted(inp.get("other", {})):
        cols.append(name)
    if col_order == "reverse":
        cols = cols[::-1]
    elif col_order == "shuffle":
        (rng or random).shuffle(cols)
    nt, nl, ns = len(inp["times"]), len(inp["leads"]), len(inp["locs"])
    positions = [(i, j, k) for i in range(nt) for j in range(nl) for k in range(ns)]
    if row_order == "reverse":
        positions.reverse()
    elif row_order == "shuffle":
        (rng or random).shuffle(positions)
    skip = set(map(tuple, inp.get("absentRows", [])))
    nth, nq, nm = len(inp.get("thresholds", [])), len(inp.get("quantiles", [])), len(inp.get("members", []))

    def tok(v):
        return missing_token if v in MISSING else fmt(v)

    lines = []
    var = inp.get("variable")
    if var:
        for key in ("variable", "units", "x0", "x1"):
            if var.get(key) is not None:
                lines.append("# %s: %s" % (key, var[key]))
    for c in (comment_lines or []):
        lines.append(c)
    lines.append(sep.join(cols))
    for (i, j, k) in positions:
        if (i + 1, j + 1, k + 1) in skip:
            continue
        n = cell_index(inp, i, j, k)
        row = {}
        t = inp["times"][i]
        if time_format == "unixtime":
            row["unixtime"] = str(t)
        else:
            import datetime
            d = datetime.datetime(1970, 1, 1) + datetime.timedelta(seconds=t)
            row["date"] = d.strftime("%Y%m%d")
            row["hour"] = fmt((t % 86400) / 3600.0)
        row[lead_name] = fmt(inp["leads"][j])
        row[id_name] = fmt(inp["locs"][k])
        row["lat"] = fmt(inp["lat"][k])
        row["lon"] = fmt(inp["lon"][k])
        row[elev_name] = fmt(inp["elev"][k])
        if inp.get("hasObs", True):
            row["obs"] = tok(inp["obs"][n])
        if inp.get("hasFcst", True):
            row["fcst"] = tok(inp["fcst"][n])
        if inp.get("pit") is not None:
            row["pit"] = tok(inp["pit"][n])
        for a, t_ in enumerate(inp.get("thresholds", [])):
            row["p" + fmt(t_)] = tok(inp["cdf"][n * nth + a])
        for a, q in enumerate(inp.get("quantiles", [])):
            row["q" + fmt(q)] = tok(inp["x"][n * nq + a])
        for a, m in enumerate(inp.get("members", [])):
            row["e" + fmt(m)] = tok(inp["ens"][n * nm + a])
        for name in inp.get("other", {}):
            row[name] = tok(inp["other"][name][n])
        lines.append(sep.join(row[c] for c in cols))
    with open(path, "w") as f:
        f.write("\n".join(lines) + "\n")
    return path


def write_netcdf(path, inp, missing="nan", with_location_var=True, with_latlon=True, with_altitude=True, nc_format="NETCDF4",
                 pad_time=False):
    """Write the abstract input in the documented NetCDF layout. missing: nan | fill | -999 | big | masked.
    nc_format: any on-disk flavour netCDF4 writes.  pad_time: the (integer) time variable gets one more, UNWRITTEN entry at the end --
    a missing coordinate, not an initialisation time -- and the data variables hold ordinary numbers in that slot."""
    import netCDF4
    f = netCDF4.Dataset(path, "w", format=nc_format)
    nt, nl, ns = len(inp["times"]), len(inp["leads"]), len(inp["locs"])
    f.createDimension("time", None if not pad_time else nt + 1)
    f.createDimension("leadtime", nl)
    f.createDimension("location", ns)
    if pad_time:
        v = f.createVariable("time", "i4", ("time",))
        v[0:nt] = np.array(inp["times"], int)
    else:
        v = f.createVariable("time", "f8", ("time",))
        v[:] = np.array(inp["times"], float)
    v = f.createVariable("leadtime", "f4", ("leadtime",))
    v[:] = np.array([num(x) for x in inp["leads"]], float)
    if with_location_var:
        v = f.createVariable("location", "i4", ("location",))
        v[:] = np.array(inp["locs"], int)
    if with_latlon:
        v = f.createVariable("lat", "f4", ("location",))
        v[:] = np.array(inp["lat"], float)
        v = f.createVariable("lon", "f4", ("location",))
        v[:] = np.array(inp["lon"], float)
    if with_altitude:
        v = f.createVariable("altitude", "f4", ("location",))
        v[:] = np.array(inp["elev"], float)

    def put(name, flat, extra_dim=None, extra_n=0):
        dims = ("time", "leadtime", "location") + ((extra_dim,) if extra_dim else ())
        shape = (nt, nl, ns) + ((extra_n,) if extra_dim else ())
        arr = np.array([num(x) for x in flat], float).reshape(shape)
        if pad_time:
            arr = np.concatenate([arr, np.full((1,) + shape[1:], 40.0)], axis=0)
        kw = {}
        if missing in ("fill", "masked"):
            kw["fill_value"] = -1e9 if missing == "fill" else None
        var = f.createVariable(name, "f4", dims, **{k: v_ for k, v_ in kw.items() if v_ is not None})
        isn = np.isnan(arr)
        if missing == "nan":
            var[:] = arr
        elif missing == "-999":
            arr[isn] = -999
            var[:] = arr
        elif missing == "big":
            arr[isn] = 9.96921e36
            var[:] = arr
        else:
            var[:] = np.ma.masked_array(arr, isn)
        return var

    if inp.get("hasObs", True):
        put("obs", inp["obs"])
    if inp.get("hasFcst", True):
        put("fcst", inp["fcst"])
    if inp.get("pit") is not None:
        put("pit", inp["pit"])
    if inp.get("thresholds"):
        f.createDimension("threshold", len(inp["thresholds"]))
        v = f.createVariable("threshold", "f4", ("threshold",))
        v[:] = np.array([num(x) for x in inp["thresholds"]], float)
        put("cdf", inp["cdf"], "threshold", len(inp["thresholds"]))
    if inp.get("quantiles"):
        f.createDimension("quantile", len(inp["quantiles"]))
        v = f.createVariable("quantile", "f4", ("quantile",))
        v[:] = np.array([num(x) for x in inp["quantiles"]], float)
        put("x", inp["x"], "quantile", len(inp["quantiles"]))
    if inp.get("members"):
        f.createDimension("ensemble_member", len(inp["members"]))
        put("ensemble", inp["ens"], "ensemble_member", len(inp["members"]))
    for name in inp.get("other", {}):
        put(name, inp["other"][name])
    var = inp.get("variable")
    if var:
        if var.get("variable") is not None:
            f.long_name = var["variable"]
        if var.get("units") is not None:
            f.units = var["units"]
        if var.get("x0") is not None:
            f.x0 = float(var["x0"])
        if var.get("x1") is not None:
            f.x1 = float(var["x1"])
    f.close()
    return path
