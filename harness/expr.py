"""Evaluator for the Expr trees emitted by the specifications (spec/Expr.tla). math module only."""
import math

NAN = float("nan")


def rat(v):
    n, d = v
    if d == 0:
        return NAN if n == 0 else (math.inf if n > 0 else -math.inf)
    return n / d


def _ppf(p):
    # inverse normal cdf by bisection on math.erf (no scipy in the oracle path)
    if p <= 0:
        return -math.inf
    if p >= 1:
        return math.inf
    lo, hi = -40.0, 40.0
    for _ in range(200):
        mid = (lo + hi) / 2
        if 0.5 * (1 + math.erf(mid / math.sqrt(2))) < p:
            lo = mid
        else:
            hi = mid
    return (lo + hi) / 2


def ev(e):
    """Returns a float, or the string 'undef' when the definition does not apply."""
    op = e["op"]
    if op == "q":
        return rat(e["v"])
    if op == "undef":
        return "undef"
    if op == "any01":
        return "any01"
    if op == "any":
        return "any"
    a = ev(e["a"])
    if a == "undef":
        return "undef"
    try:
        if op == "sqrt":
            return math.sqrt(a) if a >= 0 else NAN
        if op == "cbrt":
            return math.copysign(abs(a) ** (1.0 / 3), a)
        if op == "log":
            return math.log(a) if a > 0 else (NAN if a < 0 else -math.inf)
        if op == "log2":
            return math.log2(a) if a > 0 else (NAN if a < 0 else -math.inf)
        if op == "exp":
            return math.exp(a)
        if op == "abs":
            return abs(a)
        if op == "normppf":
            return _ppf(a)
        b = ev(e["b"])
        if b == "undef":
            return "undef"
        if op == "add":
            return a + b
        if op == "sub":
            return a - b
        if op == "mul":
            return a * b
        if op == "div":
            if b == 0:
                return NAN if a == 0 or a != a else math.copysign(math.inf, a)
            return a / b
    except (ValueError, OverflowError):
        return NAN
    raise ValueError("unknown Expr op %r" % op)


def agrees(expected, observed, rtol=1e-9, atol=1e-11):
    """expected: float or 'undef'; observed: float. 'undef' accepts NaN or a non-finite value."""
    try:
        observed = float(observed)
    except (TypeError, ValueError):
        return False
    if expected == "undef":
        return math.isnan(observed) or math.isinf(observed)
    if expected == "any":
        return True
    if expected == "any01":
        return 0.0 <= observed <= 1.0
    if math.isnan(expected):
        return math.isnan(observed)
    if math.isinf(expected):
        return observed == expected
    if math.isnan(observed) or math.isinf(observed):
        return False
    return abs(expected - observed) <= atol + rtol * max(abs(expected), abs(observed))
