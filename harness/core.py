"""Check context: verdicts (VIOLATION / KNOWN-FINDING / MODEL-DRIFT), replay files, evidence."""
import json
import os
import sys
import time
import traceback

ROOT = os.path.dirname(os.path.dirname(os.path.abspath(__file__)))
BUILD = os.path.join(ROOT, "build")
FINDINGS = os.path.join(ROOT, "known_findings.json")
REPO = os.environ.get("VERIF_REPO", "/repo")
# evidence/ describes /repo's working tree only; a run against a scratch copy (seeded changes, trial repairs) writes elsewhere
EVIDENCE = os.path.join(ROOT, "evidence") if os.path.realpath(REPO) == "/repo" else os.path.join(BUILD, "evidence-scratch")
MAX_REPORTED = 5     # VIOLATION lines printed per site; all are counted


def load_findings():
    with open(FINDINGS) as f:
        return json.load(f)["findings"]


class Ctx(object):
    def __init__(self, pid, tier, seed):
        self.pid = pid
        self.tier = tier
        self.seed = seed
        self.t0 = time.time()
        self.states = 0
        self.transitions = 0
        self.traces = 0            # behaviours replayed into / traces recorded from the implementation
        self.evaluations = 0       # individual comparisons against the implementation
        self.nontrivial = set()    # hashable keys of distinct non-trivial cases
        self.rule = ""
        self.samples = []
        self.violations = []       # (site, replay path)
        self.known_hits = {}       # finding id -> count
        self.drift = {}            # message -> count
        self.assumptions = []
        self.configs = []          # TLC runs: module, constants, states
        self.actions_never_taken = []
        self.extra = {}
        self.exhaustive = False
        self._findings = [f for f in load_findings() if f.get("property") == pid]
        self._site_counts = {}
        os.makedirs(os.path.join(BUILD, "replay"), exist_ok=True)
        import glob
        for old in glob.glob(os.path.join(EVIDENCE, "replay", pid + "-*.json")):
            os.remove(old)

    # -- TLC bookkeeping ---------------------------------------------------------------------
    def add_tlc(self, name, res, constants=None):
        self.states += res.distinct
        self.transitions += res.generated
        self.configs.append({"module": name, "distinct_states": res.distinct, "states_generated": res.generated,
                             "depth": res.depth, "wall_s": round(res.wall_s, 2), "constants": constants or {},
                             "emitted": len(res.emitted)})
        for act, (dist, tot) in sorted(res.coverage.items()):
            if tot == 0 and act not in self.actions_never_taken:
                self.actions_never_taken.append(name + "!" + act)

    def sample(self, obj, limit=4):
        if len(self.samples) < limit:
            self.samples.append(obj)

    def nontriv(self, key):
        self.nontrivial.add(key)

    # -- verdicts ----------------------------------------------------------------------------
    def note_drift(self, msg):
        if msg not in self.drift:
            print("MODEL-DRIFT: property=%s %s" % (self.pid, msg))
        self.drift[msg] = self.drift.get(msg, 0) + 1

    def diverge(self, site, replay, as_implemented=False, detail=""):
        """An observable disagrees with the abstract specification at `site`.

        as_implemented: True iff the observed value equals what the as-implemented operator of a
        recorded finding for this site predicts (computed by the specification, see KnownFindings.tla).
        Only then, and only if known_findings.json lists an open finding for (property, site), is the
        divergence a KNOWN-FINDING; otherwise it is a VIOLATION.
        """
        if as_implemented:
            for f in self._findings:
                if f.get("status") == "open" and f.get("site") == site:
                    self.known_hits[f["id"]] = self.known_hits.get(f["id"], 0) + 1
                    return "known"
        n = self._site_counts.get(site, 0)
        self._site_counts[site] = n + 1
        path = os.path.join(BUILD, "replay", "%s-%d.json" % (self.pid, len(self.violations)))
        if n < MAX_REPORTED:
            rep = dict(replay)
            rep.setdefault("property", self.pid)
            rep["site"] = site
            rep["detail"] = detail
            rep["seed"] = self.seed
            with open(path, "w") as f:
                json.dump(rep, f, indent=1, default=str)
            keep = os.path.join(EVIDENCE, "replay")
            os.makedirs(keep, exist_ok=True)
            kp = os.path.join(keep, os.path.basename(path))
            with open(kp, "w") as f:
                json.dump(rep, f, indent=1, default=str)
            print("VIOLATION property=%s replay=%s" % (self.pid, kp))
            print("  site=%s %s" % (site, detail[:300]))
            path = kp
        self.violations.append((site, path))
        return "violation"

    # -- end of run --------------------------------------------------------------------------
    def finish(self):
        for f in self._findings:
            if f.get("status") == "open" and f["id"] in self.known_hits:
                print("KNOWN-FINDING: property=%s %s [%s] (%d occurrences this run)"
                      % (self.pid, f["what"], f["site"], self.known_hits[f["id"]]))
        cov = {
            "states": max(self.states, 0),
            "transitions": max(self.transitions, 0),
            "traces_validated_against_impl": self.traces,
            "evaluations": self.evaluations,
            "distinct_nontrivial": len(self.nontrivial),
            "rule": self.rule,
            "samples": self.samples if self.samples else ["(none)"],
            "exhaustive": bool(self.exhaustive),
            "tlc_runs": self.configs,
            "actions_never_taken": self.actions_never_taken,
            "model_drift": self.drift,
            "known_findings_hit": self.known_hits,
            "violation_sites": sorted(set(s for s, _ in self.violations)),
        }
        cov.update(self.extra)
        ev = {
            "property_id": self.pid,
            "tier": self.tier,
            "seed": int(self.seed),
            "level": "model_checking",
            "coverage": cov,
            "assumptions": self.assumptions,
            "wall_s": round(time.time() - self.t0, 2),
            "violations": len(self.violations),
        }
        os.makedirs(EVIDENCE, exist_ok=True)
        with open(os.path.join(EVIDENCE, self.pid + ".json"), "w") as f:
            json.dump(ev, f, indent=1, default=str)
        print("%s %s: states=%d transitions=%d impl-behaviours=%d comparisons=%d nontrivial=%d violations=%d known=%d drift=%d wall=%.1fs"
              % (self.pid, self.tier, self.states, self.transitions, self.traces, self.evaluations,
                 len(self.nontrivial), len(self.violations), sum(self.known_hits.values()),
                 sum(self.drift.values()), time.time() - self.t0))
        return 1 if self.violations else 0
