------------------------------ MODULE MC_Diagrams ------------------------------
(* C16 (first tranche: diagrams of deterministic data): dataset x diagram x      *)
(* option variant -> the series the figure must contain.                         *)
EXTENDS Diagrams, Report, DatasetGen
VARIABLES gen, d, phase
vars == <<gen, d, phase>>
Ds == DsOfSmall(gen)
Cfg0 == [agg |-> "mean", q |-> Zero, bt |-> "above", t |-> R(2), u |-> R(2)]
ThsA == <<R(-1), R(1), R(3), R(6)>>
Variants ==
  {[diagram |-> "standard", argv |-> <<"-m", m, "-x", a>>, m |-> m, axis |-> a] : m \in {"mae", "corr"}, a \in {"leadtime", "time", "location", "month", "timeofday", "no"}}
  \cup {[diagram |-> "standard-avg", argv |-> <<"-m", m, "-x", a, "-r", "-1,1,3,6", "-b", "within">>, m |-> m, axis |-> a] : m \in {"mae", "n"}, a \in {"leadtime", "location"}}
  \cup {[diagram |-> "obsfcst", argv |-> <<"-m", "obsfcst", "-x", a>>, m |-> "", axis |-> a] : a \in {"leadtime", "time", "location"}}
  \cup {[diagram |-> x, argv |-> <<"-m", x>>, m |-> "", axis |-> "no"] : x \in {"qq", "scatter", "against"}}
  \cup {[diagram |-> "sort", argv |-> <<"-m", f, "-sort">>, m |-> f, axis |-> "no"] : f \in {"obs", "fcst"}}
  \cup {[diagram |-> "hist", argv |-> <<"-m", f, "-hist", "-r", "-1,1,3,6", "-b", b>>, m |-> f, axis |-> b] : f \in {"obs", "fcst"}, b \in {"within=", "below", "=within"}}
  \cup {[diagram |-> "freq", argv |-> <<"-m", "freq", "-r", "-1,1,3,6", "-b", b>>, m |-> "", axis |-> b] : b \in {"above", "within=", "below="}}
  \cup {[diagram |-> "cond", argv |-> <<"-m", "cond", "-r", "-1,1,3,6", "-b", b>>, m |-> "", axis |-> b] : b \in {"within=", "=within"}}
  \cup {[diagram |-> "timeseries", argv |-> <<"-m", "timeseries">>, m |-> "", axis |-> "no"]}
  \cup {[diagram |-> "error", argv |-> <<"-m", "error">>, m |-> "", axis |-> "no"]}          \* (the error diagram takes no -x: one point per input)
  \cup {[diagram |-> "performance", argv |-> <<"-m", "performance", "-x", a, "-r", "2", "-simple">>, m |-> "", axis |-> a] : a \in {"leadtime", "location"}}
  \cup {[diagram |-> "map", argv |-> <<"-m", m, "-type", "map">>, m |-> m, axis |-> "location"] : m \in {"mae", "corr"}}
  \cup {[diagram |-> "impact", argv |-> <<"-m", "mae", "-type", "impact", "-r", "-1,1,3,5">>, m |-> "mae", axis |-> "no"]}
  \* third tranche
  \cup {[diagram |-> x, argv |-> <<"-m", x, "-r", "2", "-b", b>>, m |-> "", axis |-> b] : x \in {"droc", "droc0"}, b \in {"above", "below="}}
  \cup {[diagram |-> "change", argv |-> <<"-m", "change", "-r", "-3,-1,0,1,3">>, m |-> "", axis |-> "no"]}
  \cup {[diagram |-> x, argv |-> <<"-m", x, "-x", a, "-simple">>, m |-> "", axis |-> a] : x \in {"autocov", "autocorr"}, a \in {"leadtime", "time"}}
  \cup {[diagram |-> "taylor", argv |-> <<"-m", "taylor">>, m |-> "", axis |-> "no"], [diagram |-> "taylor", argv |-> <<"-m", "taylor", "-x", "leadtime">>, m |-> "", axis |-> "leadtime"]}
  \cup {[diagram |-> "fss", argv |-> <<"-m", "fss", "-x", "leadtime", "-r", "2", "-b", b>>, m |-> "", axis |-> b] : b \in {"above", "below="}}
ExprSeqJ(s) == s
SeriesJ(ss) == [k \in DOMAIN ss |-> IF "c" \in DOMAIN ss[k] THEN ss[k] ELSE [label |-> ss[k].label, x |-> ss[k].x, y |-> ss[k].y]]
SeriesOf(X, v) ==
  CASE v.diagram = "standard" -> StandardSeries(X, v.m, v.axis, Cfg0)
    [] v.diagram = "standard-avg" ->      \* several thresholds on a data axis: the drawn score is the mean over the events
         LET T == AveragedTable(Ds, X, v.m, v.axis, "within", ThsA, <<>>) IN
         [i \in 1..X.n |-> Series(InputLabel(i), [k \in 1..NumSlices(X, v.axis) |-> Q(AxisX(X, v.axis, k))], [k \in 1..NumSlices(X, v.axis) |-> T.rows[k].scores[i]])]
    \* map view: one panel per input (titled with the input's name); a point at (lon, lat) of every location whose score exists, coloured by the score
    [] v.diagram = "map" ->
         LET ids == SliceKeys(X, "location") IN
         [i \in 1..X.n |-> [label |-> InputLabel(i), x |-> [k \in DOMAIN ids |-> Q(R(MetaLon(Ds, ids[k])))], y |-> [k \in DOMAIN ids |-> Q(R(MetaLat(Ds, ids[k])))],
                            c |-> [k \in DOMAIN ids |-> Score(X, v.m, i, "location", k, Cfg0)]]]
    [] v.diagram = "impact" -> ImpactSeries(X, <<R(-1), R(1), R(3), R(5)>>)
    [] v.diagram = "obsfcst" -> ObsFcstSeries(X, v.axis)
    [] v.diagram = "qq" -> QQSeries(X)
    [] v.diagram = "scatter" -> ScatterSeries(X)
    [] v.diagram = "against" -> AgainstSeries(X)
    [] v.diagram = "sort" -> SortSeries(X, v.m)
    [] v.diagram = "hist" -> HistSeries(X, v.m, v.axis, ThsA)
    [] v.diagram = "freq" -> FreqSeries(X, v.axis, ThsA)
    [] v.diagram = "cond" -> CondSeries(X, v.axis, ThsA)
    [] v.diagram = "timeseries" -> TimeSeriesSeries(X) \o (IF "e0" \in FieldsOf(Ds) THEN TimeSeriesMembers(X, <<"e0", "e1", "e2">>) ELSE <<>>)
    [] v.diagram = "error" -> ErrorSeries(X, v.axis)
    [] v.diagram = "performance" -> PerformanceSeries(X, v.axis, "above", R(2))
    [] v.diagram = "droc" -> DRocSeries(X, v.axis, R(2), DRocFths(R(2)))
    [] v.diagram = "droc0" -> DRocSeries(X, v.axis, R(2), <<R(2)>>)
    [] v.diagram = "change" -> ChangeSeries(X, <<R(-3), R(-1), R(0), R(1), R(3)>>)
    [] v.diagram = "autocov" -> AutoSeries(X, "cov", v.axis)
    [] v.diagram = "autocorr" -> AutoSeries(X, "corr", v.axis)
    [] v.diagram = "taylor" -> TaylorSeries(X, v.axis)
    [] v.diagram = "fss" -> FssSeries(X, v.axis, R(2))
Usable(x) == ~EmptySelection(DsOfSmall(x), x.opt)
Emit == LET X == Context(Ds, gen.opt) IN
        PrintT(ToJson([inputs |-> [j \in DOMAIN Ds.inputs |-> InputJson(Ds.inputs[j])], hasClim |-> FALSE, clim |-> InputJson(Ds.clim), climType |-> "subtract",
                       opts |-> OptJson(gen.opt), diagram |-> d.diagram, argv |-> d.argv, axis |-> d.axis,
                       unordered |-> d.diagram \in {"scatter", "against", "impact"}, bars |-> (d.diagram = "standard" /\ d.axis = "no"),
                       series |-> SeriesJ(SeriesOf(X, d))]))
\* the ensemble universe is drawn as a time series only (the one diagram that shows the members)
Init == gen \in {x \in Universe(0) : Usable(x)} /\ d \in {v \in Variants : Family # "C18Ens" \/ v.diagram = "timeseries"} /\ phase = "case"
Evaluate == phase = "case" /\ phase' = "emitted" /\ UNCHANGED <<gen, d>> /\ Emit
Next == Evaluate
Spec == Init /\ [][Next]_vars
InvOneSeriesPerInput == LET X == Context(Ds, gen.opt) IN
   OneSeriesPerInput(SeriesOf(X, d), IF d.diagram = "against" THEN 0 ELSE IF d.diagram = "impact" THEN Len(SeriesOf(X, d)) ELSE IF d.diagram = "cond" THEN 2 * X.n ELSE IF d.diagram = "timeseries" THEN X.n * Len(X.T) * (IF "e0" \in FieldsOf(Ds) THEN 4 ELSE 1) ELSE X.n,
                     IF d.diagram \in {"obsfcst", "freq", "against"} THEN 1 ELSE 0)
InvBins == LET X == Context(Ds, gen.opt) IN d.diagram = "hist" => \A i \in 1..X.n : EveryValueInOneBin(ValuesOf(X, i, d.m, "no", 1), d.axis, ThsA)
\* ---- witnesses against vacuity (tools/vacuity.py): each is the NEGATION of a lemma's antecedent and must be VIOLATED by some enumerated case ----
W_HistBins == LET X == Context(Ds, gen.opt) IN
   ~(d.diagram = "hist" /\ d.axis = "within=" /\ \E k \in DOMAIN ValuesOf(X, 1, d.m, "no", 1) : Gt(ValuesOf(X, 1, d.m, "no", 1)[k], ThsA[1]) /\ Le(ValuesOf(X, 1, d.m, "no", 1)[k], ThsA[4]))
=============================================================================
