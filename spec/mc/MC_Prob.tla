------------------------------- MODULE MC_Prob -------------------------------
(* C08: probabilistic scores and event probability.                           *)
(*  brier : (probability, outcome) vectors -> Brier family through the API    *)
(*  event : cases <<obs, cdf(1), cdf(2)>> x 8 bin types -> scores end to end  *)
(*  quant : cases <<obs, fcst, x(1/4), x(3/4)>> -> quantile scores            *)
(*  ens   : ensembles with missing members -> event probability, quantiles    *)
(*  pit   : PIT vectors -> histogram statistics                               *)
EXTENDS Metrics, TLC, Json
CONSTANTS Kind, Size
VARIABLES c, phase
vars == <<c, phase>>
J(x) == IF IsNaN(x) THEN "nan" ELSE IF IsInf(x) THEN (IF x[1] > 0 THEN "inf" ELSE "-inf") ELSE IF x[2] = 1 THEN x[1] ELSE x
JS(s) == [k \in DOMAIN s |-> J(s[k])]
JSS(s) == [k \in DOMAIN s |-> JS(s[k])]

\* eighths fall in nine different tenths-bins; 3/20 shares a bin with 1/8 and 11/20 with 1/2, so that bins holding several different
\* probabilities occur (tools/vacuity.py: W_SeveralPerBin)
Probs8 == {Frac(k, 8) : k \in 0..8} \cup {Frac(3, 20), Frac(11, 20)}
PEs == Probs8 \X {Zero, One}
Seqs(S, n) == IF n = 0 THEN {<<>>} ELSE IF n = 1 THEN {<<a>> : a \in S} ELSE IF n = 2 THEN {<<a, b>> : a \in S, b \in S}
              ELSE {<<a, b, d>> : a \in S, b \in S, d \in S}
UpTo(S, n) == UNION {Seqs(S, m) : m \in 0..n}

ObsV == IF Size = "small" THEN {R(1), Frac(3, 2), R(3)} ELSE {R(0), R(1), Frac(3, 2), R(2), R(3), NaN}
Cdfs == IF Size = "small" THEN {<<Zero, Zero>>, <<Zero, Frac(1, 2)>>, <<Frac(1, 4), One>>, <<One, One>>, <<Frac(1, 2), Frac(1, 2)>>,
                                <<NaN, Frac(1, 2)>>, <<Frac(1, 4), NaN>>}      \* one of the two cumulative probabilities missing
        ELSE {x \in {<<Frac(a, 4), Frac(b, 4)>> : a \in 0..4, b \in 0..4} : Le(x[1], x[2])} \cup {<<NaN, Frac(1, 2)>>, <<Frac(1, 4), NaN>>}
EvCases == {<<o, cc[1], cc[2]>> : o \in ObsV, cc \in Cdfs}
QV == IF Size = "small" THEN {R(0), R(2)} ELSE {R(0), R(1), R(2)}
QCases == {<<o, f, x[1], x[2]>> : o \in QV \cup {R(1)}, f \in QV, x \in {y \in QV \X (QV \cup {R(3)}) : Le(y[1], y[2])}}
          \* one quantity of the case missing: a score takes the cases in which every quantity IT uses is present (C01)
          \cup {<<NaN, R(0), R(0), R(2)>>, <<R(1), NaN, R(0), R(2)>>, <<R(1), R(2), NaN, R(2)>>, <<R(2), R(0), R(0), NaN>>}
\* the cases a score is computed from: those whose quantities at the given positions are all present
Uses(cs, cols) == SelectSeq(cs, LAMBDA c1 : \A k \in cols : ~IsNaN(c1[k]))
EnsV == {R(0), R(1), R(2), NaN}
Ensembles == Seqs(EnsV, 1) \cup Seqs(EnsV, 2) \cup Seqs(EnsV, 3)
PitV == {Zero, Frac(1, 8), Frac(1, 2), Frac(7, 8), One}

Cases(u) ==
  CASE Kind = "brier" -> {[kind |-> "brier", s |-> s] : s \in UpTo(PEs, IF Size = "small" THEN 2 ELSE 3)}
    [] Kind = "event" -> {[kind |-> "event", s |-> s] : s \in UpTo(EvCases, 2) \ {<<>>}}
    [] Kind = "quant" -> {[kind |-> "quant", s |-> s] : s \in UpTo(QCases, 2) \ {<<>>}}
    [] Kind = "ens"   -> {[kind |-> "ens", s |-> <<e, f>>] : e \in Ensembles, f \in Ensembles}
    \* PIT vectors, also with missing values: the statistics are those of the valid values (none at all: no statistic)
    [] Kind = "pit"   -> {[kind |-> "pit", s |-> s] : s \in UpTo(PitV \cup {NaN}, 3) \ {<<>>}}

T1 == R(1)
T2 == R(2)
LevLo == Frac(1, 4)
LevHi == Frac(9, 10)        \* (an asymmetric pair: formulas that assume lo = 1 - hi are told apart)
EnsThresholds == <<Zero, Frac(1, 2), R(1), R(2), R(3)>>
BrierNames == {"bs", "bsunc", "bsrel", "bsres", "bss", "bssrel", "bssres"}

Emit ==
  CASE c.kind = "brier" -> PrintT(ToJson([kind |-> "brier", p |-> JS(PP(c.s)), e |-> JS(EE(c.s)), scores |-> [m \in BrierNames |-> Prob(m, c.s)]]))
    [] c.kind = "event" -> PrintT(ToJson([kind |-> "event", cases |-> JSS(c.s), t |-> <<1, 2>>,
                               per |-> [bt \in BinTypes |-> LET pe == EventPE(c.s, bt, T1, T2) IN
                                          [n |-> Len(pe), p |-> JS(PP(pe)), e |-> JS(EE(pe)), scores |-> [m \in ProbMetrics |-> Prob(m, pe)]]]]))
    [] c.kind = "quant" -> PrintT(ToJson([kind |-> "quant", cases |-> JSS(c.s), levels |-> <<J(LevLo), J(LevHi)>>,
                               qsLo |-> QuantileScore([k \in DOMAIN Uses(c.s, {1, 3}) |-> <<Uses(c.s, {1, 3})[k][1], Uses(c.s, {1, 3})[k][3]>>], LevLo),
                               qsHi |-> QuantileScore([k \in DOMAIN Uses(c.s, {1, 4}) |-> <<Uses(c.s, {1, 4})[k][1], Uses(c.s, {1, 4})[k][4]>>], LevHi),
                               coverage |-> [bt \in WithinTypes |-> QuantileCoverage(Uses(c.s, {1, 3, 4}), bt)],
                               spread |-> IF Uses(c.s, {3, 4}) = <<>> THEN Undef ELSE Q(SpreadV(Uses(c.s, {3, 4}))),
                               ssr |-> SpreadSkillRatio(Uses(c.s, {1, 2, 3, 4}), LevLo, LevHi),
                               qmean |-> IF Uses(c.s, {3}) = <<>> THEN Undef ELSE Q(MeanSeq([k \in DOMAIN Uses(c.s, {3}) |-> Uses(c.s, {3})[k][3]]))]))
    [] c.kind = "ens" -> PrintT(ToJson([kind |-> "ens", ens |-> JSS(c.s), thresholds |-> JS(EnsThresholds),
                               prob |-> [k \in DOMAIN c.s |-> [j \in DOMAIN EnsThresholds |-> J(EnsProb(c.s[k], EnsThresholds[j]))]],
                               anyMissing |-> [k \in DOMAIN c.s |-> HasNaN(c.s[k])],
                               lo |-> [k \in DOMAIN c.s |-> IF Members(c.s[k]) = <<>> THEN "nan" ELSE J(MinSeq(Members(c.s[k])))],
                               hi |-> [k \in DOMAIN c.s |-> IF Members(c.s[k]) = <<>> THEN "nan" ELSE J(MaxSeq(Members(c.s[k])))]]))
    [] c.kind = "pit" -> LET v == SelectSeq(c.s, LAMBDA x : ~IsNaN(x)) IN
                         PrintT(ToJson([kind |-> "pit", pit |-> JS(c.s), dev |-> IF v = <<>> THEN Undef ELSE PitHistDev(v), slope |-> IF v = <<>> THEN Undef ELSE PitHistSlope(v),
                               shape |-> IF v = <<>> THEN Undef ELSE PitHistShape(v), mean |-> IF v = <<>> THEN Undef ELSE Q(MeanSeq(v)), counts |-> PitCounts(v)]))
Init == c \in Cases(0) /\ phase = "case"
Evaluate == phase = "case" /\ phase' = "emitted" /\ c' = c /\ Emit
Next == Evaluate
Spec == Init /\ [][Next]_vars

InvDecomposition == c.kind = "brier" => BrierDecomposition(c.s)
InvComplement == c.kind = "brier" => BrierComplement(c.s)
InvRange == c.kind = "brier" => BrierRange(c.s)
InvBins == c.kind = "brier" => \A k \in DOMAIN c.s : EveryProbInOneBin(c.s[k][1])
\* the Brier score of an event equals that of its complement, through the CDF rule (below= versus above)
InvEventComplement == c.kind = "event" =>
   LET a == EventPE(c.s, "below=", T1, T2)  b == EventPE(c.s, "above", T1, T2) IN Len(a) = Len(b) /\ (Len(a) > 0 => BsV(a) = BsV(b))
InvEnsMonotone == c.kind = "ens" => \A k \in DOMAIN c.s : \A j \in 1..(Len(EnsThresholds) - 1) :
   LET x == EnsProb(c.s[k], EnsThresholds[j])  y == EnsProb(c.s[k], EnsThresholds[j + 1]) IN IsNaN(x) \/ (Le(x, y) /\ Ge(x, Zero) /\ Le(y, One))
InvPitCounts == c.kind = "pit" => LET v == SelectSeq(c.s, LAMBDA x : ~IsNaN(x)) IN SumInts(PitCounts(v)) = Len(v)
\* ---- witnesses against vacuity (tools/vacuity.py): each is the NEGATION of a lemma's antecedent and must be VIOLATED by some enumerated case ----
W_OneValuePerBin == ~(c.kind = "brier" /\ Len(c.s) >= 2 /\ OneValuePerBin(c.s) /\ c.s[1][1] # c.s[2][1])
W_SeveralPerBin  == ~(c.kind = "brier" /\ ~OneValuePerBin(c.s))
W_EventBothMissing == ~(c.kind = "event" /\ Len(EventPE(c.s, "within", T1, T2)) < Len(EventPE(c.s, "below", T1, T2)))
=============================================================================
