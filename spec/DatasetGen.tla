----------------------------- MODULE DatasetGen -----------------------------
(* Generators shared by the MC_* wrappers of Dataset.tla / DataImpl.tla:    *)
(* coordinate pools, coordinate-encoding cell values, the universes of      *)
(* datasets x options enumerated per family, request menus, JSON rendering. *)
(* No variables.  Universes take a dummy parameter so that TLC does not     *)
(* pre-evaluate all of them as constants at start-up.                       *)
EXTENDS Dataset, TLC, Json, SequencesExt

CONSTANT Family            \* which universe to enumerate (see Universe below)

---------------------------------------------------------------------------
(* pools: the coordinates files may contain *)
\* 1: 2012-01-01 00Z (Sun)  2: 2012-01-01 06Z  3: 2012-01-02 00Z (Mon)  4: 2012-02-01 00Z  5: 2011-12-31 18Z (Sat)
\* 6: 2012-02-29 12Z (leap day)  7: 2012-03-01 00Z  8: 2011-03-01 00Z (non-leap year)  9: 2012-12-31 23Z
\* 10: 2012-01-01 01Z  11: 2012-01-01 02Z (runs one hour apart: relatively close as unix times, family C02Close)
\* 12: 2012-01-01 00:30Z (a run that does not start on the hour, family C11All)
TimePool == <<1325376000, 1325397600, 1325462400, 1328054400, 1325354400, 1330516800, 1330560000, 1298937600, 1356994800,
              1325379600, 1325383200, 1325377800>>
LeadPool == <<0, 12, 24, 36, 47, 48, -6, -30>>        \* the last two: steps before the initialisation time
LocPool  == <<1, 2, 3, 4, 1000001, 1000005, 71203, 71208>>       \* two seven-digit station ids a few units apart (family C02Close); two five-digit ids
LatOf(s)  == IF s > 100 THEN 41 + (s % 10) ELSE 40 + 10 * s          \* 50, 60, 70, 80
LonOf(s)  == IF s > 100 THEN 5 + (s % 10) ELSE IF s = 3 THEN 200 ELSE 10 * s     \* one station in the 0..360 convention
ElevOf(s) == IF s > 100 THEN 50 + (s % 10) ELSE 100 * (s - 1)
Code(t, l, s) == 100 * IndexIn(TimePool, t) + 10 * IndexIn(LeadPool, l) + IndexIn(LocPool, s)

Positions(ts, ls, ss) == {<<i, j, k>> : i \in DOMAIN ts, j \in DOMAIN ls, k \in DOMAIN ss}
IsFirst(seq, i) == \A j \in 1..(i - 1) : seq[j] # seq[i]
\* a repeated dimension entry holds a different value (+500), so "first occurrence" is observable
RepeatMark(ts, ls, ss, p) == IF IsFirst(ts, p[1]) /\ IsFirst(ls, p[2]) /\ IsFirst(ss, p[3]) THEN 0 ELSE 500

\* extra field names of the generators, in a fixed order (values of different fields differ)
ExtraPool == <<"q0.005", "q0.01", "Tmax", "e0", "e1", "e2", "q0.001", "q0.5">>
ExtraOrderBefore(f) == {ExtraPool[k] : k \in 1..(IndexIn(ExtraPool, f) - 1)}
\* the probability of not exceeding t when the file stores ensemble members only (g.derive : field name -> t): the fraction of the
\* members present at the cell that are <= t, missing if none is present (Metrics!EnsProb)
MemberNames == {"e0", "e1", "e2"}
DerivedProb(stored, p, t) ==
  LET ms == {f \in DOMAIN stored \cap MemberNames : ~IsNaN(stored[f][p])} IN
  IF ms = {} THEN NaN ELSE Frac(Cardinality({f \in ms : Le(stored[f][p], R(t))}), Cardinality(ms))
\* g = [ts, ls, ss, hasObs, mo, mf] ; j = owner (forecast offset) ; mo/mf = missing positions
MkInput(g, j) ==
  [times |-> g.ts, leads |-> g.ls, locs |-> g.ss,
   lat |-> [k \in DOMAIN g.ss |-> LatOf(g.ss[k])], lon |-> [k \in DOMAIN g.ss |-> LonOf(g.ss[k])],
   elev |-> [k \in DOMAIN g.ss |-> ElevOf(g.ss[k])],
   hasObs |-> g.hasObs,
   \* extra fields (g.ex : field name -> missing positions, optional): values 3000 + 1000 ((7 k) mod 11) + 10000 j + Code for the k-th name
   \* of ExtraPool: all different, and the ensemble members e0, e1, e2 (9000, 5000, 12000) are NOT in increasing order
   extra |-> IF "ex" \in DOMAIN g
             THEN LET stored == [f \in DOMAIN g.ex |-> [p \in Positions(g.ts, g.ls, g.ss) |->
                                   IF p \in g.ex[f] THEN NaN
                                   ELSE R(3000 + 1000 * ((7 * IndexIn(ExtraPool, f)) % 11) + 10000 * j + Code(g.ts[p[1]], g.ls[p[2]], g.ss[p[3]]))]]
                  IN  IF "derive" \in DOMAIN g
                      THEN stored @@ [n \in DOMAIN g.derive |-> [p \in Positions(g.ts, g.ls, g.ss) |-> DerivedProb(stored, p, g.derive[n])]]
                      ELSE stored
             ELSE [f \in {} |-> <<>>],
   \* fields the FILE does not store: the program has to derive them from the ensemble members (the materialiser writes no column for them)
   derived |-> IF "derive" \in DOMAIN g THEN DOMAIN g.derive ELSE {},
   obs |-> [p \in Positions(g.ts, g.ls, g.ss) |->
              IF ~g.hasObs \/ p \in g.mo THEN NaN
              ELSE R(1000 + Code(g.ts[p[1]], g.ls[p[2]], g.ss[p[3]]) + RepeatMark(g.ts, g.ls, g.ss, p))],
   fcst |-> [p \in Positions(g.ts, g.ls, g.ss) |->
              IF p \in g.mf THEN NaN
              ELSE R(2000 + 10000 * j + g.bump + Code(g.ts[p[1]], g.ls[p[2]], g.ss[p[3]]) + RepeatMark(g.ts, g.ls, g.ss, p))]]

\* the same with SMALL values (scores are computed on them in exact arithmetic: TLC integers are 32-bit)
MkInputSmall(g, j) ==
  [MkInput(g, j) EXCEPT
     !.obs  = [p \in Positions(g.ts, g.ls, g.ss) |-> IF ~g.hasObs \/ p \in g.mo THEN NaN
                 ELSE LET c == Code(g.ts[p[1]], g.ls[p[2]], g.ss[p[3]]) IN R((3 * (c \div 100) + 5 * ((c \div 10) % 10) + 2 * (c % 10)) % 6)],
     !.fcst = [p \in Positions(g.ts, g.ls, g.ss) |-> IF p \in g.mf THEN NaN
                 ELSE LET c == Code(g.ts[p[1]], g.ls[p[2]], g.ss[p[3]]) IN R(((2 * (c \div 100) + 3 * ((c \div 10) % 10) + 5 * (c % 10) + 2 * j) % 7) - 1)],
     !.extra = IF "ex" \in DOMAIN g
               THEN [f \in DOMAIN g.ex |-> [p \in Positions(g.ts, g.ls, g.ss) |-> IF p \in g.ex[f] THEN NaN
                       ELSE LET c == Code(g.ts[p[1]], g.ls[p[2]], g.ss[p[3]]) IN R((4 * (c \div 100) + ((c \div 10) % 10) + 3 * (c % 10) + j + IndexIn(ExtraPool, f)) % 6)]]
               ELSE [f \in {} |-> <<>>]]

\* climatology forecast: "lin" keeps coordinates visible after subtraction, "small" has zeros for -C
MkClim(g) ==
  [times |-> g.ts, leads |-> g.ls, locs |-> g.ss,
   lat |-> [k \in DOMAIN g.ss |-> LatOf(g.ss[k])], lon |-> [k \in DOMAIN g.ss |-> LonOf(g.ss[k])],
   elev |-> [k \in DOMAIN g.ss |-> ElevOf(g.ss[k])],
   hasObs |-> g.hasObs,
   obs |-> [p \in Positions(g.ts, g.ls, g.ss) |->
              IF ~g.hasObs \/ p \in g.mo THEN NaN ELSE R(1000 + Code(g.ts[p[1]], g.ls[p[2]], g.ss[p[3]]))],
   fcst |-> [p \in Positions(g.ts, g.ls, g.ss) |->
              IF p \in g.mf THEN NaN
              ELSE LET c == Code(g.ts[p[1]], g.ls[p[2]], g.ss[p[3]])
                   IN  IF g.mode = "lin" THEN R(2 * c + 5) ELSE R((((c \div 100) + ((c \div 10) % 10) + (c % 10)) % 3) * 2)]]

NoClimGen == [on |-> FALSE, ts |-> <<TimePool[1]>>, ls |-> <<LeadPool[1]>>, ss |-> <<LocPool[1]>>, hasObs |-> FALSE,
              mo |-> {}, mf |-> {}, mode |-> "lin", type |-> "subtract"]

DsOfSmall(g) == [inputs |-> [j \in DOMAIN g.inp |-> MkInputSmall(g.inp[j], j)],
                 hasClim |-> g.clim.on, clim |-> MkClim(g.clim), climType |-> g.clim.type]
DsOf(g) == [inputs |-> [j \in DOMAIN g.inp |-> MkInput(g.inp[j], j)],
            hasClim |-> g.clim.on, clim |-> MkClim(g.clim), climType |-> g.clim.type]

---------------------------------------------------------------------------
(* Universes *)
T2 == <<TimePool[1], TimePool[2]>>
L1 == <<LeadPool[1]>>
S2 == <<LocPool[1], LocPool[2]>>
P212 == Positions(T2, L1, S2)
In212(hasObs, mo, mf) == [ts |-> T2, ls |-> L1, ss |-> S2, hasObs |-> hasObs, mo |-> mo, mf |-> mf, bump |-> 0]

\* C01 thorough: 2 inputs on a 2x1x2 grid, every missing pattern of obs and fcst of both inputs
UC01Full(u) == {[inp |-> <<In212(TRUE, a, b), In212(TRUE, c, d)>>, clim |-> NoClimGen, opt |-> NoOptions]
               : a \in SUBSET P212, b \in SUBSET P212, c \in SUBSET P212, d \in SUBSET P212}
\* C01 quick: only input 2 has missing cells
UC01Quick(u) == {[inp |-> <<In212(TRUE, {}, {}), In212(TRUE, c, d)>>, clim |-> NoClimGen, opt |-> NoOptions]
               : c \in SUBSET P212, d \in SUBSET P212}
\* obs-less second input
UC01NoObs(u) == {[inp |-> <<In212(TRUE, a, b), In212(FALSE, {}, d)>>, clim |-> NoClimGen, opt |-> NoOptions]
               : a \in SUBSET P212, b \in SUBSET P212, d \in SUBSET P212}
\* obs-less FIRST input (observations come from the second)
UC01NoObs1(u) == {[inp |-> <<In212(FALSE, {}, b), In212(TRUE, c, d)>>, clim |-> NoClimGen, opt |-> NoOptions]
               : b \in SUBSET P212, c \in SUBSET P212, d \in SUBSET P212}
\* three inputs, 1x1x2 grid
T1 == <<TimePool[1]>>
P112 == Positions(T1, L1, S2)
In112(hasObs, mo, mf) == [ts |-> T1, ls |-> L1, ss |-> S2, hasObs |-> hasObs, mo |-> mo, mf |-> mf, bump |-> 0]
UC01Three(u) == {[inp |-> <<In112(TRUE, a, b), In112(TRUE, c, d), In112(h, {}, f)>>, clim |-> NoClimGen, opt |-> NoOptions]
               : a \in SUBSET P112, b \in SUBSET P112, c \in SUBSET P112, d \in SUBSET P112, f \in SUBSET P112, h \in BOOLEAN}
\* an obs-less input in first or middle position, followed by an input with its own (partly missing) observations
UC01Mid(u) == {[inp |-> <<In112(TRUE, a, b), In112(FALSE, {}, d), In112(TRUE, e, f)>>, clim |-> NoClimGen, opt |-> NoOptions]
                 : a \in SUBSET P112, b \in SUBSET P112, d \in SUBSET P112, e \in SUBSET P112, f \in SUBSET P112}
         \cup {[inp |-> <<In112(FALSE, {}, b), In112(TRUE, c, d), In112(TRUE, e, f)>>, clim |-> NoClimGen, opt |-> NoOptions]
                 : b \in SUBSET P112, c \in SUBSET P112, d \in SUBSET P112, e \in SUBSET P112, f \in SUBSET P112}
\* climatology on a 1x1x2 grid with its own missing cells, subtract and divide
ClimGen(mf, mode, type) == [on |-> TRUE, ts |-> T1, ls |-> L1, ss |-> S2, hasObs |-> FALSE, mo |-> {}, mf |-> mf,
                            mode |-> mode, type |-> type]
UC01Clim(u) == {[inp |-> <<In112(TRUE, a, b), In112(TRUE, c, d)>>, clim |-> ClimGen(f, m[1], m[2]), opt |-> NoOptions]
               : a \in SUBSET P112, b \in SUBSET P112, c \in SUBSET P112, d \in SUBSET P112, f \in SUBSET P112,
                 m \in {<<"lin", "subtract">>, <<"small", "divide">>}}

---------------------------------------------------------------------------
(* C02: coordinates in arbitrary, mutually different orders, extra entries, repeated entries *)
WithOpt(O1, name, v) == [[O1 EXCEPT !.given = @ \cup {name}] EXCEPT ![name] = v]
FullIn(ts, ls, ss) == [ts |-> ts, ls |-> ls, ss |-> ss, hasObs |-> TRUE, mo |-> {}, mf |-> {}, bump |-> 0]
\* all ordered sub-lists (length 1..3) of a 3-element pool
OrderedSubs(P) == {<<P[a]>> : a \in 1..3} \cup {<<P[x[1]], P[x[2]]>> : x \in {y \in (1..3) \X (1..3) : y[1] # y[2]}}
                  \cup {<<P[x[1]], P[x[2]], P[x[3]]>> : x \in {y \in (1..3) \X (1..3) \X (1..3) : y[1] # y[2] /\ y[1] # y[3] /\ y[2] # y[3]}}
\* lists with one repeated entry (NetCDF only): the first occurrence must win
RepeatSubs(P) == {<<P[1], P[2], P[1]>>, <<P[2], P[2], P[1]>>, <<P[2], P[1], P[1]>>, <<P[3], P[1], P[3], P[1]>>}
TP3 == <<TimePool[1], TimePool[2], TimePool[3]>>
LP3 == <<LeadPool[1], LeadPool[2], LeadPool[3]>>
SP3 == <<LocPool[1], LocPool[2], LocPool[3]>>
Ta == <<TimePool[1], TimePool[2]>>   Tb == <<TimePool[2], TimePool[1]>>
La == <<LeadPool[1], LeadPool[2]>>   Lb == <<LeadPool[2], LeadPool[1]>>
Sa == <<LocPool[1], LocPool[2]>>     Sb == <<LocPool[2], LocPool[1]>>
UC02Dim(Subs(_)) ==
     {[inp |-> <<FullIn(x, La, Sa), FullIn(y, Lb, Sb)>>, clim |-> NoClimGen, opt |-> NoOptions] : x \in Subs(TP3), y \in Subs(TP3)}
\cup {[inp |-> <<FullIn(Ta, x, Sa), FullIn(Tb, y, Sb)>>, clim |-> NoClimGen, opt |-> NoOptions] : x \in Subs(LP3), y \in Subs(LP3)}
\cup {[inp |-> <<FullIn(Ta, La, x), FullIn(Tb, Lb, y)>>, clim |-> NoClimGen, opt |-> NoOptions] : x \in Subs(SP3), y \in Subs(SP3)}
UC02Order(u) == UC02Dim(OrderedSubs)
\* the same time orders under a date / hour-of-day / time selection (indices are recomputed after -d and -tod)
UC02Sel(u) == {[inp |-> <<FullIn(x, La, Sa), FullIn(y, Lb, Sb)>>, clim |-> NoClimGen, opt |-> o]
                 : x \in OrderedSubs(TP3), y \in OrderedSubs(TP3),
                   o \in {WithOpt(NoOptions, "tod", {0}), WithOpt(NoOptions, "d", {20120101}),
                          WithOpt(NoOptions, "t", {TimePool[3], TimePool[1]})}}
RepOrPlain(P) == RepeatSubs(P) \cup {<<P[1], P[2]>>, <<P[3], P[2], P[1]>>}
UC02Repeat(u) == {g \in UC02Dim(RepOrPlain) : TRUE}
\* coordinates that are close in RELATIVE terms (initialisation times one hour apart, seven-digit station ids): each is its own case
TC3 == <<TimePool[1], TimePool[10], TimePool[11]>>
SC3 == <<LocPool[5], LocPool[6], LocPool[2]>>
UC02Close(u) == {[inp |-> <<FullIn(x, La, y), FullIn(z, Lb, w)>>, clim |-> NoClimGen, opt |-> NoOptions]
                   : x \in {TC3, <<TC3[3], TC3[1], TC3[2]>>}, z \in {TC3, <<TC3[2], TC3[3], TC3[1]>>},
                     y \in {SC3, <<SC3[2], SC3[3], SC3[1]>>}, w \in {SC3, <<SC3[3], SC3[2], SC3[1]>>}}
\* inputs with DIFFERENT coverage along close coordinates: one file has a run one hour before (or a station a few units from) the
\* common one, stored in front of it -- the common cases are those with EQUAL coordinates, not nearby ones; with and without a file
\* lacking observations
NoObsIn(g) == [g EXCEPT !.hasObs = FALSE]
UC01Close(u) == {[inp |-> <<FullIn(a, La, sa), g>>, clim |-> NoClimGen, opt |-> NoOptions]
                   : a \in {<<TimePool[11]>>, <<TimePool[1], TimePool[11]>>, <<TimePool[10]>>},
                     sa \in {<<LocPool[6], LocPool[2]>>, <<LocPool[2], LocPool[5]>>},
                     g \in UNION {{FullIn(b, Lb, sb), NoObsIn(FullIn(b, Lb, sb))}
                                   : b \in {<<TimePool[10], TimePool[11]>>, <<TimePool[1], TimePool[10], TimePool[11]>>, <<TimePool[11], TimePool[10]>>},
                                     sb \in {<<LocPool[5], LocPool[6], LocPool[2]>>, <<LocPool[2], LocPool[6], LocPool[5]>>}}}
\* all three dimensions vary together over a reduced menu, three inputs
Few(P) == {<<P[1], P[2]>>, <<P[2], P[1]>>, <<P[3], P[1], P[2]>>, <<P[2], P[3]>>}
UC02All(u) == {[inp |-> <<FullIn(a, b, c), FullIn(d, e, f)>>, clim |-> NoClimGen, opt |-> NoOptions]
                 : a \in Few(TP3), b \in Few(LP3), c \in Few(SP3), d \in Few(TP3), e \in Few(LP3), f \in Few(SP3)}
UC02Three(u) == {[inp |-> <<FullIn(a, La, c), FullIn(d, Lb, Sb), FullIn(Tb, e, f)>>, clim |-> NoClimGen, opt |-> NoOptions]
                 : a \in Few(TP3), c \in Few(SP3), d \in Few(TP3), e \in Few(LP3), f \in Few(SP3)}

---------------------------------------------------------------------------
(* C03: the subsetting options.  Input 1 has 4 times (2 dates in January + 1 February, hours 0 and 6), 3 lead times, *)
(* 4 locations; input 2 lists them in another order and lacks one location.                                          *)
T4 == <<TimePool[1], TimePool[2], TimePool[3], TimePool[4]>>
L3 == <<LeadPool[1], LeadPool[2], LeadPool[3]>>
S4 == <<LocPool[1], LocPool[2], LocPool[3], LocPool[4]>>
C03In1 == [ts |-> T4, ls |-> L3, ss |-> S4, hasObs |-> TRUE, mo |-> {<<1, 1, 1>>}, mf |-> {}, bump |-> 0]
C03In2 == [ts |-> <<TimePool[4], TimePool[3], TimePool[2], TimePool[1]>>, ls |-> <<LeadPool[3], LeadPool[1], LeadPool[2]>>,
           ss |-> <<LocPool[4], LocPool[2], LocPool[3], LocPool[1]>>, hasObs |-> TRUE, mo |-> {}, mf |-> {<<1, 1, 1>>}, bump |-> 0]
\* option name -> menu of values: selects everything / a strict subset / range ends equal to coordinates / nothing
OptMenu ==
  [t |-> {{TimePool[1], TimePool[2], TimePool[3], TimePool[4]}, {TimePool[1], TimePool[3]}, {12345}},
   d |-> {{20120101, 20120102, 20120201}, {20120101}, {20120102, 20120201}, {20110101}},
   tod |-> {{0, 6}, {6}, {0}, {3}},
   o |-> {{0, 12, 24}, {12}, {0, 24, 36}, {5}},
   l |-> {{1, 2, 3, 4}, {2, 3}, {3}, {9}},
   lx |-> {{}, {2}, {9}, {1, 2, 3, 4}},
   latrange |-> {<<0, 90>>, <<60, 70>>, <<70, 70>>, <<61, 69>>},
   lonrange |-> {<<-180, 360>>, <<20, 200>>, <<0, 40>>, <<300, 310>>},
   elevrange |-> {<<-10, 1000>>, <<100, 200>>, <<300, 300>>, <<50, 60>>},
   obsrange |-> {<<R(0), R(99999)>>, <<R(1122), R(1233)>>, <<R(1211), R(1211)>>, <<R(1), R(2)>>}]
OptSets(k) ==   \* all option records with at most k options given
  LET Ext(O1) == {O1} \cup UNION {{WithOpt(O1, n, v) : v \in OptMenu[n]} : n \in OptionNames \ O1.given}
      K0 == {NoOptions}
      K1 == UNION {Ext(x) : x \in K0}
      K2 == UNION {Ext(x) : x \in K1}
      K3 == UNION {Ext(x) : x \in K2}
  IN  IF k = 0 THEN K0 ELSE IF k = 1 THEN K1 ELSE IF k = 2 THEN K2 ELSE K3
UC03(k) == {[inp |-> <<C03In1, C03In2>>, clim |-> NoClimGen, opt |-> o] : o \in OptSets(k)}
\* the same with a climatology file that lacks one time and one location of its own
C03Clim == [on |-> TRUE, ts |-> <<TimePool[3], TimePool[1], TimePool[2]>>, ls |-> L3, ss |-> <<LocPool[3], LocPool[1], LocPool[2]>>,
            hasObs |-> FALSE, mo |-> {}, mf |-> {<<2, 2, 2>>}, mode |-> "lin", type |-> "subtract"]
UC03Clim(k) == {[inp |-> <<C03In1, C03In2>>, clim |-> C03Clim, opt |-> o] : o \in OptSets(k)}

---------------------------------------------------------------------------
(* C11: calendar buckets.  One or two inputs whose initialisation times straddle year, month, Monday-week and leap-day *)
(* boundaries; lead times on both sides of the 24 h and 48 h marks.                                                 *)
TimeSubsets3 == {<<TimePool[a], TimePool[b], TimePool[c]>> : a \in 1..9, b \in 1..9, c \in 1..9} 
C11Times == {ts \in TimeSubsets3 : IndexIn(TimePool, ts[1]) < IndexIn(TimePool, ts[2]) /\ IndexIn(TimePool, ts[2]) < IndexIn(TimePool, ts[3])}
L6 == <<LeadPool[2], LeadPool[5], LeadPool[3], LeadPool[6], LeadPool[1]>>     \* 12, 47, 24, 48, 0
UC11(u) == {[inp |-> <<[ts |-> ts, ls |-> L6, ss |-> Sa, hasObs |-> TRUE, mo |-> {<<1, 2, 1>>}, mf |-> {<<2, 3, 2>>}, bump |-> 0]>>,
             clim |-> NoClimGen, opt |-> NoOptions] : ts \in C11Times}
\* the nine times under a date / hour-of-day selection that removes some of them: the buckets are those of the times that remain
UC11Sel(u) == {[inp |-> <<[ts |-> SubSeq(TimePool, 1, 9), ls |-> L6, ss |-> Sa, hasObs |-> TRUE, mo |-> {<<1, 2, 1>>}, mf |-> {<<2, 3, 2>>}, bump |-> 0]>>,
             clim |-> NoClimGen, opt |-> o] : o \in {WithOpt(NoOptions, "d", {20120101, 20120201, 20120229, 20120301}), WithOpt(NoOptions, "tod", {0}),
                                                      WithOpt(NoOptions, "tod", {6, 18, 23}), WithOpt(NoOptions, "d", {20111231, 20121231, 20110301}),
                                                      WithOpt(WithOpt(NoOptions, "d", {20120101, 20120102, 20120201}), "tod", {0})}}
\* two files whose lists of initialisation times differ: the second one starts a run earlier / lists its runs in another order / has a run
\* the first one lacks in the middle, so that a common run sits at different positions in the two files (after seed C11-i)
UC11Two(u) == {[inp |-> <<[ts |-> a, ls |-> L6, ss |-> Sa, hasObs |-> TRUE, mo |-> {<<1, 2, 1>>}, mf |-> {<<2, 3, 2>>}, bump |-> 0],
                          [ts |-> b, ls |-> L6, ss |-> Sa, hasObs |-> ho, mo |-> {}, mf |-> {<<1, 1, 1>>}, bump |-> 0]>>,
                clim |-> NoClimGen, opt |-> NoOptions]
               : a \in {<<TimePool[1], TimePool[3], TimePool[4], TimePool[6], TimePool[7]>>},
                 b \in {<<TimePool[5], TimePool[1], TimePool[3], TimePool[4], TimePool[6], TimePool[7]>>,
                        <<TimePool[7], TimePool[6], TimePool[4], TimePool[3], TimePool[1]>>,
                        <<TimePool[1], TimePool[2], TimePool[3], TimePool[4], TimePool[7], TimePool[9]>>},
                 ho \in BOOLEAN}
L8 == L6 \o <<LeadPool[7], LeadPool[8]>>
UC11All(u) == {[inp |-> <<[ts |-> SubSeq(TimePool, 1, 9) \o <<TimePool[12]>>, ls |-> L8, ss |-> Sa, hasObs |-> TRUE, mo |-> {<<1, 2, 1>>}, mf |-> {<<2, 3, 2>>}, bump |-> 0]>>,
             clim |-> NoClimGen, opt |-> NoOptions]}

---------------------------------------------------------------------------
(* C14: climatology with its own coverage, order and missing cells; subtract and divide *)
ClimShapes == {<<T2, L1, S2>>, <<Tb, L1, Sb>>, <<<<TimePool[2], TimePool[3], TimePool[1]>>, <<LeadPool[2], LeadPool[1]>>, <<LocPool[3], LocPool[2], LocPool[1]>>>>,
               <<<<TimePool[1]>>, L1, S2>>, <<T2, L1, <<LocPool[2]>>>>}
UC14(u) == {[inp |-> <<In212(TRUE, a, b)>>,
             clim |-> [on |-> TRUE, ts |-> sh[1], ls |-> sh[2], ss |-> sh[3], hasObs |-> ho[1], mo |-> ho[2], mf |-> mf,
                       mode |-> m[1], type |-> m[2]], opt |-> NoOptions]
              : a \in SUBSET {<<1, 1, 1>>, <<2, 1, 2>>}, b \in SUBSET {<<1, 1, 2>>, <<2, 1, 2>>}, sh \in ClimShapes,
                mf \in {{}, {<<1, 1, 1>>}, {<<1, 1, 1>>, <<2, 1, 1>>}},
                \* the climatology file may bring its own observation column, with its own missing values (they count like any input's)
                ho \in {<<FALSE, {}>>, <<TRUE, {}>>, <<TRUE, {<<1, 1, 2>>}>>},
                m \in {<<"lin", "subtract">>, <<"small", "divide">>, <<"small", "subtract">>, <<"lin", "divide">>}}
UC14Two(u) == {[inp |-> <<In212(TRUE, a, b), In212(h, {}, d)>>,
             clim |-> [on |-> TRUE, ts |-> sh[1], ls |-> sh[2], ss |-> sh[3], hasObs |-> FALSE, mo |-> {}, mf |-> mf,
                       mode |-> m[1], type |-> m[2]], opt |-> NoOptions]
              : a \in SUBSET {<<1, 1, 1>>}, b \in SUBSET {<<1, 1, 2>>, <<2, 1, 2>>}, d \in SUBSET {<<2, 1, 1>>, <<2, 1, 2>>}, h \in BOOLEAN,
                sh \in ClimShapes, mf \in {{}, {<<1, 1, 1>>}}, m \in {<<"lin", "subtract">>, <<"small", "divide">>}}

\* -obsrange together with a climatology: the range is a range of OBSERVED values (1112..1211 keeps two of the four observations), not of anomalies
UC14Range(u) == {[x EXCEPT !.opt = WithOpt(NoOptions, "obsrange", <<R(1112), R(1211)>>)]
                   : x \in {y \in UC14(0) \cup UC14Two(0) : y.clim.mf = {} /\ ~y.clim.hasObs /\ \A j \in DOMAIN y.inp : y.inp[j].mo = {}}}
\* (the universes take a dummy parameter so that TLC does not pre-evaluate all of them as constants)
\* C18: datasets whose inputs disagree on which cells are missing (the interesting ones for caches that are written in place)
UC18Quick(u) == {[inp |-> <<In212(TRUE, a, b), In212(TRUE, c, d)>>, clim |-> NoClimGen, opt |-> NoOptions]
                  : a \in {{}, {<<1, 1, 1>>}}, b \in {{}, {<<1, 1, 2>>}}, c \in {{}, {<<2, 1, 1>>}}, d \in {{}, {<<2, 1, 2>>}}}
\* one location (two times, two lead times): every dimension of every input lines up with the verified dimensions, position by position
In221(hasObs, mo, mf) == [ts |-> T2, ls |-> <<LeadPool[1], LeadPool[2]>>, ss |-> <<LocPool[1]>>, hasObs |-> hasObs, mo |-> mo, mf |-> mf, bump |-> 0]
UC18Single(u) == {[inp |-> <<In221(TRUE, a, b), In221(h, {}, d)>>, clim |-> NoClimGen, opt |-> o]
                    : a \in {{}, {<<1, 1, 1>>}}, b \in {{<<1, 2, 1>>}}, d \in {{}, {<<2, 1, 1>>}}, h \in BOOLEAN,
                      o \in {NoOptions, WithOpt(NoOptions, "obsrange", <<R(1112), R(1221)>>)}}
\* two runs in different months x lead times 0, 12, 24 h x one location: slices along several DERIVED dimensions (lead time, lead-time day,
\* month) that carry the same slice number but hold different cases
InAxes(hasObs, mo, mf) == [ts |-> <<TimePool[1], TimePool[4]>>, ls |-> <<LeadPool[1], LeadPool[2], LeadPool[3]>>, ss |-> <<LocPool[1]>>,
                           hasObs |-> hasObs, mo |-> mo, mf |-> mf, bump |-> 0]
UC18Axes(u) == {[inp |-> <<InAxes(TRUE, a, b), InAxes(h, {}, d)>>, clim |-> NoClimGen, opt |-> NoOptions]
                  : a \in {{}, {<<1, 1, 1>>}}, b \in {{<<1, 2, 1>>}}, d \in {{}, {<<2, 3, 1>>}}, h \in BOOLEAN}
\* extra fields (two quantile levels that agree to two decimals, another score column), each with its own missing cells in each input:
\* a case counts only if EVERY requested field is present in EVERY input (C01); the two quantile levels are different fields (C18)
ExIn(hasObs, mo, mf, e1, e2, e3) == [ts |-> T2, ls |-> L1, ss |-> S2, hasObs |-> hasObs, mo |-> mo, mf |-> mf, bump |-> 0,
                                      ex |-> ("q0.005" :> e1 @@ "q0.01" :> e2 @@ "Tmax" :> e3)]
\* the second input stores two more quantile levels than the first (one below, one above the shared ones): its columns sit elsewhere
ExIn2(hasObs, mo, mf, e1, e2, e3) == [ExIn(hasObs, mo, mf, e1, e2, e3) EXCEPT !.ex = @ @@ ("q0.001" :> {} @@ "q0.5" :> {})]
UCExtra(u) == {[inp |-> <<ExIn(TRUE, a, {}, b, {}, {<<2, 1, 2>>}), ExIn2(h, {}, d, {}, e, {})>>, clim |-> NoClimGen, opt |-> NoOptions]
                 : a \in {{}, {<<1, 1, 1>>}}, b \in {{}, {<<1, 1, 2>>}}, d \in {{}, {<<2, 1, 1>>}}, e \in {{}, {<<1, 1, 1>>, <<2, 1, 2>>}}, h \in BOOLEAN}
UC18Mix(u) == {[inp |-> <<In212(TRUE, a, b), In212(h, {}, d)>>, clim |-> cl, opt |-> o]
                  : a \in {{}, {<<1, 1, 1>>}}, b \in {{<<1, 1, 2>>}}, d \in {{}, {<<2, 1, 2>>}}, h \in BOOLEAN,
                    cl \in {NoClimGen, [on |-> TRUE, ts |-> T2, ls |-> L1, ss |-> S2, hasObs |-> FALSE, mo |-> {}, mf |-> {<<2, 1, 1>>},
                                        mode |-> "lin", type |-> "subtract"]},
                    o \in {NoOptions, WithOpt(NoOptions, "obsrange", <<R(1112), R(1211)>>)}}
\* C04 / C12: small-valued datasets on a 2x2x2 grid with missing single cells, whole slices and whole inputs
P222 == Positions(Ta, La, Sa)
In222(mo, mf) == [ts |-> Ta, ls |-> La, ss |-> Sa, hasObs |-> TRUE, mo |-> mo, mf |-> mf, bump |-> 0]
MissMenu == {{}, {<<1, 1, 1>>}, {<<1, 1, 1>>, <<2, 2, 2>>}, {p \in P222 : p[1] = 1}, {p \in P222 : p[3] = 2}, P222}
UC04(u) == {[inp |-> <<In222(a, b), In222(c, d)>>, clim |-> NoClimGen, opt |-> NoOptions]
              : a \in MissMenu, b \in MissMenu, c \in {{}, {<<2, 1, 2>>}}, d \in {{}, {<<1, 2, 1>>}, P222}}
\* the same with a climatology that has zeros (non-finite quotients under -C) and missing cells of its own
UC04Clim(u) == {[inp |-> <<In222(a, b)>>,
                 clim |-> [on |-> TRUE, ts |-> Ta, ls |-> La, ss |-> Sa, hasObs |-> FALSE, mo |-> {}, mf |-> f, mode |-> "small", type |-> ty],
                 opt |-> NoOptions]
                 : a \in {{}, {<<1, 1, 2>>}}, b \in {{}, {<<2, 2, 2>>}}, f \in {{}, {<<1, 1, 1>>}}, ty \in {"divide", "subtract"}}
\* C12: table output: a few of the above plus two inputs whose times straddle year / month / week boundaries
C12Times == <<TimePool[5], TimePool[1], TimePool[2], TimePool[3], TimePool[4], TimePool[6]>>
C12Leads == <<LeadPool[1], LeadPool[3], LeadPool[5]>>
In12(mo, mf) == [ts |-> C12Times, ls |-> C12Leads, ss |-> <<LocPool[2], LocPool[1], LocPool[4]>>, hasObs |-> TRUE, mo |-> mo, mf |-> mf, bump |-> 0]
UC12(u) == {[inp |-> <<In222(a, {}), In222({}, d)>>, clim |-> NoClimGen, opt |-> NoOptions] : a \in {{}, {p \in P222 : p[1] = 1}}, d \in {{}, {<<1, 2, 1>>}}}
      \* runs at 00:00 and 00:30: two times of day
      \cup {[inp |-> <<[In222({}, {}) EXCEPT !.ts = <<TimePool[1], TimePool[12]>>], [In222({}, {<<1, 2, 1>>}) EXCEPT !.ts = <<TimePool[12], TimePool[1]>>]>>, clim |-> NoClimGen, opt |-> NoOptions]}
      \cup {[inp |-> <<In12(a, {}), In12({}, d)>>, clim |-> NoClimGen, opt |-> NoOptions] : a \in {{}, {<<2, 1, 1>>, <<2, 2, 1>>, <<2, 3, 1>>}}, d \in {{<<5, 1, 2>>}}}
\* runs in the week that starts on Monday 2012-01-02 and in the week that starts on Monday 2012-12-31: both belong to 2012, and the
\* second is week 1 of the ISO year 2013 -- whatever numbering a label uses, the two rows must not read alike (after seed C12-h)
In12W(mo, mf) == [ts |-> <<TimePool[9], TimePool[3], TimePool[1]>>, ls |-> <<LeadPool[1], LeadPool[3]>>, ss |-> <<LocPool[2], LocPool[1]>>,
                  hasObs |-> TRUE, mo |-> mo, mf |-> mf, bump |-> 0]
UC12Week(u) == {[inp |-> <<In12W({}, {}), In12W({}, {<<2, 1, 2>>})>>, clim |-> NoClimGen, opt |-> NoOptions]}
\* station ids of five digits (more significant digits than the scores are printed with)
UC12Ids(u) == {[inp |-> <<[In222({}, {}) EXCEPT !.ss = <<LocPool[7], LocPool[8]>>], [In222({}, {<<1, 2, 2>>}) EXCEPT !.ss = <<LocPool[8], LocPool[7]>>]>>,
                clim |-> NoClimGen, opt |-> NoOptions],
               \* and of seven digits, a few units apart
               [inp |-> <<[In222({}, {}) EXCEPT !.ss = <<LocPool[5], LocPool[6]>>], [In222({}, {<<1, 2, 2>>}) EXCEPT !.ss = <<LocPool[6], LocPool[5]>>]>>,
                clim |-> NoClimGen, opt |-> NoOptions]}
\* the same tables with a climatology (-c): the legend and the columns are those of the scored inputs
\* slices that hold exactly ONE valid pair (a 2x2 table with total 1 is a table) and slices that hold none
UC12One(u) == {[inp |-> <<In222({<<1, 1, 1>>, <<1, 1, 2>>, <<2, 1, 1>>}, {}), In222({}, {<<1, 2, 2>>})>>, clim |-> NoClimGen, opt |-> NoOptions]}
UC12Clim(u) == {[inp |-> <<In222({}, {}), In222({}, {<<1, 2, 1>>})>>,
                 clim |-> [on |-> TRUE, ts |-> Tb, ls |-> La, ss |-> Sa, hasObs |-> FALSE, mo |-> {}, mf |-> {<<2, 2, 2>>}, mode |-> "small", type |-> "subtract"],
                 opt |-> NoOptions]}
\* the same files with a climatology that holds zeros, under -C: a quotient by zero is no number, so such a pair is no valid pair of any table (after seed C06-i)
UC12ClimDiv(u) == {[x EXCEPT !.clim.type = "divide", !.clim.mf = {}] : x \in UC12Clim(0)}
UC04Quick(u) == {x \in UC04(0) : x.inp[2].mo = {} \/ x.inp[1].mf = {}}
\* climatology together with an input that borrows its observations
UC01ClimNoObs(u) == {[inp |-> <<In112(TRUE, a, b), In112(FALSE, {}, d)>>, clim |-> ClimGen(f, m[1], m[2]), opt |-> NoOptions]
               : a \in SUBSET P112, b \in SUBSET P112, d \in SUBSET P112, f \in SUBSET P112,
                 m \in {<<"lin", "subtract">>, <<"small", "divide">>}}
\* C15 in composition: -T on two inputs with DIFFERENT lead-time grids (one unsorted and lacking a lead time), missing cells, and a
\* selection (-o / -t) applied afterwards: windows follow each file's own grid, selection and intersection come later
L4 == <<LeadPool[1], LeadPool[2], LeadPool[3], LeadPool[4]>>
T15In1 == [ts |-> Ta, ls |-> L4, ss |-> Sa, hasObs |-> TRUE, mo |-> {<<1, 2, 1>>}, mf |-> {}, bump |-> 0]
T15In2 == [ts |-> Tb, ls |-> <<LeadPool[4], LeadPool[2], LeadPool[1]>>, ss |-> Sb, hasObs |-> TRUE, mo |-> {}, mf |-> {<<2, 1, 2>>}, bump |-> 0]
T15In2NoObs == [T15In2 EXCEPT !.hasObs = FALSE]
T15In3 == [T15In2 EXCEPT !.ls = <<LeadPool[4], LeadPool[2], LeadPool[1], LeadPool[3]>>]        \* the same lead times as input 1, in another order
TMenu == {<<R(12), "sum", "leadtime">>, <<R(24), "sum", "leadtime">>, <<R(25), "mean", "leadtime">>, <<R(13), "max", "leadtime">>,
          <<R(36), "range", "leadtime">>, <<R(7), "sum", "time">>, <<R(6), "min", "time">>,
          \* first-to-last statistics: "first" and "last" are those of the window in coordinate order, whatever the order in the file
          <<R(25), "abschange", "leadtime">>, <<R(37), "change", "leadtime">>, <<R(3), "abschange", "time">>}
\* -T on ENSEMBLE MEMBERS (columns e0, e1, e2 as extra fields): every member series is pre-aggregated like obs and fcst, and the event
\* probability of a threshold the files do not store is the fraction of the pre-aggregated members at or below it -- per input
DeriveT == ("p16000" :> 16000 @@ "p26000" :> 26000)
EnsIn(g) == [ts |-> g.ts, ls |-> g.ls, ss |-> g.ss, hasObs |-> g.hasObs, mo |-> {}, mf |-> g.mf, bump |-> 0, ex |-> ("e0" :> {} @@ "e1" :> {} @@ "e2" :> {})]
UC15Ens(u) == {[inp |-> <<EnsIn(T15In1), EnsIn(T15In3)>>, clim |-> NoClimGen, opt |-> WithOpt(NoOptions, "T", t)]
                 : t \in {<<R(13), "mean", "leadtime">>, <<R(25), "mean", "leadtime">>, <<R(7), "mean", "time">>, <<R(13), "max", "leadtime">>}}
UC15T(u) == {[inp |-> i, clim |-> NoClimGen, opt |-> WithOpt(o, "T", t)]
               : i \in {<<T15In1, T15In2>>, <<T15In1>>, <<T15In1, T15In2NoObs>>, <<T15In1, T15In3>>}, t \in TMenu,
                 o \in {NoOptions, WithOpt(NoOptions, "o", {0, 36}), WithOpt(NoOptions, "o", {12, 36}), WithOpt(NoOptions, "t", {TimePool[2]})}}
Universe(u) ==
  CASE Family = "C01Full"   -> UC01Full(0)
    [] Family = "C15T"      -> UC15T(0)
    [] Family = "C15Ens"    -> UC15Ens(0)
    [] Family = "C01Quick"  -> UC01Quick(0)
    [] Family = "C01NoObs"  -> UC01NoObs(0) \cup UC01NoObs1(0)
    [] Family = "C01Three"  -> UC01Three(0)
    [] Family = "C01Clim"   -> UC01Clim(0)
    [] Family = "C01Mid"    -> UC01Mid(0)
    [] Family = "C01ClimNoObs" -> UC01ClimNoObs(0)
    [] Family = "C18Quick"  -> UC18Quick(0)
    [] Family = "C18One"    -> {[inp |-> <<In212(TRUE, {<<1, 1, 1>>}, {<<1, 1, 2>>}), In212(TRUE, {<<2, 1, 1>>}, {})>>, clim |-> NoClimGen, opt |-> NoOptions]}
    [] Family = "C18Full"   -> UC01Full(0)
    [] Family = "C18Mix"    -> UC18Mix(0)
    [] Family = "C18Single" -> UC18Single(0)
    [] Family = "C18Axes"   -> UC18Axes(0)
    [] Family = "C01Extra" -> UCExtra(0)
    [] Family = "C18Ens" -> {[inp |-> <<EnsIn(In212(TRUE, {}, {})), EnsIn(In212(TRUE, {}, {<<2, 1, 1>>}))>>, clim |-> NoClimGen, opt |-> NoOptions]}
    \* two files that store two ensemble members and no probabilities; the members are ALL missing at one cell of the first file and at another
    \* cell of the second (one member only at a third): probabilities derived from the members are fields like any other -- a cell where
    \* one file has none is no case for either file, whichever file is asked first (after seed C18-i)
    [] Family = "C18Derived" -> {[inp |-> <<[In212(TRUE, {}, {}) EXCEPT !.bump = 0] @@ [ex |-> ("e0" :> {<<1, 1, 1>>} @@ "e1" :> {<<1, 1, 1>>}), derive |-> DeriveT],
                                            In212(TRUE, {}, {}) @@ [ex |-> ("e0" :> {<<2, 1, 2>>, <<1, 1, 2>>} @@ "e1" :> {<<2, 1, 2>>}), derive |-> DeriveT]>>,
                                   clim |-> NoClimGen, opt |-> NoOptions]}
    [] Family = "C18Extra" -> {g \in UCExtra(0) : g.inp[1].mo = {} /\ g.inp[2].mf = {}}
    [] Family = "C04"       -> UC04(0)
    [] Family = "C04Quick"  -> UC04Quick(0)
    [] Family = "C04Clim"   -> UC04Clim(0)
    [] Family = "C12"       -> UC12(0)
    [] Family = "C12Report" -> UC12(0) \cup UC12Clim(0) \cup UC12ClimDiv(0) \cup UC12One(0) \cup UC12Ids(0) \cup UC12Week(0)
    [] Family = "C02Order"  -> UC02Order(0)
    [] Family = "C02Sel"    -> UC02Sel(0)
    [] Family = "C02Repeat" -> UC02Repeat(0)
    [] Family = "C02Close"  -> UC02Close(0)
    [] Family = "C01Close"  -> UC01Close(0)
    [] Family = "C02All"    -> UC02All(0)
    [] Family = "C02Three"  -> UC02Three(0)
    [] Family = "C03K1"     -> UC03(1)
    [] Family = "C03K2"     -> UC03(2)
    [] Family = "C03K3"     -> UC03(3)
    [] Family = "C03ClimK1" -> UC03Clim(1)
    [] Family = "C03ClimK2" -> UC03Clim(2)
    [] Family = "C11"       -> UC11(0)
    [] Family = "C11All"    -> UC11All(0)
    [] Family = "C11Sel"    -> UC11Sel(0)
    [] Family = "C11Two"    -> UC11Two(0)
    [] Family = "C14"       -> UC14(0)
    [] Family = "C14Two"    -> UC14Two(0)
    [] Family = "C14Range"  -> UC14Range(0)

---------------------------------------------------------------------------
(* request menu: every field combination, input, and every slice of the listed axes *)
FamKind == CASE Family \in {"C11", "C11All", "C11Sel", "C11Two"} -> "calendar"
             [] Family \in {"C01Extra", "C18Extra", "C18Ens", "C18Derived"} -> "extra"
             [] Family \in {"C03K1", "C03K2", "C03K3", "C03ClimK1", "C03ClimK2"} -> "options"
             [] OTHER -> "plain"
FieldSeqs == IF FamKind = "plain" THEN {<<"obs">>, <<"fcst">>, <<"obs", "fcst">>}
             ELSE IF FamKind = "extra" THEN {<<"obs">>, <<"obs", "fcst">>, <<"q0.005">>, <<"q0.01">>, <<"obs", "q0.01">>, <<"fcst", "Tmax">>,
                                             <<"obs", "fcst", "q0.005", "q0.01">>, <<"obs", "Tmax", "q0.005">>}
             ELSE {<<"fcst">>, <<"obs", "fcst">>}
MenuAxes == IF FamKind = "calendar" THEN (TimeAxes \cup LeadAxes \cup LocationAxes \cup {"no", "all"})
            ELSE IF FamKind = "options" THEN {"all", "no", "time", "location"}
            ELSE {"all", "no", "time", "leadtime", "location"}
MaxIdx == IF FamKind = "calendar" THEN 9 ELSE 4
Requests(n) ==
  {[fields |-> f, inp |-> i, axis |-> a, idx |-> k] :
     f \in FieldSeqs, i \in 1..n, a \in MenuAxes, k \in 1..MaxIdx}
ReqOk(X, r) == IF r.axis = "all" THEN r.idx = 1 ELSE r.idx <= NumSlices(X, r.axis)

---------------------------------------------------------------------------
(* JSON rendering *)
J(x) == IF IsNaN(x) THEN "nan" ELSE IF IsInf(x) THEN (IF x[1] > 0 THEN "inf" ELSE "-inf")
        ELSE IF x[2] = 1 THEN x[1] ELSE x
Flat(I, F) ==
  LET nt == Len(I.times)  nl == Len(I.leads)  ns == Len(I.locs)
  IN  [n \in 1..(nt * nl * ns) |->
         J(F[<<((n - 1) \div (ns * nl)) + 1, (((n - 1) \div ns) % nl) + 1, ((n - 1) % ns) + 1>>])]
InputJson(I) == [times |-> I.times, leads |-> I.leads, locs |-> I.locs, lat |-> I.lat, lon |-> I.lon,
                 elev |-> I.elev, hasObs |-> I.hasObs, obs |-> Flat(I, I.obs), fcst |-> Flat(I, I.fcst),
                 extra |-> [f \in ExtraNames(I) |-> Flat(I, I.extra[f])],
                 derived |-> IF "derived" \in DOMAIN I THEN SetToSeq(I.derived) ELSE <<>>]
OptJson(O) == [given |-> SetToSeq(O.given), t |-> SortInts(O.t), d |-> SortInts(O.d), tod |-> SortInts(O.tod),
               o |-> SortInts(O.o), l |-> SortInts(O.l), lx |-> SortInts(O.lx), latrange |-> O.latrange,
               lonrange |-> O.lonrange, elevrange |-> O.elevrange,
               obsrange |-> <<J(O.obsrange[1]), J(O.obsrange[2])>>, T |-> <<J(O.T[1]), O.T[2], O.T[3]>>]
CaseList(X, r) ==
  LET cs == Cases(X, r)
      idxs == SortInts({X.pos[c] : c \in cs})
      byIdx == [n \in {X.pos[c] : c \in cs} |-> CHOOSE c \in cs : X.pos[c] = n]
  IN  [m \in DOMAIN idxs |->
         <<idxs[m]>> \o [k \in DOMAIN r.fields |-> J(X.adj[r.inp, r.fields[k], byIdx[idxs[m]]])]]
ReqJson(X, r) == [f |-> r.fields, i |-> r.inp, a |-> r.axis, k |-> r.idx, c |-> CaseList(X, r)]

=============================================================================
