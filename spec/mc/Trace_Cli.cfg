SPECIFICATION Spec
INVARIANT InvPositions
INVARIANT InvFilesInOrder
CHECK_DEADLOCK FALSE
