SPECIFICATION Spec
CONSTANT Family = "C04"
INVARIANT InvPairsValid
INVARIANT InvCountsAddUp
INVARIANT InvMeanDecomposes
INVARIANT InvSameCounts
CHECK_DEADLOCK FALSE
