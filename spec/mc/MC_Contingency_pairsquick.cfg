SPECIFICATION Spec
CONSTANTS MaxN = 3
          Kind = "pairsquick"
INVARIANT InvCountsSum
INVARIANT InvSwapTable
INVARIANT InvComplementTable
INVARIANT InvSwap
INVARIANT InvCompl
INVARIANT InvPerfect
INVARIANT InvBounds
CHECK_DEADLOCK FALSE
