#!/bin/bash
# tools/sany.sh <Module>  -- parse one module (with everything under spec/), print errors only
d=/verif/build/tlc/sany_$$; mkdir -p $d; cp /verif/spec/*.tla /verif/spec/mc/*.tla $d/; cd $d
out=$(tla-sany $1.tla 2>&1 | grep -v "^Semantic processing\|^Parsing file\|^Linting\|^WARNING\|^$\|SANY2 Version")
rm -rf $d
if [ -z "$out" ]; then echo "$1: ok"; else echo "$out" | head -${2:-20}; exit 1; fi
