SPECIFICATION Spec
CONSTANT Kind = "arr"
INVARIANT InvOrder
INVARIANT InvWindow
CHECK_DEADLOCK FALSE
