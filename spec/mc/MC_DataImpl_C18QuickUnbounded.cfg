SPECIFICATION Spec
CONSTANTS Family = "C18Quick"
          MaxLen = 99
          EmitLeaves = FALSE
          CopyOnAll = TRUE
VIEW CacheView
INVARIANT CacheCoherent
PROPERTY CacheGrows
PROPERTY HandedOutStable
PROPERTY LastIsCached
CHECK_DEADLOCK FALSE
