"""Run TLC (always under `timeout`), collect its statistics and the JSON it emits.

The specifications emit one JSON object per line with PrintT(ToJson(x)); TLC prints that as a JSON
*string literal* holding the JSON text, so a line is decoded with json.loads twice.
"""
import json
import os
import re
import shutil
import subprocess
import time

ROOT = os.path.dirname(os.path.dirname(os.path.abspath(__file__)))
SPEC = os.path.join(ROOT, "spec")
BUILD = os.path.join(ROOT, "build")
JAR = "/opt/veriftools/tla/tla2tools.jar:/opt/veriftools/tla/CommunityModules-deps.jar"


class TlcFailure(Exception):
    """Machinery failure: TLC did not complete (parse error, timeout, crash). Exit status 2."""


class TlcResult(object):
    def __init__(self):
        self.generated = 0
        self.distinct = 0
        self.depth = 0
        self.emitted = []       # decoded JSON objects
        self.violated = None    # name of the violated invariant / property, if any
        self.trace_text = ""    # TLC's error trace, verbatim
        self.coverage = {}      # action name -> (distinct, total)
        self.wall_s = 0.0
        self.cmd = ""
        self.raw_tail = ""
        self.printed = []       # non-JSON PrintT lines (plain strings)


def _workdir(tag):
    d = os.path.join(BUILD, "tlc", "%s.%d" % (tag, os.getpid()))   # two runs of one check never share a directory
    shutil.rmtree(d, ignore_errors=True)
    os.makedirs(d)
    return d


def run(module, cfg=None, tag=None, require_emit=True, retries=1, **kw):
    """run_once with a sanity guard: a generator configuration that emits nothing (TLC explored no successor state) is a
    machinery failure, never a silent pass. One retry, with the first failure reported on stderr."""
    import sys
    last = None
    for attempt in range(retries + 1):
        try:
            res = run_once(module, cfg, tag, **kw)
            if require_emit and not res.emitted and not res.printed and res.violated is None:
                raise TlcFailure("TLC finished but emitted nothing (%d states generated): %s" % (res.generated, res.cmd))
            return res
        except TlcFailure as e:
            last = e
            if "timed out" in str(e) or "SANY" in str(e) or "Parsing or semantic" in str(e) or "violation of" in str(e):
                break
            sys.stderr.write("tlc: attempt %d failed: %s\n" % (attempt + 1, str(e)[:400]))
            try:
                with open(os.path.join(BUILD, "tlc-failures.log"), "a") as f:
                    f.write("==== %s attempt %d\n%s\n" % (time.ctime(), attempt + 1, e))
            except OSError:
                pass
    raise last


def run_once(module, cfg=None, tag=None, workers=16, timeout_s=600, simulate=None, depth=None,
        seed=None, env=None, coverage=False, heap="8g", deque=False, extra=None, keep=False,
        allow_violation=False):
    """Model-check spec/mc/<module>.tla with spec/mc/<cfg or module>.cfg.

    simulate: None for exhaustive BFS, else "num=N" (string handed to -simulate).
    Returns a TlcResult. Raises TlcFailure if TLC did not run to completion.
    """
    tag = tag or module
    wd = _workdir(tag)
    # copy the spec tree flat into the work dir, so TLC resolves EXTENDS/INSTANCE by name
    for base in (SPEC, os.path.join(SPEC, "mc")):
        for fn in os.listdir(base):
            if fn.endswith(".tla") or fn.endswith(".cfg"):
                shutil.copy(os.path.join(base, fn), os.path.join(wd, fn))
    cfgfile = (cfg or module) + ".cfg"
    jopts = ["-XX:+UseParallelGC", "-Xmx" + heap, "-Xss64m"]     # deep recursive operators (SumSeq over a pooled slice) overflow the default worker stack
    if deque:
        jopts.append("-Dtlc2.tool.queue.IStateQueue=StateDeque")
    cmd = ["timeout", str(int(timeout_s)), "java"] + jopts + ["-cp", JAR, "tlc2.TLC",
           "-workers", str(workers), "-metadir", os.path.join(wd, "meta"), "-noGenerateSpecTE",
           "-config", cfgfile]
    if coverage:
        cmd += ["-coverage", "1"]
    if simulate:
        cmd += ["-simulate", simulate]
    if depth:
        cmd += ["-depth", str(depth)]
    if seed is not None:
        cmd += ["-seed", str(seed)]
    if extra:
        cmd += list(extra)
    cmd.append(module + ".tla")
    e = dict(os.environ)
    if env:
        e.update({k: str(v) for k, v in env.items()})
    t0 = time.time()
    outpath = os.path.join(wd, "tlc.out")
    with open(outpath, "w") as out:
        p = subprocess.run(cmd, cwd=wd, env=e, stdout=out, stderr=subprocess.STDOUT)
    res = TlcResult()
    res.wall_s = time.time() - t0
    res.cmd = " ".join(cmd[2:])
    _parse(outpath, res)
    # TLC's workers print in a nondeterministic order; a canonical order makes every seeded sample of the cases reproducible
    res.emitted.sort(key=lambda e: json.dumps(e, sort_keys=True))
    if p.returncode == 124:
        raise TlcFailure("TLC timed out after %ds: %s" % (timeout_s, res.cmd))
    finished = "Model checking completed" in res.raw_tail or "Finished in" in res.raw_tail
    if res.violated is None and (p.returncode != 0 or not finished):
        raise TlcFailure("TLC failed (status %d): %s\n%s" % (p.returncode, res.cmd, res.raw_tail))
    if res.violated is not None and not allow_violation:
        raise TlcFailure("TLC reports a violation of %s in the specification itself: %s\n%s"
                         % (res.violated, res.cmd, res.trace_text[-3000:]))
    if not keep:
        shutil.rmtree(wd, ignore_errors=True)
    return res


_RE_STATS = re.compile(r"^(\d+) states generated, (\d+) distinct states found")
_RE_DEPTH = re.compile(r"depth of the complete state graph search is (\d+)")
_RE_INV = re.compile(r"Invariant (\S+) is violated")
_RE_PROP = re.compile(r"(?:Action|Temporal) propert(?:y|ies) (\S*)\s*(?:is|were) violated")
_RE_COV = re.compile(r"^<(\w+) line \d+, col \d+ to line \d+, col \d+ of module (\w+)>: (\d+):(\d+)")


def _parse(path, res):
    tail = []
    in_trace = False
    trace = []
    with open(path, errors="replace") as f:
        for line in f:
            line = line.rstrip("\n")
            if line.startswith('"{') or line.startswith('"['):
                try:
                    res.emitted.append(json.loads(json.loads(line)))
                    continue
                except ValueError:
                    pass
            if line.startswith('"') and line.endswith('"') and len(line) >= 2:
                try:
                    res.printed.append(json.loads(line))
                    continue
                except ValueError:
                    pass
            tail.append(line)
            if len(tail) > 60:
                tail.pop(0)
            m = _RE_STATS.match(line)
            if m:
                res.generated, res.distinct = int(m.group(1)), int(m.group(2))
            m = _RE_DEPTH.search(line)
            if m:
                res.depth = int(m.group(1))
            m = _RE_INV.search(line)
            if m:
                res.violated = m.group(1)
                in_trace = True
            m = _RE_PROP.search(line)
            if m:
                res.violated = m.group(1) or "property"
                in_trace = True
            if "Error: " in line and ("evaluat" in line or "Assumption" in line or "assert" in line.lower()):
                in_trace = True
                if res.violated is None and "Assumption" in line:
                    res.violated = "ASSUME"
            if "is violated by the initial state" in line:
                in_trace = True
            m = _RE_COV.match(line)
            if m:
                res.coverage[m.group(1)] = (int(m.group(4)), int(m.group(3)))
            if in_trace:
                trace.append(line)
                if len(trace) > 400:
                    in_trace = False
    res.raw_tail = "\n".join(tail)
    res.trace_text = "\n".join(trace)


def sany(module):
    """Parse one module of spec/ (and what it extends). Raises TlcFailure on a parse error."""
    wd = _workdir("sany_" + module)
    for base in (SPEC, os.path.join(SPEC, "mc")):
        for fn in os.listdir(base):
            if fn.endswith(".tla"):
                shutil.copy(os.path.join(base, fn), os.path.join(wd, fn))
    p = subprocess.run(["timeout", "120", "java", "-cp", JAR, "tla2sany.SANY", module + ".tla"],
                       cwd=wd, stdout=subprocess.PIPE, stderr=subprocess.STDOUT, text=True)
    shutil.rmtree(wd, ignore_errors=True)
    if p.returncode != 0 or "*** Errors" in p.stdout or "Fatal" in p.stdout or "Could not" in p.stdout:
        raise TlcFailure("SANY rejects %s:\n%s" % (module, p.stdout[-3000:]))
    return True
