#!/bin/bash
# tools/try_seed.sh <seed dir> <name> <check> [<check>...]   e.g. tools/try_seed.sh /tmp/seed_C02/seed_out C02-a C02 C03
# Applies the seeded patch to /repo, runs its demonstration and the given quick checks, and ALWAYS restores /repo.
SRC=$1; NAME=$2; shift 2
DST=/verif/seeded/$NAME
mkdir -p $DST && cp $SRC/patch.diff $SRC/demo.py $SRC/meta.json $DST/ 2>/dev/null
cd /repo || exit 2
git diff --quiet || { echo "/repo has local changes; refusing"; exit 2; }
trap 'git -C /repo checkout -- . ' EXIT
echo "== demo on clean tree"; (cd /repo && PYTHONPATH=/repo timeout 600 /venv/bin/python $DST/demo.py >/tmp/demo_clean.out 2>&1; echo "exit=$?")
git apply $DST/patch.diff || { echo "patch does not apply"; exit 2; }
echo "== demo with patch"; (cd /repo && PYTHONPATH=/repo timeout 600 /venv/bin/python $DST/demo.py >/tmp/demo_patched.out 2>&1; echo "exit=$?"; tail -2 /tmp/demo_patched.out | cut -c1-300)
RES=""
for c in "$@"; do
  tier=quick; cc=$c
  case $c in *:thorough) tier=thorough; cc=${c%%:*};; esac
  (cd /verif && ./check $cc $tier > /tmp/seed_check_$cc.out 2>&1); rc=$?
  echo "== ./check $cc $tier -> exit $rc ; $(grep -c '^VIOLATION' /tmp/seed_check_$cc.out) VIOLATION lines; $(tail -1 /tmp/seed_check_$cc.out | cut -c1-200)"
  grep -m2 -A1 '^VIOLATION' /tmp/seed_check_$cc.out | cut -c1-400
  RES="$RES $cc:$tier=$rc"
done
echo "RESULT $NAME:$RES"
