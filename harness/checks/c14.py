"""C14 Anomaly scores use the climatology at the same coordinates. Spec: Dataset.tla Adj (clim subtract/divide on obs and
fcst only, clim part of the fair-comparison propagation, never a scored input); TLC additionally checks the
shift-equivalence theorem (clim as -c  ==  clim as an extra input, for obs-fcst differences)."""
from harness import par
from harness.checks import dscommon

replay = dscommon.replay


def _legend_chunk(objs):
    """the climatology never appears as a scored input or legend entry: one legend entry / table column per scored input, whatever the
    files are called (same base name in different directories included), with -c and with -C"""
    import io
    import os
    import sys
    from harness import dsreplay, table, materialize as mat
    from harness.dsreplay import quiet, exc_site
    import verif.driver
    import verif.input
    import verif.data
    out = []
    wd = par.workdir()
    for o in objs:
        n = len(o["inputs"])
        paths = []
        for k, inp in enumerate(o["inputs"]):
            d = os.path.join(wd, "exp%d" % k)
            os.makedirs(d, exist_ok=True)
            p = os.path.join(d, "t2m.txt")            # every scored input has the same base name
            mat.write_text(p, inp)
            paths.append(p)
        d = os.path.join(wd, "clim")
        os.makedirs(d, exist_ok=True)
        climp = os.path.join(d, "normals.txt")
        mat.write_text(climp, o["clim"])
        rep = {"kind": "clim-legend", "dataset": {k: o[k] for k in o if k != "req"}}
        try:
            with quiet():
                data = verif.data.Data([verif.input.get_input(p) for p in paths], clim=verif.input.get_input(climp), clim_type=o["climType"])
                leg = list(data.get_legend())
            if len(leg) != n or any("normals" in str(x) for x in leg):
                out.append(("clim:legend", "%d scored inputs + climatology (%s): the legend is %r" % (n, o["climType"], leg), rep))
            old = sys.stdout
            sys.stdout = buf = io.StringIO()
            try:
                verif.driver.run(["verif"] + paths + ["-c" if o["climType"] == "subtract" else "-C", climp, "-m", "mae", "-x", "leadtime", "-type", "csv"])
            except SystemExit:
                pass
            finally:
                sys.stdout = old
            header, rows = table.parse(buf.getvalue(), "csv")
            if header and (len(header) != 1 + n or any("normals" in h for h in header)):
                out.append(("clim:table-columns", "%d scored inputs + climatology: the csv header is %r" % (n, header), rep))
            # the climatology file is called like the FIRST scored input (in another directory), the second one differently: the legend / the
            # table columns still name the scored inputs, in command-line order (after seed C14-i)
            if n >= 2:
                import shutil
                alt = []
                for k, src in enumerate(paths):
                    dk = os.path.join(wd, "run%d" % k)
                    os.makedirs(dk, exist_ok=True)
                    alt.append(os.path.join(dk, "raw.txt" if k == 0 else "kf%d.txt" % k))
                    shutil.copy(src, alt[-1])
                dk = os.path.join(wd, "climdir")
                os.makedirs(dk, exist_ok=True)
                altclim = os.path.join(dk, "raw.txt")
                shutil.copy(climp, altclim)
                want = [os.path.basename(a) for a in alt]
                with quiet():
                    data = verif.data.Data([verif.input.get_input(a) for a in alt], clim=verif.input.get_input(altclim), clim_type=o["climType"])
                    leg = [str(x) for x in data.get_legend()]
                if leg != want:
                    out.append(("clim:legend:same-name-as-input", "inputs %r + climatology climdir/raw.txt (%s): the legend is %r" % (want, o["climType"], leg), rep))
                sys.stdout = buf = io.StringIO()
                try:
                    verif.driver.run(["verif"] + alt + ["-c" if o["climType"] == "subtract" else "-C", altclim, "-m", "mae", "-x", "leadtime", "-type", "csv"])
                except SystemExit:
                    pass
                finally:
                    sys.stdout = old
                header2, rows2 = table.parse(buf.getvalue(), "csv")
                if header2 and header2[1:] != want:
                    out.append(("clim:table-columns:same-name-as-input", "inputs %r + climatology climdir/raw.txt: the csv header is %r" % (want, header2), rep))
                # ... and the numbers under those names are those of the run whose files have three different names
                if header2 and header and rows2 != rows:
                    out.append(("clim:table-columns:same-name-as-input", "inputs %r + climatology climdir/raw.txt: the rows %r differ from those of the same "
                                "files under other names %r" % (want, rows2[:3], rows[:3]), rep))
            # both options on one command line (not a documented combination): whatever the program makes of it -- the later one, the
            # earlier one, or an error -- the operation applied must be the one given WITH the file that is used
            other = os.path.join(d, "normals2.txt")
            c2 = dict(o["clim"])
            c2["fcst"] = [v if v == "nan" else ([v[0] + 2 * v[1], v[1]] if isinstance(v, list) else v + 2) for v in o["clim"]["fcst"]]
            mat.write_text(other, c2)

            def table_of(extra):
                sys.stdout = b = io.StringIO()
                try:
                    verif.driver.run(["verif"] + paths + extra + ["-m", "mae", "-x", "leadtime", "-type", "csv"])
                    return table.strip_warnings(b.getvalue())
                except SystemExit:
                    return "error exit"
                finally:
                    sys.stdout = old
            with quiet():
                both = table_of(["-C", climp, "-c", other])
                allowed = [table_of(["-c", other]), table_of(["-C", climp]), "error exit"]
            if both not in allowed:
                out.append(("clim:both-options", "`-C normals.txt -c normals2.txt` prints neither the table of `-c normals2.txt` nor that of `-C normals.txt`: %r" % both[:200], rep))
        except Exception as e:
            out.append((exc_site(e), "legend of %d inputs + climatology: %r" % (n, e), rep))
    return len(objs), out


def _legend(ctx, family, limit):
    import random
    from harness import tlc
    res = tlc.run("MC_Dataset", "MC_Dataset_" + family, tag=ctx.pid + "_leg_" + family, timeout_s=900)
    objs = [o for o in res.emitted if o.get("hasClim") and not o["err"]]
    objs = random.Random(ctx.seed + 3).sample(objs, min(limit, len(objs)))
    for n, divs in par.pmap(_legend_chunk, [objs[i:i + 5] for i in range(0, len(objs), 5)], chunk=1):
        ctx.evaluations += 2 * n
        for site, detail, rep in divs:
            ctx.diverge(site, rep, detail=detail)


def run(ctx):
    ctx.rule = ("case = (1-2 inputs with missing cells, climatology with its own coverage/order/missing cells/zeros, subtract|divide) "
                "x request menu; non-trivial = every case (a climatology is always present)")
    ctx.assumptions = ["observations of different files agree where both are present"]
    if ctx.tier == "quick":
        dscommon.run_family(ctx, "C14", fmt="text", limit=500, always_nontrivial=True)
        dscommon.run_family(ctx, "C14Two", fmt="text", limit=300, always_nontrivial=True)
        # the whole request menu on ONE Data object (whole-array requests before the slices): the climatology is removed exactly once
        dscommon.run_family(ctx, "C14", fmt="text", limit=150, fresh=False, always_nontrivial=True)
        dscommon.run_family(ctx, "C14Two", fmt="text", limit=100, fresh=False, always_nontrivial=True)
        dscommon.run_family(ctx, "C14Range", fmt="text", limit=200, always_nontrivial=True)
        # NetCDF files keep their own order: a climatology that lists exactly the common times / lead times / stations, in another order than
        # the scored files, is still matched by coordinates (after seed C14-j)
        dscommon.run_family(ctx, "C14", fmt="netcdf", limit=150, always_nontrivial=True,
                            select_fn=lambda o: o.get("hasClim") and (list(o["clim"]["times"]) != sorted(o["clim"]["times"]) or list(o["clim"]["locs"]) != sorted(o["clim"]["locs"])))
        dscommon.run_family(ctx, "C14Two", fmt="netcdf", limit=100, always_nontrivial=True, fresh=False,
                            select_fn=lambda o: o.get("hasClim") and list(o["clim"]["times"]) != sorted(o["clim"]["times"]))
        dscommon.run_family(ctx, "C14Range", fmt="text", limit=80, fresh=False, always_nontrivial=True)
        _legend(ctx, "C14Two", 40)
        _legend(ctx, "C14", 20)
    else:
        dscommon.run_family(ctx, "C14", fmt="text", always_nontrivial=True)
        dscommon.run_family(ctx, "C14Two", fmt="text", always_nontrivial=True)
        dscommon.run_family(ctx, "C14", fmt="netcdf", limit=800, always_nontrivial=True)
        dscommon.run_family(ctx, "C01Clim", fmt="text", always_nontrivial=True)
        dscommon.run_family(ctx, "C14", fmt="text", fresh=False, always_nontrivial=True)
        dscommon.run_family(ctx, "C14Two", fmt="text", fresh=False, always_nontrivial=True)
        dscommon.run_family(ctx, "C14Range", fmt="text", always_nontrivial=True)
        dscommon.run_family(ctx, "C14Range", fmt="text", fresh=False, always_nontrivial=True)
        _legend(ctx, "C14Two", 400)
        _legend(ctx, "C14", 200)
        ctx.exhaustive = True
    par.clean_workdirs()
