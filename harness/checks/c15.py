"""C15 Aggregators and -T pre-aggregation. Spec: Aggregators.tla (14 statistics + quantile levels as exact rationals /
Expr, order lemmas; trailing windows (g-h, g] by grid VALUE with window lemmas). TLC enumerates vectors, small arrays
along every dimension, and lead-time grids (increasing and permuted) x window lengths x aggregators; replayed into
verif.aggregator.get(name)(array, axis), verif.data.preaggregate_leadtime / preaggregate_time and Data(dim_agg_length=)."""
import math
import os

from harness import tlc, par, expr, materialize as mat
from harness.materialize import num
from harness.dsreplay import quiet, exc_site

RT32 = 2e-6


def _check_chunk(cases):
    import numpy as np
    import verif.aggregator
    import verif.data
    import verif.axis
    import verif.input
    n = 0
    divs = []
    for c in cases:
        def bad(site, detail, as_impl=False):
            divs.append((site, as_impl, detail, {"kind": "aggregator", "case": c}))
        try:
            with quiet(), np.errstate(all="ignore"):
                if c["kind"] == "vec":
                    v = np.array([num(x) for x in c["v"]], float)
                    for name, e in c["agg"].items():
                        got = verif.aggregator.get(name)(v.copy())
                        n += 1
                        if not expr.agrees(expr.ev(e), got):
                            bad("agg:" + name, "%s of %r: expected %r observed %r" % (name, c["v"], expr.ev(e), float(got)))
                    # the same array handed to one statistic after the other (verif.data hands out its cached arrays): each answer is still
                    # the statistic of the values that were passed
                    shared = v.copy()
                    order = [x for x in ("median", "iqr", "std") if x in c["agg"]] + [x for x in sorted(c["agg"]) if x not in ("median", "iqr", "std")]
                    for name in order:
                        got = verif.aggregator.get(name)(shared)
                        n += 1
                        if not expr.agrees(expr.ev(c["agg"][name]), got):
                            bad("agg:%s:after-other-statistics" % name, "%s of %r, computed from the array that median/iqr/... were computed from before: expected %r observed %r (array now %r)"
                                % (name, c["v"], expr.ev(c["agg"][name]), float(got), shared.tolist()))
                            break
                    for k, e in enumerate(c["quant"]):
                        q = num(c["qlevels"][k])
                        got = verif.aggregator.Quantile(q)(v.copy())
                        got2 = verif.aggregator.get(str(q))(v.copy())
                        n += 2
                        if not expr.agrees(expr.ev(e), got) or not expr.agrees(expr.ev(e), got2):
                            bad("agg:quantile", "quantile %r of %r: expected %r observed %r / %r" % (q, c["v"], expr.ev(e), float(got), float(got2)))
                elif c["kind"] == "arr":
                    shape = tuple(c["shape"])
                    a = np.array([num(x) for x in c["flat"]], float).reshape(shape)
                    shared = a.copy()
                    for ax in range(3):
                        for name in [x for x in ("median", "iqr") if x in c["along"][ax]] + [x for x in sorted(c["along"][ax]) if x in ("change", "mean", "max")]:
                            got = np.asarray(verif.aggregator.get(name)(shared, axis=ax), float).reshape(-1)
                            n += 1
                            want = [expr.ev(e) for e in c["along"][ax][name]]
                            if len(got) != len(want) or not all(expr.agrees(w, g) for w, g in zip(want, got)):
                                bad("agg-axis:%s:after-other-statistics" % name, "%s along axis %d of %r%r, computed from the array other statistics were computed from before: expected %r observed %r"
                                    % (name, ax, c["flat"], shape, want, got.tolist()))
                    for ax in range(3):
                        for name, es in c["along"][ax].items():
                            got = np.asarray(verif.aggregator.get(name)(a.copy(), axis=ax), float).reshape(-1)
                            n += 1
                            want = [expr.ev(e) for e in es]
                            if len(got) != len(want) or not all(expr.agrees(w, g) for w, g in zip(want, got)):
                                bad("agg-axis:" + name, "%s along axis %d of %r%r: expected %r observed %r" % (name, ax, c["flat"], shape, want, got.tolist()))
                else:
                    grid = np.array([num(x) for x in c["grid"]], float)
                    series = np.array([num(x) for x in c["series"]], float)
                    want = [expr.ev(e) for e in c["out"]]
                    agg = verif.aggregator.get(c["agg"])
                    h = num(c["h"])
                    site_sfx = "" if c["increasing"] else ":unsorted-grid"
                    # lead-time axis: array (time=1, leadtime=n, location=2)
                    arr = np.zeros((1, len(grid), 2), float)
                    arr[0, :, 0] = series
                    arr[0, :, 1] = series
                    got = verif.data.preaggregate_leadtime(arr, grid, agg, h)
                    n += 1
                    for col in range(2):
                        g = np.asarray(got, float)[0, :, col]
                        if not all(expr.agrees(w, x, rtol=RT32) for w, x in zip(want, g)):
                            bad("preaggregate_leadtime" + site_sfx, "-T %g -Tagg %s on lead times %r values %r: expected %r observed %r"
                                % (h, c["agg"], c["grid"], c["series"], want, g.tolist()))
                            break
                    # time axis: grid points are hours -> unix seconds
                    arr2 = np.zeros((len(grid), 1, 1), float)
                    arr2[:, 0, 0] = series
                    got2 = np.asarray(verif.data.preaggregate_time(arr2, 1325376000 + grid * 3600, agg, h), float)[:, 0, 0]
                    n += 1
                    if not all(expr.agrees(w, x, rtol=RT32) for w, x in zip(want, got2)):
                        bad("preaggregate_time" + site_sfx, "-T %g -Tx time -Tagg %s on times(h) %r values %r: expected %r observed %r"
                            % (h, c["agg"], c["grid"], c["series"], want, got2.tolist()))
        except SystemExit:
            bad("agg:error-exit", "case ended in an error exit")
        except Exception as e:
            bad(exc_site(e), "%r on %r" % (e, {k: c[k] for k in c if k not in ("along", "agg", "quant", "out")}))
    return n, divs


def _check_data_chunk(cases):
    """the same windows end to end: a text file, Data(dim_agg_length=h, ...).get_scores -> obs AND fcst pre-aggregated alike"""
    import numpy as np
    import verif.aggregator
    import verif.data
    import verif.axis
    import verif.field
    import verif.input
    n = 0
    divs = []
    wd = par.workdir()
    for c in cases:
        try:
            grid = [num(x) for x in c["grid"]]
            series = [num(x) for x in c["series"]]
            inp = {"times": [1325376000], "leads": grid, "locs": [1], "lat": [50], "lon": [10], "elev": [0], "hasObs": True,
                   "obs": series, "fcst": [2 * s for s in series]}
            path = os.path.join(wd, "agg.txt")
            mat.write_text(path, inp)
            with quiet(), np.errstate(all="ignore"):
                data = verif.data.Data([verif.input.get_input(path)], dim_agg_length=num(c["h"]),
                                       dim_agg_axis=verif.axis.Leadtime(), dim_agg_method=verif.aggregator.get(c["agg"]))
                obs, fcst = data.get_scores([verif.field.Obs(), verif.field.Fcst()], 0, verif.axis.All(), None)
            order = np.argsort(grid)            # Data lists lead times in ascending order
            want = [expr.ev(c["out"][k]) for k in order]
            n += 1
            gobs = np.asarray(obs, float).reshape(-1)
            gf = np.asarray(fcst, float).reshape(-1)
            lin = c["agg"] in ("mean", "sum", "min", "max", "median", "change")
            okf = all(expr.agrees(("undef" if w == "undef" else (2 * w if lin else w)), x, rtol=RT32) for w, x in zip(want, gf)) if c["agg"] != "count" else True
            if not all(expr.agrees(w, x, rtol=RT32) for w, x in zip(want, gobs)) or not okf:
                divs.append(("Data:dim_agg", False, "-T %s -Tagg %s lead times %r: expected obs %r observed obs %r fcst %r"
                             % (c["h"], c["agg"], c["grid"], want, gobs.tolist(), gf.tolist()), {"kind": "aggregator", "case": c}))
        except SystemExit:
            divs.append(("Data:dim_agg:error-exit", False, "error exit on %r" % (c["grid"],), {"kind": "aggregator", "case": c}))
        except Exception as e:
            divs.append((exc_site(e), False, "%r on %r" % (e, c["grid"]), {"kind": "aggregator", "case": c}))
    return n, divs


def _run(ctx, kind, limit=None):
    res = tlc.run("MC_Aggregators", "MC_Aggregators_" + kind, tag=ctx.pid + "_" + kind, timeout_s=900)
    ctx.add_tlc("MC_Aggregators/" + kind, res, {"Kind": kind})
    cases = res.emitted
    if limit and len(cases) > limit:
        import random
        cases = random.Random(ctx.seed).sample(cases, limit)
    chunks = [cases[i:i + 60] for i in range(0, len(cases), 60)]
    results = par.pmap(_check_chunk, chunks, chunk=1)
    if kind == "win":
        inc = [c for c in cases if c["increasing"]]
        results += par.pmap(_check_data_chunk, [inc[i:i + 40] for i in range(0, len(inc), 40)], chunk=1)
    for n, divs in results:
        ctx.evaluations += n
        for site, known, detail, rep in divs:
            ctx.diverge(site, rep, as_implemented=known, detail=detail)
    ctx.traces += len(cases)
    for c in cases:
        if kind == "vec" and ("nan" in c["v"] or len(set(map(str, c["v"]))) < len(c["v"])):
            ctx.nontriv(str(c["v"]))
        elif kind == "arr":
            ctx.nontriv(str((c["shape"], c["flat"])))
        elif kind == "win" and len(c["grid"]) >= 2:
            ctx.nontriv(str((c["grid"], c["h"], c["agg"])))
    if cases:
        c = cases[len(cases) // 2]
        ctx.sample({k: c[k] for k in c if k not in ("along", "quant")} if kind != "arr" else {"shape": c["shape"], "flat": c["flat"], "mean_along_axis0": c["along"][0]["mean"]})


def _composed(ctx, formats=("text",)):
    """-T inside Dataset.tla (Dataset!PreAggAt): inputs with different, unsorted lead-time grids, missing cells, an input without
    observations, -o / -t selections applied after the windows -- the whole request menu of the dataset checks"""
    from harness.checks import dscommon
    for fmt in formats:
        dscommon.run_family(ctx, "C15T", fmt=fmt, always_nontrivial=True)
        dscommon.run_family(ctx, "C15T", fmt=fmt, fresh=False, limit=40, always_nontrivial=True)


def _ens_chunk(objs):
    """family C15Ens: -T applies to every ensemble member; the probability of a threshold the files do not store is the fraction of the
    pre-aggregated members at or below it, for each input from ITS OWN members (the two files share their base name on purpose)"""
    import os
    import numpy as np
    import verif.input
    import verif.field
    import verif.axis
    from harness import dsreplay, materialize as mat
    from harness.dsreplay import quiet, exc_site
    out = []
    n = 0
    wd = par.workdir()
    for o in objs:
        paths = []
        for k, inp in enumerate(o["inputs"]):
            d = os.path.join(wd, "exp%d" % k)
            os.makedirs(d, exist_ok=True)
            p = os.path.join(d, "ens.txt")
            mat.write_text(p, dsreplay.with_extra(inp))
            paths.append(p)
        rep = {"kind": "ens-preagg", "dataset": {k: o[k] for k in o if k not in ("req", "ensprob")}}
        try:
            with quiet():
                inputs = [verif.input.get_input(p) for p in paths]
                data = dsreplay.make_data(o, inputs, None)
                for ti, thr in enumerate(o["ensthr"]):
                    for j in range(len(inputs)):
                        got = np.asarray(data.get_scores(verif.field.Threshold(float(thr)), j, verif.axis.All(), None), float).reshape(-1)
                        want = np.array([mat.num(v) for v in o["ensprob"][j][ti]], float)
                        n += 1
                        if got.shape != want.shape or not np.allclose(got, want, rtol=2e-6, atol=1e-7, equal_nan=True):
                            out.append(("ens:preagg-probability", "-T %r: P(X <= %s) of input %d from its pre-aggregated members: expected %r observed %r"
                                        % (o["opts"]["T"], thr, j + 1, want.tolist(), got.tolist()), rep))
        except SystemExit:
            out.append(("ens:error-exit", "-T %r on ensemble inputs ended in an error exit" % (o["opts"]["T"],), rep))
        except Exception as e:
            out.append((exc_site(e), "-T %r on ensemble inputs: %r" % (o["opts"]["T"], e), rep))
    return n, out


def _ens(ctx):
    res = tlc.run("MC_Dataset", "MC_Dataset_C15Ens", tag=ctx.pid + "_ens", timeout_s=900)
    ctx.add_tlc("MC_Dataset/C15Ens", res, {"Family": "C15Ens"})
    for n, divs in par.pmap(_ens_chunk, [[o] for o in res.emitted], chunk=1):
        ctx.evaluations += n
        ctx.traces += 1
        for site, detail, rep in divs:
            ctx.diverge(site, rep, detail=detail)


def run(ctx):
    ctx.rule = ("case = vector x 14 aggregators + 5 quantile levels | 3-d array x dimension x aggregator | (lead-time grid in file order, "
                "window length, aggregator); non-trivial = ties or missing values | every array | grid with >= 2 points")
    ctx.assumptions = ["pre-aggregated values are float32 in the code: 2e-6 relative tolerance there"]
    if ctx.tier == "quick":
        _run(ctx, "vec")
        _run(ctx, "arr", limit=1200)
        _run(ctx, "win", limit=2500)
        _composed(ctx, formats=("text", "netcdf"))
        _ens(ctx)
    else:
        _run(ctx, "vec")
        _run(ctx, "arr")
        _run(ctx, "win")
        _composed(ctx, formats=("text", "netcdf"))
        _ens(ctx)
        ctx.exhaustive = True
    par.clean_workdirs()


def replay(ctx, rep):
    n, divs = _check_chunk([rep["case"]])
    for site, known, detail, r in divs:
        ctx.diverge(site, r, detail=detail)
    print("replay: %d divergence(s)" % len(divs))
    return 1 if divs else 0
