----------------------------- MODULE Aggregators -----------------------------
(* C15: the -agg / -Tagg statistics of a sequence of values, and the trailing *)
(* windows of -T.  Values are exact rationals; std is an Expr (square root).  *)
(* Any missing value makes every statistic but `count` missing.               *)
EXTENDS Expr

AggNames == {"mean", "median", "min", "max", "std", "variance", "iqr", "range", "count", "sum",
             "meanabs", "absmean", "change", "abschange"}

HasNaN(s) == \E i \in DOMAIN s : IsNaN(s[i])
RECURSIVE MinSeq(_)
MinSeq(s) == IF Len(s) = 1 THEN s[1] ELSE MinR(s[1], MinSeq(Tail(s)))
RECURSIVE MaxSeq(_)
MaxSeq(s) == IF Len(s) = 1 THEN s[1] ELSE MaxR(s[1], MaxSeq(Tail(s)))
VarSeq(s) == LET m == MeanSeq(s) IN MeanSeq([i \in DOMAIN s |-> Sq(Sub(s[i], m))])     \* population variance
FloorR(x) == x[1] \div x[2]
\* percentile by linear interpolation between the order statistics at position (n-1)p
Percentile(s, p) ==
  LET t == SortR(s)  n == Len(s)
      pos == Mul(R(n - 1), p)
      lo == FloorR(pos)
      fr == Sub(pos, R(lo))
  IN  IF lo + 2 <= n THEN Add(t[lo + 1], Mul(fr, Sub(t[lo + 2], t[lo + 1]))) ELSE t[lo + 1]
Median(s) == Percentile(s, Frac(1, 2))

\* name \in AggNames, or "quantile" with level q; s non-empty
Agg(name, q, s) ==
  IF name = "count" THEN Q(R(Cardinality({i \in DOMAIN s : ~IsNaN(s[i])})))
  ELSE IF s = <<>> THEN NaNE
  ELSE IF name = "change" THEN Q(Sub(s[Len(s)], s[1]))                 \* last minus first: only the two ends matter
  ELSE IF name = "abschange" THEN Q(LET d == Sub(s[Len(s)], s[1]) IN IF IsNaN(d) THEN NaN ELSE AbsR(d))
  ELSE IF HasNaN(s) THEN NaNE
  ELSE CASE name = "mean"      -> Q(MeanSeq(s))
         [] name = "median"    -> Q(Median(s))
         [] name = "min"       -> Q(MinSeq(s))
         [] name = "max"       -> Q(MaxSeq(s))
         [] name = "std"       -> SqrtE(Q(VarSeq(s)))
         [] name = "variance"  -> Q(VarSeq(s))
         [] name = "iqr"       -> Q(Sub(Percentile(s, Frac(3, 4)), Percentile(s, Frac(1, 4))))
         [] name = "range"     -> Q(Sub(MaxSeq(s), MinSeq(s)))
         [] name = "sum"       -> Q(SumSeq(s))
         [] name = "meanabs"   -> Q(MeanSeq([i \in DOMAIN s |-> AbsR(s[i])]))
         [] name = "absmean"   -> Q(AbsR(MeanSeq(s)))
         [] name = "quantile"  -> Q(Percentile(s, q))
\* rational-valued aggregates (everything but std), for use inside other formulas
AggR(name, q, s) == LET e == Agg(name, q, s) IN IF IsQ(e) THEN e.v ELSE NaN
AggIsZero(name, q, s) == IF name = "std" THEN (~HasNaN(s) /\ s # <<>> /\ VarSeq(s) = Zero) ELSE AggR(name, q, s) = Zero

\* no value, no statistic: whichever statistic accumulates a slice without a valid case, the result is undefined (only a count is 0)
EmptyIsUndefined == \A name \in (AggNames \cup {"quantile"}) \ {"count"} : Agg(name, Frac(9, 10), <<>>) = NaNE /\ Agg(name, Frac(9, 10), <<NaN>>) = NaNE
\* ---- order relations (lemmas checked by TLC) ----
OrderLemmas(s) ==
  (s # <<>> /\ ~HasNaN(s)) =>
     /\ Le(MinSeq(s), Median(s)) /\ Le(Median(s), MaxSeq(s))
     /\ Le(MinSeq(s), MeanSeq(s)) /\ Le(MeanSeq(s), MaxSeq(s))
     /\ AggR("range", Zero, s) = Sub(MaxSeq(s), MinSeq(s)) /\ Ge(AggR("range", Zero, s), Zero)
     /\ Ge(AggR("iqr", Zero, s), Zero) /\ Le(AggR("iqr", Zero, s), AggR("range", Zero, s))
     /\ Ge(VarSeq(s), Zero)
     /\ Percentile(s, Zero) = MinSeq(s) /\ Percentile(s, One) = MaxSeq(s)
     /\ Le(AggR("absmean", Zero, s), AggR("meanabs", Zero, s))
     /\ AggR("abschange", Zero, s) = AbsR(AggR("change", Zero, s))

---------------------------------------------------------------------------
(* -T h: every value at grid point g (a lead time, or an initialisation time with -Tx time) is replaced by the       *)
(* aggregate of the same series over the trailing window (g - h, g], taken in increasing order of the grid           *)
(* value -- whatever order the file lists its grid in (C02).                                                          *)
Window(grid, k, h) == {j \in DOMAIN grid : Gt(grid[j], Sub(grid[k], h)) /\ Le(grid[j], grid[k])}
\* window positions ordered by grid value (ties cannot occur: a file's grid has distinct entries)
RECURSIVE OrderByGrid(_, _)
OrderByGrid(grid, S) == IF S = {} THEN <<>>
                        ELSE LET m == CHOOSE j \in S : \A i \in S : Le(grid[j], grid[i]) IN <<m>> \o OrderByGrid(grid, S \ {m})
WindowSeq(grid, k, h) == OrderByGrid(grid, Window(grid, k, h))
PreAgg(series, grid, h, name, q) ==
  [k \in DOMAIN series |-> LET w == WindowSeq(grid, k, h) IN Agg(name, q, [m \in DOMAIN w |-> series[w[m]]])]
IncreasingGrid(grid) == \A k \in 1..(Len(grid) - 1) : Lt(grid[k], grid[k + 1])
WindowLemmas(grid, h) ==
  \A k \in DOMAIN grid :
     /\ (Gt(h, Zero) => k \in Window(grid, k, h))                                    \* a point is in its own window
     /\ (IncreasingGrid(grid) => \A j \in Window(grid, k, h) : j <= k /\ \A m \in j..k : m \in Window(grid, k, h))   \* contiguous, trailing
     /\ (IncreasingGrid(grid) /\ Gt(h, Sub(grid[k], grid[1])) => Window(grid, k, h) = 1..k)                  \* long window = whole prefix

\* aggregation of an array along one of its dimensions (shape <<n1, n2>> or <<n1, n2, n3>>, row-major flat values)
FlatIdx3(shape, i, j, k) == ((i - 1) * shape[2] + (j - 1)) * shape[3] + k
Along3(shape, flat, ax, name, q) ==
  LET line(a, b) == IF ax = 1 THEN [m \in 1..shape[1] |-> flat[FlatIdx3(shape, m, a, b)]]
                    ELSE IF ax = 2 THEN [m \in 1..shape[2] |-> flat[FlatIdx3(shape, a, m, b)]]
                    ELSE [m \in 1..shape[3] |-> flat[FlatIdx3(shape, a, b, m)]]
      d1 == IF ax = 1 THEN shape[2] ELSE shape[1]
      d2 == IF ax = 3 THEN shape[2] ELSE shape[3]
  IN  [m \in 1..(d1 * d2) |-> Agg(name, q, line(((m - 1) \div d2) + 1, ((m - 1) % d2) + 1))]
=============================================================================
