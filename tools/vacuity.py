#!/usr/bin/env python3
"""Vacuity audit of the lemmas TLC checks: for every conditional lemma whose antecedent could silently never hold in the configured
universe, a WITNESS (the negated antecedent, W_* in the MC modules) is handed to TLC as an invariant of the SAME configuration and must
be reported violated -- i.e. some enumerated case satisfies the antecedent, so the lemma was exercised.  Exit 1 if a witness holds."""
import os, re, shutil, sys
sys.path.insert(0, os.path.dirname(os.path.dirname(os.path.abspath(__file__))))
from harness import tlc

WITNESSES = [
    # module, base cfg (the quick-tier configuration of the check), witness, lemma it guards
    ("MC_Prob", "MC_Prob_brier_small", "W_OneValuePerBin", "BrierDecomposition: BS = REL - RES + UNC when every bin holds one value (C08)"),
    ("MC_Prob", "MC_Prob_brier_small", "W_SeveralPerBin", "the decomposition lemma is restricted for a reason: bins with several values occur (C08)"),
    ("MC_Prob", "MC_Prob_event_small", "W_EventBothMissing", "two-sided events drop cases that one-sided ones keep: one of two cumulative probabilities missing (C08)"),
    ("MC_Events", "MC_Events", "W_Partition", "PartitionWithinEq: a value inside (first, last] of three increasing thresholds (C07)"),
    ("MC_Events", "MC_Events", "W_OnThreshold", "a value exactly on a threshold (C07)"),
    ("MC_Events", "MC_Events", "W_Unordered", "threshold lists that are not in increasing order (C07, C12)"),
    ("MC_Diagrams", "MC_Diagrams_C12", "W_HistBins", "EveryValueInOneBin: within= histogram with values inside the covered range (C16)"),
    ("MC_Dataset", "MC_Dataset_C15T", "W_SameTGrid", "SameObs under -T for inputs with their own observations on equal grids (C15, C01)"),
    ("MC_Dataset", "MC_Dataset_C15T", "W_DifferentTGrid", "inputs with different -T grids are part of the universe (C15)"),
    ("MC_Dataset", "MC_Dataset_C14", "W_Shift", "ShiftEquiv: -c X equals X as an extra input (C14)"),
    ("MC_Dataset", "MC_Dataset_C01ClimNoObs", "W_ObsBorrowed", "an input without observations borrows them (C01)"),
    ("MC_Dataset", "MC_Dataset_C02Order", "W_UnsortedTimes", "an input lists its times out of order (C02)"),
    ("MC_Dataset", "MC_Dataset_C02Order", "W_DifferentOrders", "two inputs list the same locations in different orders (C02)"),
    ("MC_Dataset", "MC_Dataset_C02Close", "W_RelativelyClose", "verified times one hour apart: relatively close as numbers (C02)"),
    ("MC_Dataset", "MC_Dataset_C03K1", "W_EmptySelection", "a selection that leaves nothing (C03)"),
    ("MC_Dataset", "MC_Dataset_C03K1", "W_StrictSubset", "a selection that leaves a strict, non-empty subset (C03)"),
    ("MC_Dataset", "MC_Dataset_C03K1", "W_ObsRangeMasks", "-obsrange discards a case of the SECOND input (C03)"),
    ("MC_Dataset", "MC_Dataset_C01Extra", "W_ExtraFieldMissing", "another field is missing where the observation is present (C01)"),
    ("MC_Dataset", "MC_Dataset_C15Ens", "W_EnsembleUnderT", "ensemble members under -T on two inputs (C15)"),
    ("MC_Dataset", "MC_Dataset_C11Sel", "W_SelectionRemovesTimes", "a -d / -tod selection that removes some, not all, times (C11)"),
    ("MC_Dataset", "MC_Dataset_C11Two", "W_CommonRunAtDifferentPositions", "a run common to two files sits at different positions in them (C11)"),
    ("MC_TextFormat", "MC_TextFormat_quick", "W_NoIdCloseSites", "a file without a location column whose two sites lie a hundred-thousandth of a degree apart (C09)"),
    ("MC_TextFormat", "MC_TextFormat_quick", "W_NoLeadingDigit", "column names whose number has no leading digit (C09)"),
    ("MC_TextFormat", "MC_TextFormat_quick", "W_MixedOrderThresholds", "threshold columns in an order that is not ascending (C09, C10)"),
    ("MC_Aggregators", "MC_Aggregators_win", "W_IncreasingGrid", "WindowLemmas: contiguous trailing windows on increasing grids (C15)"),
    ("MC_Aggregators", "MC_Aggregators_win", "W_PermutedGrid", "grids listed in permuted file order (C15, C02)"),
    ("MC_Aggregators", "MC_Aggregators_vec", "W_NoMissing", "OrderLemmas on vectors without missing values (C15)"),
    ("MC_Contingency", "MC_Contingency_quick", "W_PerfectTable", "PerfectTable: tables without misses and false alarms (C06)"),
    ("MC_Scripts", "MC_Scripts_exp", "W_ExpandPlaces", "ExpandSound: some observation is placed (C20)"),
    ("MC_Scripts", "MC_Scripts_exp", "W_ExpandHalfHour", "ExpandSound: an observation is placed at a fractional lead time (C20)"),
    ("MC_Scripts", "MC_Scripts_win", "W_WindowEndsEarly", "WindowIsSpell: a dry spell that ends before the series does (C20)"),
    ("MC_Scripts", "MC_Scripts_acc", "W_AccWindow", "AccumulateIsPreAggSum on accepted option sets (C20)"),
]


def main():
    bad = 0
    for module, cfg, wit, what in WITNESSES:
        src = os.path.join(tlc.SPEC, "mc", cfg + ".cfg")
        text = open(src).read()
        text = re.sub(r"^(INVARIANT|PROPERTY) .*\n", "", text, flags=re.M)
        text = text.replace("CHECK_DEADLOCK", "INVARIANT %s\nCHECK_DEADLOCK" % wit)
        tmp = cfg + "__" + wit
        dst = os.path.join(tlc.SPEC, "mc", tmp + ".cfg")
        open(dst, "w").write(text)
        try:
            res = tlc.run_once(module, tmp, tag="vacuity_" + wit, timeout_s=900, allow_violation=True)
            ok = res.violated == wit
        except tlc.TlcFailure as e:
            ok = False
            print("  machinery failure: %s" % str(e)[:300])
        finally:
            os.remove(dst)
        print("%-9s %-18s in %-26s %s" % ("witness" if ok else "VACUOUS", wit, cfg, what))
        bad += 0 if ok else 1
    print("%d witnesses, %d vacuous" % (len(WITNESSES), bad))
    return 1 if bad else 0


if __name__ == "__main__":
    sys.exit(main())
