------------------------------ MODULE Scoring ------------------------------
(* End-to-end meaning of `verif files -m <metric> -x <axis> ...`: the score of *)
(* input i on slice k of an axis is the metric's definition (Metrics.tla)      *)
(* applied to the contributing cases of that slice (Dataset.tla).  Because the *)
(* contributing cases exclude every missing value, the result never depends on *)
(* how a missing value was encoded (C04), and a slice without contributing     *)
(* cases has no defined score (NaN).                                           *)
EXTENDS Dataset, Metrics

SliceReq(fields, inp, axis, idx) == [fields |-> fields, inp |-> inp, axis |-> axis, idx |-> idx]
\* the valid (observation, forecast) pairs of a slice, in row-major order of the verified grid
PairsOf(X, inp, axis, idx) ==
  LET r == SliceReq(<<"obs", "fcst">>, inp, axis, idx)
      ps == CasePositions(X, r)
  IN  [m \in DOMAIN ps |-> <<X.adj[inp, "obs", X.cells[ps[m]]], X.adj[inp, "fcst", X.cells[ps[m]]]>>]
\* the values of one field alone (metrics `obs` and `fcst` do not require the other field)
ValuesOf(X, inp, field, axis, idx) ==
  LET r == SliceReq(<<field>>, inp, axis, idx)
      ps == CasePositions(X, r)
  IN  [m \in DOMAIN ps |-> X.adj[inp, field, X.cells[ps[m]]]]

\* cfg = [agg, q, bt, t, u] : aggregator (for the metrics that take one), bin type and thresholds (categorical metrics)
Score(X, m, inp, axis, idx, cfg) ==
  IF m \in {"obs", "fcst"}
  THEN (LET v == ValuesOf(X, inp, m, axis, idx) IN IF v = <<>> THEN Undef ELSE Agg(cfg.agg, cfg.q, v))
  ELSE IF m \in DetMetrics
  THEN Det(m, PairsOf(X, inp, axis, idx), IF m \in MetricsWithAgg THEN cfg.agg ELSE "mean", cfg.q)
  ELSE Cat(m, Table(PairsOf(X, inp, axis, idx), cfg.bt, cfg.t, cfg.u))
\* the score matrix of a command: one row per slice, one column per input
ScoreMatrix(X, m, axis, cfg) == [k \in 1..NumSlices(X, axis) |-> [i \in 1..X.n |-> Score(X, m, i, axis, k, cfg)]]
DefaultCfg == [agg |-> "mean", q |-> Zero, bt |-> "above", t |-> R(2), u |-> R(3)]

\* C04: deleting the missing cases changes nothing -- by construction (scores are functions of the contributing cases);
\* stated as a lemma on the case counts: the pairs of a slice are exactly the cells where both fields are finite in all inputs
PairsAreValid(X, inp, axis, idx) == \A k \in DOMAIN PairsOf(X, inp, axis, idx) :
                                       IsFinite(PairsOf(X, inp, axis, idx)[k][1]) /\ IsFinite(PairsOf(X, inp, axis, idx)[k][2])
\* C11: slice counts add up to the pooled count; the count-weighted mean of slice means equals the pooled mean
CountsAddUp(X, inp, axis) ==
  SumInts([k \in 1..NumSlices(X, axis) |-> Len(PairsOf(X, inp, axis, k))]) = Len(PairsOf(X, inp, "no", 1))
MeanDecomposes(X, inp, axis) ==
  LET pooled == PairsOf(X, inp, "no", 1)
      part(k) == PairsOf(X, inp, axis, k)
      wsum == SumSeq([k \in 1..NumSlices(X, axis) |-> IF part(k) = <<>> THEN Zero ELSE Mul(R(Len(part(k))), MeanSeq([m \in DOMAIN part(k) |-> AbsR(Sub(part(k)[m][1], part(k)[m][2]))]))])
  IN  pooled = <<>> \/ Div(wsum, R(Len(pooled))) = MeanSeq([m \in DOMAIN pooled |-> AbsR(Sub(pooled[m][1], pooled[m][2]))])
=============================================================================
