----------------------------- MODULE MC_Scoring -----------------------------
(* Datasets (with missing cells, whole missing slices, whole missing inputs)  *)
(* x every deterministic and categorical metric x axes: the expected score    *)
(* matrix of `verif A B -m <metric> -x <axis>` from Scoring.tla, emitted with *)
(* the dataset for replay through real files (any missing-value encoding).   *)
EXTENDS Scoring, DatasetGen, KnownFindings
VARIABLES gen, phase
vars == <<gen, phase>>

Ds == DsOfSmall(gen)
Op == gen.opt
Axes == <<"no", "time", "leadtime", "location">>
\* (with a dividing climatology the values are quarter-integers; the heavier formulas would overflow TLC's 32-bit integers)
AllMetrics == IF Family = "C04Clim" THEN {"mae", "bias", "rmse", "ef", "ets", "hit", "far", "baserate", "pc", "n", "a", "obs", "fcst"}
              ELSE DetMetrics \cup CatMetrics \cup {"obs", "fcst"}
Usable(x) == ~EmptySelection(DsOfSmall(x), x.opt) /\ SomeObs(DsOfSmall(x))

Emit ==
  LET X == Context(Ds, Op) IN
  PrintT(ToJson([fam |-> Family,
                 inputs |-> [j \in DOMAIN Ds.inputs |-> InputJson(Ds.inputs[j])], hasClim |-> Ds.hasClim, clim |-> InputJson(Ds.clim),
                 climType |-> Ds.climType, opts |-> OptJson(Op),
                 times |-> X.T, leads |-> X.L, locs |-> X.S,
                 cfg |-> [agg |-> DefaultCfg.agg, bt |-> DefaultCfg.bt, t |-> J(DefaultCfg.t), u |-> J(DefaultCfg.u)],
                 scores |-> [m \in AllMetrics |-> [a \in DOMAIN Axes |-> ScoreMatrix(X, m, Axes[a], DefaultCfg)]],
                 \* other aggregators than the mean over the same contributing cases: a slice without any valid case has no sum either
                 aggscores |-> [g \in {"sum", "max"} |-> [m \in {"obs", "fcst", "mae"} |-> [a \in DOMAIN Axes |->
                                  ScoreMatrix(X, m, Axes[a], [DefaultCfg EXCEPT !.agg = g])]]],
                 \* the two metrics with a recorded C05 finding: what the code computes instead (KnownFindings.tla), so that the
                 \* checks of OTHER properties built on this module can still hold them to "same cases, missing never counted"
                 impl |-> [m \in {"alphaindex", "leps"} \cap AllMetrics |-> [a \in DOMAIN Axes |-> [k \in 1..NumSlices(X, Axes[a]) |-> [i \in 1..X.n |->
                            IF m = "leps" THEN Leps_AsImplemented(PairsOf(X, i, Axes[a], k)) ELSE Alphaindex_AsImplemented(PairsOf(X, i, Axes[a], k))]]]],
                 counts |-> [a \in DOMAIN Axes |-> [k \in 1..NumSlices(X, Axes[a]) |-> [i \in 1..X.n |-> Len(PairsOf(X, i, Axes[a], k))]]]]))
Init == gen \in {x \in Universe(0) : Usable(x)} /\ phase = "dataset"
Evaluate == phase = "dataset" /\ phase' = "emitted" /\ gen' = gen /\ Emit
Next == Evaluate
Spec == Init /\ [][Next]_vars

InvPairsValid == LET X == Context(Ds, Op) IN \A a \in DOMAIN Axes : \A k \in 1..NumSlices(X, Axes[a]) : \A i \in 1..X.n : PairsAreValid(X, i, Axes[a], k)
InvCountsAddUp == LET X == Context(Ds, Op) IN \A a \in DOMAIN Axes : \A i \in 1..X.n : CountsAddUp(X, i, Axes[a])
InvMeanDecomposes == LET X == Context(Ds, Op) IN \A a \in DOMAIN Axes : \A i \in 1..X.n : MeanDecomposes(X, i, Axes[a])
\* C01 on scores: all inputs are scored on the same number of cases
InvSameCounts == LET X == Context(Ds, Op) IN \A a \in DOMAIN Axes : \A k \in 1..NumSlices(X, Axes[a]) : \A i \in 1..X.n :
                    Len(PairsOf(X, i, Axes[a], k)) = Len(PairsOf(X, 1, Axes[a], k))
=============================================================================
