SPECIFICATION Spec
CONSTANTS Kind = "vec"
          K = 1
          Family = "none"
INVARIANT InvVector
INVARIANT InvOrderIndependent
CHECK_DEADLOCK FALSE
