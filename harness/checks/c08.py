"""C08 Probabilistic scores and event probability. Spec: Metrics.tla (Prob: Brier family with 10 bins, ign0, spherical,
marginal ratio, threshold; EventPE through Events!ProbOfEvent; quantile score / coverage / spread / spread-skill; ensemble
event probability and quantile envelope; PIT histogram statistics) with the decomposition / complement / range lemmas
checked by TLC. Conformance: Brier family through compute_from_obs_fcst; everything else END TO END through generated
text files (p<t>, q<l>, e<k>, pit columns), verif.data.Data and Metric.compute_single."""
import math
import os

from harness import tlc, par, expr, materialize as mat
from harness.materialize import num
from harness.dsreplay import quiet, exc_site


def _file_input(cases, cols):
    """cases: list of rows (abstract values) ; cols: names -> column index. One location per case."""
    n = len(cases)
    inp = {"times": [1325376000], "leads": [0], "locs": list(range(1, n + 1)), "lat": [50 + k for k in range(n)],
           "lon": [10] * n, "elev": [0] * n, "hasObs": "obs" in cols, "hasFcst": "fcst" in cols}
    for name, idx in cols.items():
        if name in ("obs", "fcst", "pit"):
            inp[name] = [row[idx] for row in cases]
    return inp


def _check_chunk(cases):
    import numpy as np
    import verif.metric
    import verif.util
    import verif.data
    import verif.input
    import verif.axis
    import verif.field
    import verif.interval
    n = 0
    divs = []
    wd = par.workdir()
    path = os.path.join(wd, "prob.txt")
    ncpath = os.path.join(wd, "prob.nc")
    No = verif.axis.No()

    for ci, c in enumerate(cases):
        # every other case goes through a NetCDF file whose threshold / quantile coordinate is stored in DESCENDING order (the columns of
        # cdf / x follow the coordinate variable, whatever its order)
        reverse_nc = ci % 2 == 1
        def bad(site, detail):
            divs.append((site, detail, {"kind": "prob", "case": {k: c[k] for k in c if k not in ("per",)}}))

        def cmp(site, label, e, got, rtol=1e-9):
            nonlocal n
            n += 1
            want = expr.ev(e) if isinstance(e, dict) else e
            g = float(np.ma.filled(got, np.nan)) if np.ma.is_masked(got) else float(got)
            if not expr.agrees(want, g, rtol=(max(rtol, 2e-6) if reverse_nc else rtol), atol=1e-10):
                bad(site, "%s: expected %r observed %r" % (label, want, g))
        try:
            with quiet(), np.errstate(all="ignore"):
                if c["kind"] == "brier":
                    p = np.array([num(x) for x in c["p"]], float)
                    e = np.array([num(x) for x in c["e"]], float)
                    if len(p) == 0:
                        continue
                    for name, ex in c["scores"].items():
                        got = verif.metric.get(name).compute_from_obs_fcst(e.copy(), p.copy())
                        cmp("prob:" + name, "%s on p=%r outcome=%r" % (name, c["p"], c["e"]), ex, got)
                elif c["kind"] == "event":
                    inp = _file_input(c["cases"], {"obs": 0})
                    inp["thresholds"] = [1, 2]
                    inp["cdf"] = [v for row in c["cases"] for v in (row[1], row[2])]
                    src = path
                    if reverse_nc:
                        inp["thresholds"] = [2, 1]
                        inp["cdf"] = [v for row in c["cases"] for v in (row[2], row[1])]
                        if os.path.exists(ncpath):
                            os.remove(ncpath)
                        mat.write_netcdf(ncpath, inp)
                        src = ncpath
                    else:
                        mat.write_text(path, inp)
                    for bt, per in c["per"].items():
                        data = verif.data.Data([verif.input.get_input(src)])
                        iv = verif.util.get_intervals(bt, np.array([1.0, 2.0]))[0]
                        # all scores twice on the SAME Data object: a score that rewrites what the dataset handed out shows in the second pass
                        for again in ("", " (second evaluation on the same Data object)"):
                            for name, ex in per["scores"].items():
                                got = verif.metric.get(name).compute_single(data, 0, No, 0, iv)
                                cmp("prob:" + name, "%s -b %s -r 1,2 on cases(obs,cdf1,cdf2)=%r%s" % (name, bt, c["cases"], again), ex, got)
                elif c["kind"] == "quant":
                    inp = _file_input(c["cases"], {"obs": 0, "fcst": 1})
                    lo, hi = [mat.num(x) for x in c["levels"]]
                    inp["quantiles"] = [lo, hi]
                    inp["x"] = [v for row in c["cases"] for v in (row[2], row[3])]
                    if reverse_nc:
                        inp["quantiles"] = [hi, lo]
                        inp["x"] = [v for row in c["cases"] for v in (row[3], row[2])]
                        if os.path.exists(ncpath):
                            os.remove(ncpath)
                        mat.write_netcdf(ncpath, inp)
                        data = verif.data.Data([verif.input.get_input(ncpath)])
                    else:
                        mat.write_text(path, inp)
                        data = verif.data.Data([verif.input.get_input(path)])
                    I = verif.interval.Interval
                    lab = "cases(obs,fcst,x%g,x%g)=%r" % (lo, hi, c["cases"])
                    cmp("prob:quantilescore", "quantilescore %g %s" % (lo, lab), c["qsLo"], verif.metric.QuantileScore().compute_single(data, 0, No, 0, I(lo, np.inf, False, False)))
                    cmp("prob:quantilescore", "quantilescore %g %s" % (hi, lab), c["qsHi"], verif.metric.QuantileScore().compute_single(data, 0, No, 0, I(hi, np.inf, False, False)))
                    for bt, ex in c["coverage"].items():
                        iv = verif.util.get_intervals(bt, np.array([lo, hi]))[0]
                        cmp("prob:quantilecoverage", "quantilecoverage -b %s %s" % (bt, lab), ex, verif.metric.QuantileCoverage().compute_single(data, 0, No, 0, iv))
                    iv = I(lo, hi, False, False)
                    cmp("prob:spread", "spread " + lab, c["spread"], verif.metric.Spread().compute_single(data, 0, No, 0, iv))
                    cmp("prob:spreadskillratio", "spreadskillratio " + lab, c["ssr"], verif.metric.SpreadSkillRatio().compute_single(data, 0, No, 0, iv))
                    cmp("prob:quantile", "quantile %g %s" % (lo, lab), c["qmean"], verif.metric.Quantile().compute_single(data, 0, No, 0, I(lo, np.inf, False, False)))
                elif c["kind"] == "ens":
                    e1, e2 = c["ens"]
                    if len(e1) != len(e2):
                        continue
                    rows = [[1] + list(e1), [2] + list(e2)]
                    inp = _file_input(rows, {"obs": 0})
                    inp["members"] = list(range(len(e1)))
                    inp["ens"] = [v for row in rows for v in row[1:]]
                    mat.write_text(path, inp)
                    for j, t in enumerate(c["thresholds"]):
                        data = verif.data.Data([verif.input.get_input(path)])
                        got = np.asarray(data.get_scores(verif.field.Threshold(num(t)), 0, verif.axis.All(), None), float).reshape(-1)
                        for k in range(2):
                            cmp("ens:eventprob", "P(X<=%r) from ensemble %r" % (t, c["ens"][k]), num(c["prob"][k][j]), got[k], rtol=2e-6)   # float32 in the code
                    prev = None
                    for level in (0.0, 0.25, 0.5, 0.75, 1.0):
                        data = verif.data.Data([verif.input.get_input(path)])
                        got = np.asarray(data.get_scores(verif.field.Quantile(level), 0, verif.axis.All(), None), float).reshape(-1)
                        n += 1
                        for k in range(2):
                            x = float(got[k])
                            if c["anyMissing"][k]:
                                if not math.isnan(x):
                                    bad("ens:quantile", "quantile %g of ensemble %r with a missing member: expected missing, observed %r" % (level, c["ens"][k], x))
                            else:
                                lo, hi = num(c["lo"][k]), num(c["hi"][k])
                                if not (lo - 1e-9 <= x <= hi + 1e-9):
                                    bad("ens:quantile", "quantile %g of ensemble %r = %r outside [%r, %r]" % (level, c["ens"][k], x, lo, hi))
                                if prev is not None and not math.isnan(prev[k]) and x < prev[k] - 1e-9:
                                    bad("ens:quantile", "quantiles of ensemble %r decrease with the level: %r then %r" % (c["ens"][k], prev[k], x))
                        prev = [float(v) for v in got]
                    # the same two ensembles in a RAGGED file: lead times 0 and 6 h x two stations, but only (0 h, station 1) and (6 h, station 2)
                    # have a row -- the two combinations without a row are missing, for every field derived from the members (after seed C04-i)
                    rag = {"times": [1325376000], "leads": [0, 6], "locs": [1, 2], "lat": [50, 51], "lon": [10, 10], "elev": [0, 0], "hasObs": True,
                           "hasFcst": False, "obs": [1, 0, 0, 2], "members": list(range(len(e1))),
                           "ens": list(e1) + [0] * len(e1) + [0] * len(e1) + list(e2), "absentRows": [[1, 1, 2], [1, 2, 1]]}
                    mat.write_text(path, rag)
                    fields = [("P(X<=%r)" % (t,), verif.field.Threshold(num(t))) for t in c["thresholds"][:2]]
                    fields += [("quantile 0.5", verif.field.Quantile(0.5)), ("member 0", verif.field.Ensemble(0))]
                    for label, field in fields:
                        data = verif.data.Data([verif.input.get_input(path)])
                        got = np.asarray(np.ma.filled(data.get_scores(field, 0, verif.axis.All(), None), np.nan), float).reshape(-1)
                        n += 1
                        if len(got) != 4 or not (math.isnan(got[1]) and math.isnan(got[2])):
                            bad("ens:absent-row", "%s derived from the members of a file in which (0 h, station 2) and (6 h, station 1) have no row: "
                                "expected missing there, observed %r" % (label, got.tolist()))
                    for j, t in enumerate(c["thresholds"][:2]):
                        data = verif.data.Data([verif.input.get_input(path)])
                        got = np.asarray(data.get_scores(verif.field.Threshold(num(t)), 0, verif.axis.All(), None), float).reshape(-1)
                        if len(got) == 4:
                            cmp("ens:eventprob", "P(X<=%r) from ensemble %r (ragged file)" % (t, c["ens"][0]), num(c["prob"][0][j]), got[0], rtol=2e-6)
                            cmp("ens:eventprob", "P(X<=%r) from ensemble %r (ragged file)" % (t, c["ens"][1]), num(c["prob"][1][j]), got[3], rtol=2e-6)
                elif c["kind"] == "pit":
                    rows = [[0.5, v] for v in c["pit"]]
                    inp = _file_input(rows, {"obs": 0, "pit": 1})
                    mat.write_text(path, inp)
                    data = verif.data.Data([verif.input.get_input(path)])
                    lab = "pit=%r" % (c["pit"],)
                    cmp("prob:pit", "pit " + lab, c["mean"], verif.metric.Pit().compute_single(data, 0, No, 0, None))
                    cmp("prob:pithistdev", "pithistdev " + lab, c["dev"], verif.metric.PitHistDev().compute_single(data, 0, No, 0, None))
                    cmp("prob:pithistslope", "pithistslope " + lab, c["slope"], verif.metric.PitHistSlope().compute_single(data, 0, No, 0, None))
                    cmp("prob:pithistshape", "pithistshape " + lab, c["shape"], verif.metric.PitHistShape().compute_single(data, 0, No, 0, None))
                    # a variable with a discrete mass at x0 (here: every observation sits on it): the PIT values are then spread at random
                    # below their stored value -- a missing PIT stays missing, a valid one stays in [0, stored value]
                    inp["variable"] = {"variable": "Precip", "units": "mm", "x0": 0.5}
                    mat.write_text(path, inp)
                    data = verif.data.Data([verif.input.get_input(path)])
                    got = np.asarray(data.get_scores(verif.field.Pit(), 0, verif.axis.All(), None), float).reshape(-1)
                    n += 1
                    stored = [num(v) for v in c["pit"]]
                    if len(got) != len(stored) or any(math.isnan(s) != math.isnan(float(g)) or (not math.isnan(s) and not (-1e-12 <= float(g) <= s + 1e-12))
                                                      for s, g in zip(stored, got)):
                        bad("prob:pit:discrete-mass", "pit values %r read with `# x0: 0.5` (all observations on x0): observed %r; a missing value must stay "
                            "missing and a valid one within [0, stored]" % (c["pit"], got.tolist()))
        except SystemExit:
            bad("prob:error-exit", "case ended in an error exit")
        except Exception as e:
            bad(exc_site(e), "%r" % (e,))
    return n, divs


def _run(ctx, kind, size, limit=None):
    cfg = "MC_Prob_%s_%s" % (kind, size)
    res = tlc.run("MC_Prob", cfg, tag=ctx.pid + "_" + cfg, timeout_s=1500)
    ctx.add_tlc(cfg, res, {"Kind": kind, "Size": size})
    cases = res.emitted
    if limit and len(cases) > limit:
        import random
        cases = random.Random(ctx.seed).sample(cases, limit)
    chunks = [cases[i:i + 40] for i in range(0, len(cases), 40)]
    for n, divs in par.pmap(_check_chunk, chunks, chunk=1):
        ctx.evaluations += n
        for site, detail, rep in divs:
            ctx.diverge(site, rep, detail=detail)
    ctx.traces += len(cases)
    for c in cases:
        s = str({k: c[k] for k in c if k in ("p", "e", "cases", "ens", "pit")})
        if any(tok in s for tok in ("nan", " 0", " 1", "[0", "[1")):
            ctx.nontriv(s)
    if cases:
        c = cases[len(cases) // 2]
        ctx.sample({k: c[k] for k in list(c)[:5]})


def run(ctx):
    ctx.rule = ("case = (probability, outcome) vector | case list (obs, cdf(1), cdf(2)) x 8 bin types | (obs, fcst, x25, x75) list | pair of "
                "ensembles with missing members | PIT vector; non-trivial = contains probabilities 0 or 1, values on a threshold, or missing values")
    ctx.assumptions = ["probabilities are dyadic (k/8), so no value sits on an inexact bin edge other than 0, 1/2, 1",
                       "quantiles taken from an ensemble are held to an envelope (within the member range, non-decreasing in the level, "
                       "the member itself for one member, missing if a member is missing)"]
    if ctx.tier == "quick":
        _run(ctx, "brier", "small")
        _run(ctx, "event", "small")
        _run(ctx, "quant", "small", limit=400)
        _run(ctx, "ens", "small", limit=600)
        _run(ctx, "pit", "small")
    else:
        _run(ctx, "brier", "full")
        _run(ctx, "event", "full", limit=6000)
        _run(ctx, "quant", "full", limit=6000)
        _run(ctx, "ens", "full")
        _run(ctx, "pit", "full")
        ctx.exhaustive = True
    par.clean_workdirs()


def replay(ctx, rep):
    print("replay: case %r -- re-run ./check C08 quick" % (rep.get("case"),))
    return 0
