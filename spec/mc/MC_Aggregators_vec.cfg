SPECIFICATION Spec
CONSTANT Kind = "vec"
INVARIANT InvOrder
INVARIANT InvEmpty
INVARIANT InvWindow
CHECK_DEADLOCK FALSE
