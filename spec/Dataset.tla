------------------------------ MODULE Dataset ------------------------------
(* ABSTRACT semantics of a verif dataset (verif.data.Data seen from outside):*)
(* which times / lead times / locations are verified, which cases contribute *)
(* to a request, and which values a request returns.  Written from the       *)
(* documentation and the property statements C01-C04, C11, C14, C18 -- a     *)
(* pure function of (files, options, request); no caches, no indices.        *)
(*                                                                           *)
(* Input   == [times, leads, locs : sequences in FILE order (repeats allowed),*)
(*             lat, lon, elev    : sequences parallel to locs,               *)
(*             hasObs : BOOLEAN,                                             *)
(*             obs, fcst : [position triple <<i,j,k>> -> Rat value or NaN],  *)
(*             extra : [field name -> [position triple -> value]]  (other    *)
(*             columns / quantile / threshold fields; may be empty)]        *)
(* Dataset == [inputs : Seq(Input), hasClim : BOOLEAN, clim : Input,         *)
(*             climType : {"subtract","divide"}]                             *)
(* Options == [given : SUBSET OptionNames, t, d, tod, o, l, lx : sets,       *)
(*             latrange, lonrange, elevrange, obsrange : <<lo, hi>>]         *)
(*            (a field is meaningful only if its name is in `given`)         *)
(* Request == [fields : Seq({"obs","fcst"}), inp : 1..N, axis : STRING,      *)
(*             idx : 1..number of slices]                                    *)
EXTENDS Integers, Sequences, FiniteSets, Rat, Calendar, Aggregators

OptionNames == {"t", "d", "tod", "o", "l", "lx", "latrange", "lonrange", "elevrange", "obsrange"}
\* -T: "T" \in given means pre-aggregation with T = <<window length in hours (Rat), -Tagg name, -Tx axis ("leadtime" | "time")>>;
\* it is not one of the OptionNames (the subsetting options), so the universes built from OptionNames are unaffected
NoOptions == [given |-> {}, t |-> {}, d |-> {}, tod |-> {}, o |-> {}, l |-> {}, lx |-> {},
              latrange |-> <<0, 0>>, lonrange |-> <<0, 0>>, elevrange |-> <<0, 0>>, obsrange |-> <<Zero, Zero>>,
              T |-> <<Zero, "mean", "leadtime">>]

TimeAxes     == {"time", "year", "month", "week", "day", "timeofday", "dayofyear", "dayofmonth", "monthofyear"}
LeadAxes     == {"leadtime", "leadtimeday"}
LocationAxes == {"location", "lat", "lon", "elev"}
PoolAxes     == {"no", "threshold", "obs", "fcst"}       \* all cases in one slice
AllAxes      == TimeAxes \cup LeadAxes \cup LocationAxes \cup PoolAxes \cup {"all"}

AllInputs(D) == IF D.hasClim THEN Append(D.inputs, D.clim) ELSE D.inputs
NumInputs(D) == Len(D.inputs)

FirstPos(seq, v) == CHOOSE i \in DOMAIN seq : seq[i] = v /\ \A j \in 1..(i - 1) : seq[j] # v
Has(seq, v) == \E i \in DOMAIN seq : seq[i] = v

---------------------------------------------------------------------------
(* C03: the verified dimensions                                            *)
InRangeI(x, r) == r[1] <= x /\ x <= r[2]                  \* inclusive at both ends

SelTime(O, t) ==
  /\ ("t" \in O.given => t \in O.t)
  /\ ("d" \in O.given => YYYYMMDD(DayOf(t)) \in O.d)      \* initialisation time falls on one of the dates
  /\ ("tod" \in O.given => HourOf(t) \in O.tod)           \* whole-hour initialisation times (domain restriction)
SelLead(O, l) == "o" \in O.given => l \in O.o

\* location metadata and range tests use the FIRST input's metadata for that id
MetaLat(D, s)  == LET I == D.inputs[1] IN I.lat[FirstPos(I.locs, s)]
MetaLon(D, s)  == LET I == D.inputs[1] IN I.lon[FirstPos(I.locs, s)]
MetaElev(D, s) == LET I == D.inputs[1] IN I.elev[FirstPos(I.locs, s)]
SelLoc(D, O, s) ==
  /\ ("l" \in O.given => s \in O.l)
  /\ ("lx" \in O.given => s \notin O.lx)
  /\ ("latrange" \in O.given => InRangeI(MetaLat(D, s), O.latrange))
  /\ ("lonrange" \in O.given => InRangeI(MetaLon(D, s), O.lonrange))
  /\ ("elevrange" \in O.given => InRangeI(MetaElev(D, s), O.elevrange))

InAll(D, Dim(_), v) == \A j \in DOMAIN AllInputs(D) : Has(Dim(AllInputs(D)[j]), v)
TimesOf(I) == I.times
LeadsOf(I) == I.leads
LocsOf(I)  == I.locs
Pool(D, Dim(_)) == UNION {Elems(Dim(AllInputs(D)[j])) : j \in DOMAIN AllInputs(D)}

CommonTimes(D, O) == SortInts({t \in Pool(D, TimesOf) : InAll(D, TimesOf, t) /\ SelTime(O, t)})
CommonLeads(D, O) == SortInts({l \in Pool(D, LeadsOf) : InAll(D, LeadsOf, l) /\ SelLead(O, l)})
CommonLocs(D, O)  == SortInts({s \in Pool(D, LocsOf)  : InAll(D, LocsOf, s)  /\ SelLoc(D, O, s)})

EmptySelection(D, O) == CommonTimes(D, O) = <<>> \/ CommonLeads(D, O) = <<>> \/ CommonLocs(D, O) = <<>>

IsSortedUnique(s) == \A i \in 1..(Len(s) - 1) : s[i] < s[i + 1]

---------------------------------------------------------------------------
(* C02: values by coordinates (first occurrence of a repeated entry)        *)
At(I, f, t, l, s) ==
  LET p == <<FirstPos(I.times, t), FirstPos(I.leads, l), FirstPos(I.locs, s)>>
  IN  IF f = "obs" THEN I.obs[p] ELSE IF f = "fcst" THEN I.fcst[p] ELSE I.extra[f][p]
\* the fields a request may name: observations, forecasts and the extra fields every input (and the climatology) stores
ExtraNames(I) == IF "extra" \in DOMAIN I THEN DOMAIN I.extra ELSE {}
FieldsOf(D) == {"obs", "fcst"} \cup {f \in ExtraNames(AllInputs(D)[1]) : \A j \in DOMAIN AllInputs(D) : f \in ExtraNames(AllInputs(D)[j])}

FirstWithObs(D) == CHOOSE j \in DOMAIN AllInputs(D) :
                     AllInputs(D)[j].hasObs /\ \A k \in 1..(j - 1) : ~AllInputs(D)[k].hasObs
SomeObs(D) == \E j \in DOMAIN AllInputs(D) : AllInputs(D)[j].hasObs

\* C01: an input without observations is scored against those of one that has them
Raw(D, j, f, t, l, s) ==
  LET A == AllInputs(D) IN
  IF f = "obs" /\ ~A[j].hasObs THEN At(A[FirstWithObs(D)], "obs", t, l, s) ELSE At(A[j], f, t, l, s)

\* C15: with -T h every value of a file is first replaced by the aggregate of ITS OWN series over the trailing window (g - h, g] of
\* the file's own lead times (or initialisation times, -Tx time; h in hours), whatever is selected or common afterwards; a missing
\* value in the window makes the aggregate missing.  (Aggregators whose result is rational: sum, mean, min, max, range, ...)
PreAggAt(I, f, t, l, s, T) ==
  LET lead == T[3] = "leadtime"
      grid == IF lead THEN Elems(I.leads) ELSE Elems(I.times)
      inwin(g) == IF lead THEN Gt(R(g), Sub(R(l), T[1])) /\ g <= l
                  ELSE Gt(R(g), Sub(R(t), Mul(T[1], R(3600)))) /\ g <= t
      ws == SortInts({g \in grid : inwin(g)})
  IN  AggR(T[2], Zero, [m \in DOMAIN ws |-> At(I, f, IF lead THEN t ELSE ws[m], IF lead THEN ws[m] ELSE l, s)])
RawT(D, O, j, f, t, l, s) ==
  IF "T" \notin O.given THEN Raw(D, j, f, t, l, s)
  ELSE LET A == AllInputs(D) IN
       IF f = "obs" /\ ~A[j].hasObs THEN PreAggAt(A[FirstWithObs(D)], "obs", t, l, s, O.T) ELSE PreAggAt(A[j], f, t, l, s, O.T)

\* C01: fair comparison -- missing in any input (climatology included) is missing in all
\* C03: -obsrange discards the cases whose observation lies outside the inclusive range
Val(D, O, j, f, t, l, s) ==
  IF \E k \in DOMAIN AllInputs(D) : IsNaN(RawT(D, O, k, f, t, l, s)) THEN NaN
  ELSE IF f = "obs" /\ "obsrange" \in O.given
          /\ (Lt(RawT(D, O, j, f, t, l, s), O.obsrange[1]) \/ Gt(RawT(D, O, j, f, t, l, s), O.obsrange[2])) THEN NaN
  ELSE RawT(D, O, j, f, t, l, s)

\* C14: the climatology's forecast at the same coordinates is subtracted from / divides obs and fcst
Adj(D, O, j, f, t, l, s) ==
  LET v == Val(D, O, j, f, t, l, s) IN
  IF D.hasClim /\ f \in {"obs", "fcst"}
  THEN LET c == Val(D, O, Len(AllInputs(D)), "fcst", t, l, s)
       IN  IF D.climType = "subtract" THEN Sub(v, c) ELSE Div(v, c)
  ELSE v

---------------------------------------------------------------------------
(* C11: slices                                                              *)
\* the whole number of 24 h periods in the lead time: -6 h holds none (day 0), -30 h holds one, before the initialisation time (day -1)
LeadDay(l) == IF l >= 0 THEN l \div 24 ELSE -((-l) \div 24)
TimeBucket(axis, t) ==
  CASE axis = "time"        -> t
    [] axis = "year"        -> BucketYear(t)
    [] axis = "month"       -> BucketMonth(t)
    [] axis = "week"        -> BucketWeek(t)
    [] axis = "day"         -> BucketDay(t)
    [] axis = "timeofday"   -> SecOfDay(t)                 \* the time of day itself (runs at 00:00 and 00:30 are different slices); labelled in hours
    [] axis = "dayofyear"   -> DayOfLeapYear(DayOf(t))     \* envelope: any strictly increasing numbering by (month, day)
    [] axis = "dayofmonth"  -> CivilFromDays(DayOf(t)).d
    [] axis = "monthofyear" -> CivilFromDays(DayOf(t)).m
LeadBucket(axis, l) == IF axis = "leadtime" THEN l ELSE LeadDay(l)

\* the slice key of a case; location-like axes give one slice per location, whatever the label
SliceKey(axis, t, l, s) ==
  IF axis \in TimeAxes THEN TimeBucket(axis, t)
  ELSE IF axis \in LeadAxes THEN LeadBucket(axis, l)
  ELSE IF axis \in LocationAxes THEN s
  ELSE 0

\* ---- evaluation context: everything a request needs, computed once per (dataset, options) ----
\* X.T, X.L, X.S : verified dimensions;  X.G : the verified grid;  X.n : number of scored inputs;
\* X.adj[j, f, c] : adjusted value of field f of input j at case c;  X.pos[c] : row-major index of c;
\* X.cells[m] : the case with row-major index m
Context(D, O) ==
  LET T == CommonTimes(D, O)  L == CommonLeads(D, O)  S == CommonLocs(D, O)
      G == {<<t, l, s>> : t \in Elems(T), l \in Elems(L), s \in Elems(S)}
  IN  [T |-> T, L |-> L, S |-> S, G |-> G, n |-> NumInputs(D),
       adj |-> [j \in 1..NumInputs(D), f \in FieldsOf(D), c \in G |-> Adj(D, O, j, f, c[1], c[2], c[3])],
       pos |-> [c \in G |-> ((IndexIn(T, c[1]) - 1) * Len(L) + (IndexIn(L, c[2]) - 1)) * Len(S) + IndexIn(S, c[3])],
       cells |-> [m \in 1..(Len(T) * Len(L) * Len(S)) |->
                    <<T[((m - 1) \div (Len(S) * Len(L))) + 1], L[(((m - 1) \div Len(S)) % Len(L)) + 1], S[((m - 1) % Len(S)) + 1]>>]]

SliceKeys(X, axis) == SortInts({SliceKey(axis, c[1], c[2], c[3]) : c \in X.G})
NumSlices(X, axis) == Len(SliceKeys(X, axis))
SliceOf(X, axis, idx) ==
  IF axis = "all" THEN X.G
  ELSE LET key == SliceKeys(X, axis)[idx] IN {c \in X.G : SliceKey(axis, c[1], c[2], c[3]) = key}

---------------------------------------------------------------------------
(* Requests                                                                 *)
Valid(X, r, c) == \A k \in DOMAIN r.fields : IsFinite(X.adj[r.inp, r.fields[k], c])
Cases(X, r) == {c \in SliceOf(X, r.axis, r.idx) : Valid(X, r, c)}

\* What a request returns: for every contributing case, the tuple of adjusted values of the requested
\* fields; as a function from the case (the order of a slice's values is not part of any property,
\* the pairing of the fields' values is).  No contributing case: a single NaN per field.
Scores(X, r) == [c \in Cases(X, r) |-> [k \in DOMAIN r.fields |-> X.adj[r.inp, r.fields[k], c]]]

\* The arrays a request returns, one per field: a slice request returns the values of the contributing cases in
\* row-major order (a single NaN if there is none); a whole-array request ("all") returns the verified grid with NaN
\* wherever the case does not contribute.
CasePositions(X, r) == SortInts({X.pos[c] : c \in Cases(X, r)})
ExpectedArrays(X, r) ==
  LET cs == CasePositions(X, r) IN
  [k \in DOMAIN r.fields |->
     IF r.axis = "all"
     THEN [m \in DOMAIN X.cells |-> IF X.cells[m] \in Cases(X, r) THEN X.adj[r.inp, r.fields[k], X.cells[m]] ELSE NaN]
     ELSE IF cs = <<>> THEN <<NaN>>
     ELSE [m \in DOMAIN cs |-> X.adj[r.inp, r.fields[k], X.cells[cs[m]]]]]

---------------------------------------------------------------------------
(* Theorems of the abstract semantics, checked by TLC on every enumerated dataset *)
ReqAs(r, i) == [r EXCEPT !.inp = i]
SameCases(X, Reqs) == \A r \in Reqs : \A i \in 1..X.n : Cases(X, ReqAs(r, i)) = Cases(X, r)
\* requests that use observations see identical observation values whatever the input
SameObs(X, Reqs) ==
  \A r \in Reqs : \A i \in 1..X.n : \A c \in Cases(X, r) : X.adj[i, "obs", c] = X.adj[r.inp, "obs", c]
\* C11: every case lies in exactly one slice of every axis
Partition(X, axis) ==
  axis # "all" => \A c \in X.G : Cardinality({k \in 1..NumSlices(X, axis) : c \in SliceOf(X, axis, k)}) = 1
DimsWellFormed(X) == IsSortedUnique(X.T) /\ IsSortedUnique(X.L) /\ IsSortedUnique(X.S)
=============================================================================
