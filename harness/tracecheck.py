"""Code -> spec: have TLC validate recorded executions against a trace specification.
A batch file holds many traces; TLC prints {"accept": id} for every trace it could follow to the end."""
import json
import os

from harness import tlc, core


def validate(ctx, module, traces, tag, timeout_s=900):
    """traces: list of dicts (without id). Returns (accepted_strict, drift_ids, rejected_ids, tlc results)."""
    for n, t in enumerate(traces):
        t["id"] = n + 1
    os.makedirs(os.path.join(core.BUILD, "traces"), exist_ok=True)
    path = os.path.join(core.BUILD, "traces", "%s_%s.json" % (ctx.pid, tag))
    with open(path, "w") as f:
        json.dump({"traces": traces}, f)
    res = tlc.run(module, module + "_strict", tag="%s_%s_strict" % (ctx.pid, tag), workers=8, timeout_s=timeout_s,
                  env={"TRACE_FILE": path}, require_emit=False)
    ctx.add_tlc("%s strict (%d recorded traces)" % (module, len(traces)), res)
    ok = set(o["accept"] for o in res.emitted if "accept" in o)
    rest = [t for t in traces if t["id"] not in ok]
    drift, rejected = [], []
    if rest:
        path2 = path.replace(".json", "_lax.json")
        with open(path2, "w") as f:
            json.dump({"traces": rest}, f)
        res2 = tlc.run(module, module + "_lax", tag="%s_%s_lax" % (ctx.pid, tag), workers=8, timeout_s=timeout_s,
                       env={"TRACE_FILE": path2}, require_emit=False)
        ctx.add_tlc("%s observables only (%d traces)" % (module, len(rest)), res2)
        ok2 = set(o["accept"] for o in res2.emitted if "accept" in o)
        drift = [t for t in rest if t["id"] in ok2]
        rejected = [t for t in rest if t["id"] not in ok2]
    return ok, drift, rejected


def validate_lax(ctx, module, traces, tag, timeout_s=900):
    """observables only (traces in which some calls lie outside the trace model, so that the internal steps cannot be bound)"""
    for n, t in enumerate(traces):
        t["id"] = n + 1
    os.makedirs(os.path.join(core.BUILD, "traces"), exist_ok=True)
    path = os.path.join(core.BUILD, "traces", "%s_%s_lax.json" % (ctx.pid, tag))
    with open(path, "w") as f:
        json.dump({"traces": traces}, f)
    res = tlc.run(module, module + "_lax", tag="%s_%s_lax" % (ctx.pid, tag), workers=8, timeout_s=timeout_s,
                  env={"TRACE_FILE": path}, require_emit=False)
    ctx.add_tlc("%s observables only (%d recorded traces)" % (module, len(traces)), res)
    ok = set(o["accept"] for o in res.emitted if "accept" in o)
    return [t for t in traces if t["id"] in ok], [t for t in traces if t["id"] not in ok]
