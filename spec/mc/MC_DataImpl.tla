----------------------------- MODULE MC_DataImpl -----------------------------
(* Model-checking wrapper for DataImpl.tla: all request sequences up to       *)
(* MaxLen over a menu, on every dataset of a universe.  TLC checks that the   *)
(* implementation-shaped model refines Dataset.tla; with EmitLeaves it also   *)
(* prints every maximal behaviour (dataset + request sequence + expected      *)
(* arrays) for replay into real verif.data.Data objects.                      *)
EXTENDS DataImpl, DatasetGen

CONSTANTS MaxLen, EmitLeaves
VARIABLES hist
vars == <<ds, opt, X, heap, fcache, rcache, nid, returned, last, hist>>

\* the request menu: single and multiple fields, every input, whole-array / pooled / sliced
MenuFields == IF Family = "C18Ens" THEN {<<"e0">>, <<"e1">>, <<"obs", "e2">>, <<"fcst">>}
              ELSE IF Family = "C18Derived" THEN {<<"p16000">>, <<"obs", "p16000">>, <<"p26000">>, <<"e0">>}
              ELSE IF Family = "C18Extra" THEN {<<"obs">>, <<"q0.005">>, <<"q0.01">>, <<"obs", "q0.01">>, <<"obs", "q0.005">>, <<"fcst", "Tmax">>}
              ELSE {<<"obs">>, <<"fcst">>, <<"obs", "fcst">>}
\* MaxLen >= 99 means "no bound on the length of the history" (configurations *_Unbounded, explored under VIEW CanonicalView): the menu
\* is then the core of 12 requests (every field set, every input, the whole array and one slice) so that the 2^12 cache contents stay enumerable
Unbounded == MaxLen >= 99
ReqAxes == IF Family = "C18Axes" THEN {<<"all", 1>>, <<"time", 2>>, <<"leadtime", 2>>, <<"leadtimeday", 1>>, <<"leadtimeday", 2>>, <<"month", 1>>, <<"month", 2>>}
           ELSE IF Unbounded THEN {<<"all", 1>>, <<"time", 1>>}
            ELSE {<<"all", 1>>, <<"no", 1>>, <<"time", 1>>, <<"time", 2>>, <<"location", 1>>, <<"location", 2>>}
Menu == {[fields |-> f, inp |-> i, axis |-> a[1], idx |-> a[2]] : f \in MenuFields, i \in 1..X.n, a \in ReqAxes}
MenuOk(r) == r.axis = "all" \/ r.idx <= NumSlices(X, r.axis)

Usable(g) == LET D == DsOf(g) IN ~EmptySelection(D, g.opt) /\ SomeObs(D)
Init == /\ \E g \in {u \in Universe(0) : Usable(u)} : InitImpl(DsOf(g), g.opt)
        /\ hist = <<>>

ReqJ(r) == [f |-> r.fields, i |-> r.inp, a |-> r.axis, k |-> r.idx]
ArrJ(a) == [m \in DOMAIN a |-> J(a[m])]
EmitBehaviour(h) ==
  PrintT(ToJson([fam |-> Family,
                 inputs |-> [j \in DOMAIN ds.inputs |-> InputJson(ds.inputs[j])],
                 hasClim |-> ds.hasClim, clim |-> InputJson(ds.clim), climType |-> ds.climType,
                 opts |-> OptJson(opt), err |-> FALSE,
                 times |-> X.T, leads |-> X.L, locs |-> X.S,
                 seq |-> [q \in DOMAIN h |-> [r |-> ReqJ(h[q]),
                                              e |-> LET ea == ExpectedArrays(X, h[q]) IN [k \in DOMAIN ea |-> ArrJ(ea[k])]]]]))

\* (without EmitLeaves the history is not recorded, so that behaviours reaching the same caches merge)
Step == /\ (Unbounded \/ TLCGet("level") <= MaxLen)
        /\ \E r \in {q \in Menu : MenuOk(q)} :
              /\ Request(r)
              /\ hist' = IF EmitLeaves THEN Append(hist, r) ELSE hist
              /\ (EmitLeaves /\ Len(hist') = MaxLen) => EmitBehaviour(hist')
Next == Step
Spec == Init /\ [][Next]_vars

\* ---- histories of ANY length -------------------------------------------------------------------------------------------
\* Object ids are names: two states that agree on the contents of the cached field arrays, on which of them are shared between
\* inputs, on the contents of every cached result and on which results ARE cached field arrays, behave alike for ever after.
\* Under this view the state graph is finite (at most 2^|Menu| cache contents per dataset), so TLC visits every reachable cache
\* state whatever the length and order of the history that leads to it.  `returned` (a history variable) is not part of the
\* view; its invariant is replaced by the action property HandedOutStable below, which speaks about the cached results only.
FieldArr(j, f) == IF fcache[j][f] = 0 THEN <<>> ELSE heap[fcache[j][f]]
CanonicalView ==
  <<ds, opt,
    [j \in 1..NA |-> [f \in Fields |-> FieldArr(j, f)]],
    {<<j1, j2, f>> \in (1..NA) \X (1..NA) \X Fields : fcache[j1][f] # 0 /\ fcache[j1][f] = fcache[j2][f]},
    {<<r, [k \in DOMAIN rcache[r] |-> heap[rcache[r][k]]],
          [k \in DOMAIN rcache[r] |-> {<<j, f>> \in (1..NA) \X Fields : fcache[j][f] = rcache[r][k]}]>> : r \in DOMAIN rcache},
    last.req, last.hit, [k \in DOMAIN last.ids |-> heap[last.ids[k]]]>>
\* The same without the most recent call: what a call returns is the cache entry of its request (LastIsCached, on every transition),
\* so CacheCoherent already says that every call of every history returns what Dataset.tla prescribes.
CacheView ==
  <<ds, opt,
    [j \in 1..NA |-> [f \in Fields |-> FieldArr(j, f)]],
    {<<j1, j2, f>> \in (1..NA) \X (1..NA) \X Fields : fcache[j1][f] # 0 /\ fcache[j1][f] = fcache[j2][f]},
    {<<r, [k \in DOMAIN rcache[r] |-> heap[rcache[r][k]]],
          [k \in DOMAIN rcache[r] |-> {<<j, f>> \in (1..NA) \X Fields : fcache[j][f] = rcache[r][k]}]>> : r \in DOMAIN rcache}>>
LastIsCached == [][last'.req \in DOMAIN rcache' /\ last'.ids = rcache'[last'.req]]_vars
\* every array ever handed out is a cached result (a miss caches what it returns, a hit returns what is cached): none of them changes
HandedOutStable == [][\A r \in DOMAIN rcache : \A k \in DOMAIN rcache[r] : heap'[rcache[r][k]] = heap[rcache[r][k]]]_vars

=============================================================================
