SPECIFICATION Spec
INVARIANT InvEveryCaseInOneBin
INVARIANT InvPitBins
CHECK_DEADLOCK FALSE
