#!/usr/bin/env python3
"""Third-round prompt: like seed_prompt2.py but names the mechanisms of BOTH earlier seeds, so that the agent picks a third one."""
import json, subprocess, sys
pid, wt = sys.argv[1], sys.argv[2]
base = subprocess.run(["python3", "/verif/tools/seed_prompt.py", pid, wt], capture_output=True, text=True).stdout
prev = []
for suffix in ("a", "b", "c", "d", "e", "f", "g", "h", "i", "j"):
    try:
        m = json.load(open("/verif/seeded/%s-%s/meta.json" % (pid, suffix)))
        prev.append("(%s) %s (it needed: %s)" % (suffix, m.get("summary", ""), m.get("needs", "")))
    except Exception:
        pass
first = ""
if prev:
    first = ("Earlier changes for this property already did the following, so choose a DIFFERENT mechanism, in a different function "
             "(preferably a different file), that manifests under different circumstances: " + " ".join(prev))
base = base.replace("expect 180 passed, 2 failed at HEAD; the 2 failures (test_bsdecomp, test_cond) are pre-existing", "expect 182 passed at HEAD")
base = base.replace("Requirements:", first + "\n\nRequirements:", 1)
print(base)
