"""C11 Slicing along -x partitions the cases with correct calendar buckets. Spec: Calendar.tla (integer calendar),
Dataset.tla SliceKey/SliceOf/Partition; MC_Calendar checks bucket lemmas and conversion inverses on every day 1900-2100
and emits them for replay into verif.util / verif.axis; MC_Dataset families C11* give datasets whose initialisation
times straddle year / month / week / leap-day boundaries, sliced along all 15 data axes."""
from harness import par, tlc
from harness.checks import dscommon
from harness import calreplay

replay = dscommon.replay


def _other_timezone(ctx):
    """calendar buckets are those of UTC whatever the local time zone of the machine: the same families with TZ = US Pacific / New Zealand"""
    import os
    import time
    old = os.environ.get("TZ")
    try:
        for tz in ("PST8PDT", "NZST-12"):
            os.environ["TZ"] = tz
            time.tzset()
            dscommon.run_family(ctx, "C11All", fmt="text", always_nontrivial=True)
            dscommon.run_family(ctx, "C11Sel", fmt="text", always_nontrivial=True)
            calreplay.run(ctx, "MC_Calendar_edge2100")
    finally:
        if old is None:
            os.environ.pop("TZ", None)
        else:
            os.environ["TZ"] = old
        time.tzset()


def run(ctx):
    ctx.rule = ("case = (dataset with 3..9 boundary-straddling initialisation times, axis, slice) and (calendar day, hour); "
                "non-trivial = dataset has >= 2 distinct buckets on some time axis / day is a bucket boundary")
    ctx.assumptions = ["dayofyear is held to an envelope (strictly increasing function of month and day)",
                       "lead times may lie before the initialisation time (lead-time day truncates toward zero)"]
    if ctx.tier == "quick":
        dscommon.run_family(ctx, "C11", fmt="text", limit=40, always_nontrivial=True, fresh=True)
        dscommon.run_family(ctx, "C11All", fmt="text", always_nontrivial=True)
        dscommon.run_family(ctx, "C11Sel", fmt="text", always_nontrivial=True)
        # two files whose lists of runs differ (a common run sits at different positions in them): slices of every input, on fresh objects and on one
        dscommon.run_family(ctx, "C11Two", fmt="text", always_nontrivial=True)
        dscommon.run_family(ctx, "C11Two", fmt="netcdf", always_nontrivial=True, fresh=False)
        # text files that give the run as date + hour columns (runs at 06, 12, 18, 23 UTC and 00:30 on consecutive rows): the buckets are
        # those of the run's own time (after seed C11-j)
        dscommon.run_family(ctx, "C11All", fmt="text", variant={"time_format": "datehour"}, always_nontrivial=True)
        dscommon.run_family(ctx, "C11Two", fmt="text", variant={"time_format": "datehour"}, always_nontrivial=True, fresh=False)
        # the buckets of a dataset are its own: another dataset (other runs, other lead times) is opened in the same process before the slices are asked for
        dscommon.run_family(ctx, "C11", fmt="text", limit=40, variant={"decoy": True}, always_nontrivial=True, fresh=False)
        dscommon.run_family(ctx, "C11All", fmt="text", variant={"decoy": True}, always_nontrivial=True, fresh=False)
        calreplay.run(ctx, "MC_Calendar_quick")
        # the ends of the supported range: 1900 and 2100 are century years without a leap day
        calreplay.run(ctx, "MC_Calendar_edge1900")
        calreplay.run(ctx, "MC_Calendar_edge2100")
        _other_timezone(ctx)
    else:
        dscommon.run_family(ctx, "C11", fmt="text", always_nontrivial=True)
        dscommon.run_family(ctx, "C11All", fmt="netcdf", always_nontrivial=True)
        dscommon.run_family(ctx, "C11Sel", fmt="text", always_nontrivial=True)
        dscommon.run_family(ctx, "C11Sel", fmt="netcdf", always_nontrivial=True)
        dscommon.run_family(ctx, "C11Two", fmt="text", always_nontrivial=True)
        dscommon.run_family(ctx, "C11Two", fmt="netcdf", always_nontrivial=True, fresh=False)
        dscommon.run_family(ctx, "C11Two", fmt="text", variant={"decoy": True}, always_nontrivial=True, fresh=False)
        dscommon.run_family(ctx, "C11All", fmt="text", variant={"time_format": "datehour"}, always_nontrivial=True)
        dscommon.run_family(ctx, "C11", fmt="text", variant={"time_format": "datehour"}, always_nontrivial=True)
        dscommon.run_family(ctx, "C11Two", fmt="text", variant={"time_format": "datehour"}, always_nontrivial=True, fresh=False)
        dscommon.run_family(ctx, "C11", fmt="text", variant={"decoy": True}, always_nontrivial=True, fresh=False)
        dscommon.run_family(ctx, "C11All", fmt="text", variant={"decoy": True}, always_nontrivial=True, fresh=False)
        calreplay.run(ctx, "MC_Calendar_full")
        _other_timezone(ctx)
        ctx.exhaustive = True
    par.clean_workdirs()
