SPECIFICATION Spec
CONSTANT K = 2
INVARIANT InvIndependent
INVARIANT InvDisjoint
CHECK_DEADLOCK FALSE
