SPECIFICATION Spec
CONSTANTS Kind = "cli"
          K = 2
          Family = "none"
INVARIANT InvVector
INVARIANT InvOrderIndependent
CHECK_DEADLOCK FALSE
