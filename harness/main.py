"""./check <Cxx> quick|thorough | --replay <path>"""
import importlib
import json
import os
import sys
import traceback

from harness import core, tlc


def main(argv):
    import warnings
    warnings.simplefilter("ignore")
    os.environ.setdefault("PYTHONWARNINGS", "ignore")
    if len(argv) < 2:
        print(__doc__)
        return 2
    pid = argv[0]
    seed = int(os.environ.get("VERIF_SEED", "0") or 0)
    replay = None
    if argv[1] == "--replay":
        tier = "quick"
        replay = argv[2]
    else:
        tier = os.environ.get("VERIF_TIER") or argv[1]
        if argv[1] in ("quick", "thorough"):
            tier = argv[1]
    try:
        mod = importlib.import_module("harness.checks." + pid.lower())
    except ImportError:
        traceback.print_exc()
        print("no check for %s" % pid)
        return 2
    ctx = core.Ctx(pid, tier, seed)
    try:
        if replay:
            with open(replay) as f:
                rep = json.load(f)
            return mod.replay(ctx, rep)
        mod.run(ctx)
    except tlc.TlcFailure as e:
        print("MACHINERY-FAILURE: %s" % e)
        return 2
    except Exception:
        traceback.print_exc()
        print("MACHINERY-FAILURE: harness exception")
        return 2
    return ctx.finish()


if __name__ == "__main__":
    sys.exit(main(sys.argv[1:]))
