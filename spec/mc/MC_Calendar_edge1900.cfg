SPECIFICATION Spec
CONSTANTS FirstYear = 1900
          LastYear = 1901
INVARIANT ConversionsInverse
INVARIANT BucketContains
INVARIANT Monotone
INVARIANT DayOfYearEnvelope
INVARIANT KnownDays
CHECK_DEADLOCK FALSE
