"""C04 Missing data never enters a score as a number. Spec: Scoring.tla (a score is the metric's definition applied to the
contributing cases of Dataset.tla, hence independent of the placeholder), TextFormat!Decode / NcFormat!DecodeNc (which
encodings are missing). TLC emits datasets with missing cells, whole missing slices and whole missing inputs together with
the expected score matrix of 49 metrics x 4 axes; every dataset is materialised once per missing-value encoding (text: -999,
nan, non-numeric token; NetCDF: NaN, _FillValue, masked, -999, >1e30) and every score is recomputed by the real code."""
import math
import os

from harness import tlc, par, expr, dsreplay, materialize as mat
from harness.dsreplay import quiet, exc_site

TEXT_TOKENS = ["-999", "nan", "NA", "-999.0"]
NC_ENC = ["nan", "fill", "masked", "-999", "big"]
AXES = ["no", "time", "leadtime", "location"]


def _check(job):
    import numpy as np
    import verif.metric
    import verif.axis
    import verif.util
    import verif.data
    obj, fmt, enc = job[:3]
    shared = len(job) > 3 and job[3]      # all scores from ONE Data object (what a session computing several scores does), else a fresh one per score
    shared_data = None
    n = 0
    divs = []
    base = {"kind": "scores", "format": fmt, "encoding": enc, "dataset": {k: obj[k] for k in obj if k not in ("scores", "counts")}}

    def bad(site, detail, **kw):
        rep = dict(base)
        rep.update(kw)
        divs.append((site, detail, rep))
    try:
        variant = {"missing_token": enc} if fmt == "text" else {"nc_missing": enc}
        with quiet():
            inputs, clim = dsreplay.load(obj, fmt, variant)
        iv = verif.util.get_intervals(obj["cfg"]["bt"], np.array([mat.num(obj["cfg"]["t"]), mat.num(obj["cfg"]["u"])]))[0]
        import verif.aggregator
        todo = [(mname, "mean", per_axis) for mname, per_axis in obj["scores"].items()]
        todo += [(mname, g, per_axis) for g, per_metric in obj.get("aggscores", {}).items() for mname, per_axis in per_metric.items()]
        for mname, aggname, per_axis in todo:
            if aggname == "mean" and mname in obj.get("impl", {}):
                per_axis = obj["impl"][mname]      # formula findings of C05 (alphaindex, leps): held to the as-implemented operator here
            for a, matrix in enumerate(per_axis):
                axis = verif.axis.get(AXES[a])
                for i in range(len(inputs)):
                    try:
                        with quiet(), np.errstate(all="ignore"):
                            if shared:
                                if shared_data is None:
                                    shared_data = dsreplay.make_data(obj, inputs, clim)
                                data = shared_data
                            else:
                                data = dsreplay.make_data(obj, inputs, clim)
                            m = verif.metric.get(mname)
                            if aggname != "mean":
                                m.aggregator = verif.aggregator.get(aggname)
                            got = m.compute(data, i, axis, iv)
                        for k, row in enumerate(matrix):
                            n += 1
                            want = expr.ev(row[i])
                            g = float(np.ma.filled(got[k], np.nan)) if np.ma.is_masked(got[k]) else float(got[k])
                            tol = 2e-6 if fmt != "text" else 1e-9
                            if not expr.agrees(want, g, rtol=tol):
                                site = "score:%s" % mname + ("" if aggname == "mean" else ":agg-" + aggname)
                                if want == "undef":
                                    site = "score:%s:number-from-no-valid-case" % mname + ("" if aggname == "mean" else ":agg-" + aggname)
                                bad(site, "%s" % (mname if aggname == "mean" else mname + " -agg " + aggname) + " input %d axis %s slice %d, missing encoded as %s (%s)%s: expected %r observed %r"
                                    % (i + 1, AXES[a], k + 1, enc, fmt, ", all scores on one Data object" if shared else "", want, g),
                                    metric=mname, axis=AXES[a], slice=k + 1, input=i + 1, shared=bool(shared))
                    except SystemExit:
                        bad("score:error-exit", "%s axis %s input %d ended in an error exit" % (mname, AXES[a], i + 1), metric=mname)
                    except Exception as e:
                        bad(exc_site(e), "%s axis %s input %d: %r" % (mname, AXES[a], i + 1, e), metric=mname, axis=AXES[a])
    except SystemExit:
        bad("score:load-error-exit", "loading ended in an error exit")
    except Exception as e:
        bad(exc_site(e), "%r" % (e,))
    return n, divs


def _empty_slice_chunk(names):
    """Aggregators!EmptyIsUndefined on the real metrics: a file in which EVERY field is missing at the second lead time; whichever statistic is set as
    the metric's aggregator (sum, min, max, range, median, a quantile, std), the score of that lead time is missing -- not 0, not an exception"""
    import io
    import sys
    import numpy as np
    import verif.metric, verif.aggregator, verif.axis, verif.input, verif.data, verif.util, verif.interval
    wd = par.workdir()
    p = os.path.join(wd, "empty_slice.txt")
    n = 8
    inp = {"times": [1325376000, 1325462400], "leads": [0, 12], "locs": [1, 2], "lat": [50, 51], "lon": [10, 10], "elev": [0, 0], "hasObs": True, "hasFcst": True,
           "obs": [1, 3, "nan", "nan", 2, 0, "nan", "nan"], "fcst": [2, 1, "nan", "nan", 1, 2, "nan", "nan"],
           "pit": [[1, 8], [3, 8], "nan", "nan", [1, 2], [1, 4], "nan", "nan"], "thresholds": [1, 2],
           "cdf": [v for k in range(n) for v in (([1, 4], [3, 4]) if k % 4 < 2 else ("nan", "nan"))], "quantiles": [0.25, 0.75],
           "x": [v for k in range(n) for v in ((k % 3, k % 3 + 2) if k % 4 < 2 else ("nan", "nan"))]}
    mat.write_text(p, inp)
    classes = dict(verif.metric.get_all())
    count, divs = 0, []
    for name in names:
        for agg in ("sum", "min", "max", "range", "median", "0.9", "std"):
            rep = {"kind": "empty-slice", "metric": name, "aggregator": agg, "file": open(p).read()}
            old = sys.stdout
            sys.stdout = io.StringIO()
            try:
                data = verif.data.Data([verif.input.get_input(p)])
                m = classes[name]()
                m.aggregator = verif.aggregator.get(agg)
                iv = verif.util.get_intervals("within", np.array([1.0, 2.0]))[0]
                if name.lower() in ("quantile", "quantilescore"):
                    iv = verif.interval.Interval(0.25, np.inf, False, False)
                if name.lower() in ("quantilecoverage", "spread", "spreadskillratio"):
                    iv = verif.interval.Interval(0.25, 0.75, False, False)
                with np.errstate(all="ignore"):
                    v = m.compute(data, 0, verif.axis.Leadtime(), iv)
                count += 1
                got = float(np.ma.filled(v[1], np.nan))
                if not math.isnan(got):
                    divs.append(("score:%s:number-from-no-valid-case:agg-%s" % (name.lower(), agg),
                                 "%s with the aggregator %s at a lead time where every value of the file is missing: expected missing, observed %r" % (name, agg, got), rep))
            except NotImplementedError:
                pass          # the abstract base classes
            except SystemExit:
                pass          # an error message is no number
            except Exception as e:
                divs.append((exc_site(e), "%s with the aggregator %s at a lead time where every value of the file is missing: %r" % (name, agg, e), rep))
            finally:
                sys.stdout = old
    return count, divs


def _empty_slice_all_aggregators(ctx):
    import inspect
    import verif.metric
    names = []
    for name, cls in verif.metric.get_all():
        try:
            inspect.signature(cls).bind()       # metrics that are built without arguments (all the named scores of the help text)
            names.append(name)
        except TypeError:
            pass
    for n, divs in par.pmap(_empty_slice_chunk, [names[i:i + 8] for i in range(0, len(names), 8)], chunk=1):
        ctx.evaluations += n
        for site, detail, rep in divs:
            ctx.diverge(site, rep, detail=detail)
    ctx.traces += len(names)
    ctx.extra["empty_slice_metric_x_aggregator"] = len(names) * 7


def run(ctx):
    ctx.rule = ("case = (dataset with missing single cells / a whole time or location slice / a whole field of an input, missing-value "
                "encoding, metric, axis, slice, input); non-trivial = dataset has at least one missing cell")
    ctx.assumptions = ["encodings are those each format documents (text: -999, nan, non-numeric; NetCDF: fill/masked, -999, NaN, >1e30)",
                       "alphaindex and leps (recorded C05 findings) are compared with KnownFindings.tla's as-implemented operators on the same valid pairs",
                       "probabilistic fields with missing values (cdf, ensemble members incl. all-missing ensembles, observations) use MC_Prob's generator"]
    fam = "C04Quick" if ctx.tier == "quick" else "C04"
    res = tlc.run("MC_Scoring", "MC_Scoring_" + fam, tag=ctx.pid + "_" + fam, timeout_s=1800)
    ctx.add_tlc("MC_Scoring/" + fam, res, {"Family": fam})
    res2 = tlc.run("MC_Scoring", "MC_Scoring_C04Clim", tag=ctx.pid + "_clim", timeout_s=900)
    ctx.add_tlc("MC_Scoring/C04Clim", res2, {"Family": "C04Clim"})
    import random
    rng = random.Random(ctx.seed)
    jobs = []
    for o in res.emitted + res2.emitted:
        if ctx.tier == "quick":
            jobs.append((o, "text", rng.choice(TEXT_TOKENS)))
            jobs.append((o, "netcdf", rng.choice(NC_ENC)))
            if rng.random() < 0.35:
                jobs.append((o, "text", "-999", True))
        else:
            jobs += [(o, "text", t) for t in TEXT_TOKENS] + [(o, "netcdf", e) for e in NC_ENC] + [(o, "text", "-999", True)]
    for n, divs in par.pmap(_check, jobs, chunk=2):
        ctx.evaluations += n
        for site, detail, rep in divs:
            ctx.diverge(site, rep, detail=detail)
    # a slice without any valid case under EVERY aggregator and EVERY metric (after seed C04-j)
    _empty_slice_all_aggregators(ctx)
    # pre-aggregation (-T): a window holding a missing value is missing, whichever statistic accumulates it
    from harness.checks import dscommon
    dscommon.run_family(ctx, "C15T", fmt="text", variant={"missing_token": "NA"}, limit=(60 if ctx.tier == "quick" else None), always_nontrivial=True)
    # missing values in the probabilistic fields (cdf, quantiles, ensemble members, pit): the end-to-end cases of C08's generator
    from harness.checks import c08
    c08._run(ctx, "ens", "small", limit=(400 if ctx.tier == "quick" else None))
    c08._run(ctx, "event", "full", limit=(300 if ctx.tier == "quick" else 3000))
    c08._run(ctx, "pit", "small" if ctx.tier == "quick" else "full")
    # outputs that threshold the WHOLE arrays (missing cells still in them) into 0/1 events: a missing value is no event and no non-event.
    # The fss diagram of Diagrams.tla on datasets with missing cells, and the marginal diagram of the probabilistic datasets (after seed C04-h)
    from harness.checks import c16
    resd = tlc.run("MC_Diagrams", "MC_Diagrams_C12", tag=ctx.pid + "_diagrams", timeout_s=1500)
    ctx.add_tlc("MC_Diagrams/C12 (fss on datasets with missing cells)", resd)
    dcases = [c for c in resd.emitted if c["diagram"] == "fss"]
    for n, divs in par.pmap(c16._check_chunk, [dcases[i:i + 4] for i in range(0, len(dcases), 4)], chunk=1):
        ctx.evaluations += n
        for site, detail, rep in divs:
            ctx.diverge(site, rep, detail=detail)
    resp = tlc.run("MC_ProbDiagrams", "MC_ProbDiagrams", tag=ctx.pid + "_prob", timeout_s=1500)
    ctx.add_tlc("MC_ProbDiagrams (marginal)", resp)
    pcases = [c for c in resp.emitted if c["diagram"] == "marginal"]
    for n, divs in par.pmap(c16._check_prob_chunk, [pcases[i:i + 4] for i in range(0, len(pcases), 4)], chunk=1):
        ctx.evaluations += n
        for site, known, detail, rep in divs:
            ctx.diverge(site, rep, as_implemented=known, detail=detail)
    ctx.traces += len(dcases) + len(pcases)
    ctx.extra["whole_array_event_diagrams"] = {"fss": len(dcases), "marginal": len(pcases)}
    ctx.traces += len(jobs)
    for o, fmt, enc in [j[:3] for j in jobs]:
        if any("nan" in i["obs"] or "nan" in i["fcst"] for i in o["inputs"]):
            ctx.nontriv(str((o["inputs"], fmt, enc)))
    if res.emitted:
        o = res.emitted[len(res.emitted) // 2]
        ctx.sample({"inputs": o["inputs"], "expected_mae_by_time": o["scores"]["mae"][1], "counts_by_time": o["counts"][1]})
    ctx.exhaustive = ctx.tier != "quick"
    par.clean_workdirs()


def replay(ctx, rep):
    obj = dict(rep["dataset"])
    print("replay: dataset with encoding %s/%s -- re-run ./check C04 quick" % (rep.get("format"), rep.get("encoding")))
    return 0
