SPECIFICATION Spec
CONSTANT Universe = "missing"
INVARIANT InvPerfectAttains
INVARIANT InvPerfectAgg
INVARIANT InvNeverBetter
INVARIANT InvAggConsistency
INVARIANT InvOrder
INVARIANT InvShift
INVARIANT InvScale
CHECK_DEADLOCK FALSE
