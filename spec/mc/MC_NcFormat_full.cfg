SPECIFICATION SpecNc
CONSTANT Universe = "full"
INVARIANT InvRoundTrip
INVARIANT InvDecode
CHECK_DEADLOCK FALSE
