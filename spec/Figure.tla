-------------------------------- MODULE Figure --------------------------------
(* C17: appearance options.  An abstract figure is a function from property     *)
(* names to values; every documented appearance option owns one property (the   *)
(* value it must take is given with the option's value) and may disturb a few    *)
(* named others (e.g. a log axis re-computes the limits); all remaining          *)
(* properties must be what they are without the option: Independent.             *)
(* Values are written as the strings a user types / a reader reads back.         *)
EXTENDS Integers, Sequences, FiniteSets, TLC

\* [flag, vals (two alternative argument tokens, <<>> for a switch), prop, expect (what the property must read for each value),
\*  also (other properties the option may legitimately change)]
O(flag, vals, prop, expect, also) == [flag |-> flag, vals |-> vals, prop |-> prop, expect |-> expect, also |-> also]
Options ==
 { O("-title", <<"My_title", "Other">>, "title", <<"My title", "Other">>, {}),
   O("-xlabel", <<"Lead_x", "X2">>, "xlabel", <<"Lead_x", "X2">>, {}),
   O("-ylabel", <<"Score_y", "Y2">>, "ylabel", <<"Score_y", "Y2">>, {}),
   O("-xlim", <<"1,20", "-5,30">>, "xlim", <<"1,20", "-5,30">>, {"xticks", "xticklabels"}),
   O("-ylim", <<"0,3", "-1,10">>, "ylim", <<"0,3", "-1,10">>, {"yticks", "yticklabels"}),
   O("-xticks", <<"0,12,24", "6,18">>, "xticks", <<"0,12,24", "6,18">>, {"xticklabels", "xlim"}),
   O("-yticks", <<"0,1,2", "0.5,1.5">>, "yticks", <<"0,1,2", "0.5,1.5">>, {"yticklabels", "ylim"}),
   O("-xrot", <<"45", "90">>, "xrot", <<"45", "90">>, {}),
   O("-yrot", <<"30", "60">>, "yrot", <<"30", "60">>, {}),
   O("-xlog", <<>>, "xscale", <<"log">>, {"xlim", "xticks", "xticklabels"}),
   O("-ylog", <<>>, "yscale", <<"log">>, {"ylim", "yticks", "yticklabels"}),
   O("-leg", <<"Aa,B_b", "One,Two">>, "legend", <<"Aa|B b", "One|Two">>, {}),
   O("-legfs", <<"7", "0">>, "legfs", <<"7", "hidden">>, {"legend", "legloc"}),
   O("-legloc", <<"lower_left", "center", "best">>, "legloc", <<"lower left", "center", "best">>, {}),      \* "best", asked for explicitly, is a request like any other
   O("-lc", <<"red,blue", "0.3,0.7">>, "colors", <<"red|blue", "0.3|0.7">>, {}),
   O("-ls", <<"--,:", "-.">>, "linestyles", <<"--|:", "-.|-.">>, {}),
   O("-lw", <<"3,1", "0.5">>, "linewidths", <<"3|1", "0.5|0.5">>, {}),
   O("-ma", <<"s,^", "x">>, "markers", <<"s|^", "x|x">>, {}),
   O("-ms", <<"9,4", "2">>, "markersizes", <<"9|4", "2|2">>, {}),
   O("-labfs", <<"17", "9">>, "labfs", <<"17", "9">>, {}),
   O("-tickfs", <<"13", "6">>, "tickfs", <<"13", "6">>, {}),
   O("-titlefs", <<"21", "8">>, "titlefs", <<"21", "8">>, {}),
   O("-gc", <<"red", "0.5">>, "gridcolor", <<"red", "0.5">>, {}),
   O("-gs", <<"--", ":">>, "gridstyle", <<"--", ":">>, {}),
   O("-gw", <<"2.5", "0.5">>, "gridwidth", <<"2.5", "0.5">>, {}),
   O("-nogrid", <<>>, "grid", <<"off">>, {"gridcolor", "gridstyle", "gridwidth"}),
   O("-sp", <<>>, "perfectline", <<"shown">>, {"ylim", "yticks", "yticklabels", "xlim", "xticks", "xticklabels", "legend"}),
   O("-aspect", <<"2", "0.5">>, "aspect", <<"2", "0.5">>, {"xlim", "ylim", "xticks", "yticks", "xticklabels", "yticklabels"}),
   O("-fs", <<"10,4", "3,7">>, "figsize", <<"10,4", "3,7">>, {"pixels", "xticks", "yticks", "xticklabels", "yticklabels"}),
   O("-dpi", <<"50", "200">>, "dpi", <<"50", "200">>, {}),
   O("-left", <<"0.2", "0">>, "left", <<"0.2", "0">>, {"pixels"}),
   O("-right", <<"0.8", "0.7">>, "right", <<"0.8", "0.7">>, {"pixels"}),
   O("-top", <<"0.8", "0.85">>, "top", <<"0.8", "0.85">>, {"pixels"}),
   O("-bottom", <<"0.2", "0">>, "bottom", <<"0.2", "0">>, {"pixels"}),
   O("-nomargin", <<>>, "margins", <<"none">>, {"left", "right", "top", "bottom", "pixels"}),
   O("-a", <<>>, "annotations", <<"shown">>, {"afs", "annotationfields"}),
   O("-afs", <<"14", "5">>, "afs", <<"14", "5">>, {}),
   O("-xticklabels", <<"a,b,c", "x,y">>, "xticklabels", <<"a|b|c", "x|y">>, {}),
   O("-yticklabels", <<"lo,mid,hi", "p,q">>, "yticklabels", <<"lo|mid|hi", "p|q">>, {}),
   O("-af", <<"key", "key,score">>, "annotationfields", <<"1", "2:key,score">>, {}),      \* the fields appear in the order given
   O("-obsleg", <<"Measured", "Truth">>, "obsleg", <<"Measured", "Truth">>, {"legend"}),
   \* colour scale of the map view: its label and its limits (every panel's points use the same limits)
   O("-clabel", <<"Score_c", "C2">>, "clabel", <<"Score_c", "C2">>, {}),
   O("-clim", <<"0,3", "-1,10">>, "clim", <<"0,3", "-1,10">>, {}),
   O("-cmap", <<"jet", "RdBu">>, "cmap", <<"jet", "RdBu">>, {}) }
MapOnly == {"-clabel", "-clim", "-cmap"}
\* -afs shows only together with -a ; -xticklabels / -yticklabels only together with the tick positions
Requires(flag) == IF flag \in {"-afs", "-af"} THEN {"-a"} ELSE IF flag = "-xticklabels" THEN {"-xticks"} ELSE IF flag = "-yticklabels" THEN {"-yticks"} ELSE {}
\* tick labels go with the tick positions of the same alternative (as many labels as ticks)
Paired(S) == \A a, b \in S : ((a.flag = "-xticklabels" /\ b.flag = "-xticks") \/ (a.flag = "-yticklabels" /\ b.flag = "-yticks")) => a.k = b.k
\* (the pixel size of the written image is not an independent property: with the default tight bounding box it follows
\* the extent of every label and tick)
Props == {o.prop : o \in Options} \cup {"format"}
OptionOf(flag) == CHOOSE o \in Options : o.flag = flag

\* a choice: option + which of its values (two for most options)
Choices == {ch \in {[flag |-> o.flag, k |-> k] : o \in Options, k \in 1..3} : ch.k <= (IF OptionOf(ch.flag).vals = <<>> THEN 1 ELSE Len(OptionOf(ch.flag).vals))}
Tokens(ch) == LET o == OptionOf(ch.flag) IN IF o.vals = <<>> THEN <<o.flag>> ELSE <<o.flag, o.vals[ch.k]>>
Owned(S) == {OptionOf(ch.flag).prop : ch \in S}
Disturbed(S) == UNION {OptionOf(ch.flag).also : ch \in S}
\* what the figure must read: for owned properties the option's value; for every property that no chosen option owns or may
\* disturb: the value of the figure drawn WITHOUT appearance options
ExpectedOf(S) == [p \in Owned(S) |-> LET ch == CHOOSE x \in S : OptionOf(x.flag).prop = p IN OptionOf(ch.flag).expect[ch.k]]
MustBeUnchanged(S) == Props \ (Owned(S) \cup Disturbed(S))
\* contradictory requests are not generated: explicit margins together with -nomargin
Margins == {"-left", "-right", "-top", "-bottom"}
Consistent(S) == /\ \A a, b \in S : a # b => a.flag # b.flag
                 /\ Paired(S)
                 /\ ~(\E a, b \in S : a.flag = "-nomargin" /\ b.flag \in Margins)
                 /\ ~(\E a, b \in S : a.flag = "-legfs" /\ a.k = 2 /\ b.flag \in {"-leg", "-legloc"})      \* -legfs 0 hides the legend
                 /\ ~(\E a, b \in S : a.flag = "-nogrid" /\ b.flag \in {"-gc", "-gs", "-gw"})
\* The written image is the whole figure (figsize x dpi pixels) as soon as any margin is given explicitly -- whatever its value, 0
\* included -- and is cropped to the tight bounding box of its contents otherwise.
CropOf(S) == IF \E ch \in S : ch.flag \in Margins THEN "full" ELSE "tight"
\* Independent: the expected value of a property depends only on the choice made for its own option
Independent(S, T) == \A p \in Owned(S) \cap Owned(T) :
                        (\E ch \in S \cap T : OptionOf(ch.flag).prop = p) => ExpectedOf(S)[p] = ExpectedOf(T)[p]
=============================================================================
