------------------------------ MODULE Calendar ------------------------------
(* Proleptic Gregorian calendar on integers, written from the calendar's    *)
(* definition (days-from-civil algorithm), not from verif's code.           *)
(* A day number counts days since 1970-01-01 (day 0, a Thursday).           *)
EXTENDS Integers

IsLeap(y) == (y % 4 = 0 /\ y % 100 # 0) \/ y % 400 = 0
DaysInMonth(y, m) ==
  IF m = 2 THEN (IF IsLeap(y) THEN 29 ELSE 28)
  ELSE IF m \in {4, 6, 9, 11} THEN 30 ELSE 31

DaysFromCivil(y, m, d) ==
  LET yy  == IF m <= 2 THEN y - 1 ELSE y
      era == yy \div 400
      yoe == yy - era * 400
      mp  == (m + 9) % 12
      doy == (153 * mp + 2) \div 5 + d - 1
      doe == yoe * 365 + yoe \div 4 - yoe \div 100 + doy
  IN  era * 146097 + doe - 719468

CivilFromDays(n) ==
  LET z   == n + 719468
      era == z \div 146097
      doe == z - era * 146097
      yoe == (doe - doe \div 1460 + doe \div 36524 - doe \div 146096) \div 365
      doy == doe - (365 * yoe + yoe \div 4 - yoe \div 100)
      mp  == (5 * doy + 2) \div 153
      d   == doy - (153 * mp + 2) \div 5 + 1
      m   == IF mp < 10 THEN mp + 3 ELSE mp - 9
      y   == yoe + era * 400 + (IF m <= 2 THEN 1 ELSE 0)
  IN  [y |-> y, m |-> m, d |-> d]

Weekday(n)    == (n + 3) % 7                  \* 0 = Monday
WeekStart(n)  == n - Weekday(n)               \* the Monday on or before
MonthStart(n) == LET c == CivilFromDays(n) IN DaysFromCivil(c.y, c.m, 1)
YearStart(n)  == LET c == CivilFromDays(n) IN DaysFromCivil(c.y, 1, 1)
DayOfYear(n)  == n - YearStart(n) + 1         \* 1 on 1 January, true day count
\* day-of-year numbering as in a leap year (a function of month and day only)
DayOfLeapYear(n) == LET c == CivilFromDays(n) IN DaysFromCivil(2000, c.m, c.d) - DaysFromCivil(2000, 1, 1) + 1
YYYYMMDD(n)   == LET c == CivilFromDays(n) IN c.y * 10000 + c.m * 100 + c.d
DayFromYYYYMMDD(x) == DaysFromCivil(x \div 10000, (x \div 100) % 100, x % 100)
ValidYYYYMMDD(x) == LET y == x \div 10000  m == (x \div 100) % 100  d == x % 100
                    IN  m \in 1..12 /\ d >= 1 /\ d <= DaysInMonth(y, m)

\* unix times (seconds; below 2^31 wherever TLC has to hold them in one integer)
DayOf(t)      == t \div 86400
SecOfDay(t)   == t % 86400
HourOf(t)     == (t % 86400) \div 3600
UnixOfDay(n)  == n * 86400

\* bucket starts as unix times, the value verif reports for the time-like axes
BucketYear(t)  == UnixOfDay(YearStart(DayOf(t)))
BucketMonth(t) == UnixOfDay(MonthStart(DayOf(t)))
BucketWeek(t)  == UnixOfDay(WeekStart(DayOf(t)))
BucketDay(t)   == UnixOfDay(DayOf(t))
\* successor bucket starts, for the BucketContains lemma
NextYear(n)  == DaysFromCivil(CivilFromDays(n).y + 1, 1, 1)
NextMonth(n) == LET c == CivilFromDays(n) IN IF c.m = 12 THEN DaysFromCivil(c.y + 1, 1, 1) ELSE DaysFromCivil(c.y, c.m + 1, 1)
AddDays(x, k) == YYYYMMDD(DayFromYYYYMMDD(x) + k)
=============================================================================
