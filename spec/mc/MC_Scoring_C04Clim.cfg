SPECIFICATION Spec
CONSTANT Family = "C04Clim"
INVARIANT InvPairsValid
INVARIANT InvCountsAddUp
INVARIANT InvMeanDecomposes
INVARIANT InvSameCounts
CHECK_DEADLOCK FALSE
