SPECIFICATION Spec
CONSTANTS FirstYear = 1990
          LastYear = 2030
INVARIANT ConversionsInverse
INVARIANT BucketContains
INVARIANT Monotone
INVARIANT DayOfYearEnvelope
INVARIANT KnownDays
CHECK_DEADLOCK FALSE
