----------------------------- MODULE MC_Dataset -----------------------------
(* Generator + model-checking wrapper for Dataset.tla.                      *)
(* One initial state per generated (dataset, options); the single action    *)
(* Evaluate emits, as one JSON line, the literal content of every input     *)
(* file together with the expected verified dimensions and the expected     *)
(* result of every request of the menu.  The invariants are the theorems of *)
(* Dataset.tla, so TLC checks them on every dataset it hands to the harness.*)
EXTENDS DatasetGen

VARIABLES gen, phase, ctx
vars == <<gen, phase, ctx>>

D == DsOf(gen)
O == gen.opt
Err(DD, OO) == EmptySelection(DD, OO) \/ ~SomeObs(DD)
NoCtx == [T |-> <<>>, L |-> <<>>, S |-> <<>>, G |-> {}, n |-> 0, adj |-> <<>>, pos |-> <<>>]
GoodReqs(X) == {r \in Requests(X.n) : ReqOk(X, r)}

EnsThr == <<19150, 29150>>
EnsProbD(vals, t) == LET ok == SelectSeq(vals, LAMBDA v : ~IsNaN(v)) IN
                     IF ok = <<>> THEN NaN ELSE Frac(Cardinality({k \in DOMAIN ok : Le(ok[k], t)}), Len(ok))
Emit(X) ==
  LET rseq == SetToSeq(GoodReqs(X))
  IN  PrintT(ToJson([fam |-> Family,
                     inputs |-> [j \in DOMAIN D.inputs |-> InputJson(D.inputs[j])],
                     hasClim |-> D.hasClim, clim |-> InputJson(D.clim), climType |-> D.climType,
                     opts |-> OptJson(O),
                     err |-> X.n = 0,
                     times |-> CommonTimes(D, O), leads |-> CommonLeads(D, O), locs |-> CommonLocs(D, O),    \* per dimension, also when the selection is empty
                     axes |-> IF X.n = 0 THEN <<>> ELSE LET as == SetToSeq(MenuAxes \ {"all"}) IN [m \in DOMAIN as |-> [a |-> as[m], keys |-> SliceKeys(X, as[m])]],
                     \* family C15Ens: the event probabilities derived from the (pre-aggregated) ensemble members, per input, on the verified grid
                     ensprob |-> IF Family = "C15Ens" /\ X.n > 0
                                 THEN [j \in 1..X.n |-> [thr \in DOMAIN EnsThr |-> [m \in DOMAIN X.cells |->
                                         J(EnsProbD(<<X.adj[j, "e0", X.cells[m]], X.adj[j, "e1", X.cells[m]], X.adj[j, "e2", X.cells[m]]>>, R(EnsThr[thr])))]]]
                                 ELSE <<>>,
                     ensthr |-> EnsThr,
                     req |-> [k \in DOMAIN rseq |-> ReqJson(X, rseq[k])]]))

Init == gen \in Universe(0) /\ phase = "generated" /\ ctx = NoCtx
Evaluate ==
  /\ phase = "generated" /\ phase' = "evaluated" /\ gen' = gen
  /\ ctx' = IF Err(D, O) THEN NoCtx ELSE Context(D, O)
  /\ Emit(ctx')
Next == Evaluate
Spec == Init /\ [][Next]_vars

---------------------------------------------------------------------------
(* Theorems of the abstract semantics on every enumerated dataset (ctx.n = 0: nothing to score) *)
ObsReqs(X) == {r \in GoodReqs(X) : \E k \in DOMAIN r.fields : r.fields[k] = "obs"}
InvSameCases == SameCases(ctx, GoodReqs(ctx))
InvSameObs   == SameObs(ctx, ObsReqs(ctx))
\* Under -T the observations an input is scored against are the windows over ITS OWN grid: inputs with their own observations on
\* DIFFERENT grids are then scored against different aggregated observations (TLC's counterexample: lead times {0,12,24,36} next to
\* {0,12,36}, -T 24: the window ending at 36 h holds two values in one file and one in the other).  SameObs is a theorem of the
\* composed specification only for inputs that list the same values along the -T axis.
SameTGrid == \A j, k \in DOMAIN D.inputs : (D.inputs[j].hasObs /\ D.inputs[k].hasObs) =>
                IF O.T[3] = "leadtime" THEN Elems(D.inputs[j].leads) = Elems(D.inputs[k].leads) ELSE Elems(D.inputs[j].times) = Elems(D.inputs[k].times)
InvSameObsT  == ("T" \in O.given /\ SameTGrid) => SameObs(ctx, ObsReqs(ctx))
InvDims      == DimsWellFormed(ctx)
InvPartition == \A a \in MenuAxes : Partition(ctx, a)
\* C01 non-interference, as a two-copy property: bump every non-missing forecast of input k
Bump(g, k) == [g EXCEPT !.inp[k].bump = 7]
InvNonInterference ==
  ctx.n = 0 \/
  \A k \in 1..ctx.n :
     LET X2 == Context(DsOf(Bump(gen, k)), O)
     IN  \A r \in GoodReqs(ctx) : r.inp # k => Scores(X2, r) = Scores(ctx, r)
\* C14: for obs-fcst differences, "-c X" equals "X given as an additional input" (same cases, same differences)
InvShiftEquiv ==
  (ctx.n = 0 \/ ~D.hasClim \/ D.climType # "subtract") \/
  LET D2 == [D EXCEPT !.inputs = Append(D.inputs, D.clim), !.hasClim = FALSE]
      X2 == Context(D2, O)
  IN  /\ ctx.T = X2.T /\ ctx.L = X2.L /\ ctx.S = X2.S
      /\ \A r \in {q \in GoodReqs(ctx) : q.fields = <<"obs", "fcst">>} :
            /\ Cases(ctx, r) = Cases(X2, r)
            /\ \A c \in Cases(ctx, r) : Sub(ctx.adj[r.inp, "obs", c], ctx.adj[r.inp, "fcst", c])
                                           = Sub(X2.adj[r.inp, "obs", c], X2.adj[r.inp, "fcst", c])
\* the climatology is never a scored input
InvClimNeverScored == ctx.n = 0 \/ ctx.n = Len(D.inputs)
\* ---- witnesses against vacuity (tools/vacuity.py): each is the NEGATION of a lemma's antecedent and must be VIOLATED by some enumerated case ----
W_SameTGrid == ~("T" \in O.given /\ SameTGrid /\ Cardinality({j \in DOMAIN D.inputs : D.inputs[j].hasObs}) >= 2)
W_DifferentTGrid == ~("T" \in O.given /\ ~SameTGrid)
W_Shift == ~(ctx.n > 0 /\ D.hasClim /\ D.climType = "subtract")
W_ObsBorrowed == ~(ctx.n > 1 /\ \E j \in DOMAIN D.inputs : ~D.inputs[j].hasObs)
\* universe coverage (the circumstances the seeded changes needed)
W_UnsortedTimes == ~(\E j \in DOMAIN D.inputs : ~IsSortedUnique(D.inputs[j].times) /\ Len(D.inputs[j].times) >= 2)
W_DifferentOrders == ~(Len(D.inputs) >= 2 /\ D.inputs[1].locs # D.inputs[2].locs /\ Elems(D.inputs[1].locs) = Elems(D.inputs[2].locs))
W_EmptySelection == ~EmptySelection(D, O)
W_StrictSubset == ~(~EmptySelection(D, O) /\ O.given # {} /\ Len(ctx.T) * Len(ctx.L) * Len(ctx.S) < Len(Context(D, NoOptions).T) * Len(Context(D, NoOptions).L) * Len(Context(D, NoOptions).S))
W_ObsRangeMasks == ~("obsrange" \in O.given /\ ctx.n >= 2 /\ \E c \in ctx.G : IsNaN(ctx.adj[2, "obs", c]) /\ ~IsNaN(Context(D, NoOptions).adj[2, "obs", c]))
W_RelativelyClose == ~(\E a, b \in Elems(ctx.T) : a # b /\ Abs(a - b) <= 3600)
W_ExtraFieldMissing == ~(ctx.n >= 2 /\ \E c \in ctx.G : "q0.01" \in FieldsOf(D) /\ IsNaN(ctx.adj[1, "q0.01", c]) /\ ~IsNaN(ctx.adj[1, "obs", c]))
W_EnsembleUnderT == ~(Family = "C15Ens" /\ "T" \in O.given /\ ctx.n = 2)
\* (C11Two) a run common to both files sits at different positions in them
W_CommonRunAtDifferentPositions == ~(Len(D.inputs) >= 2 /\ \E t \in Elems(ctx.T) : IndexIn(D.inputs[1].times, t) # IndexIn(D.inputs[2].times, t))
W_SelectionRemovesTimes == ~(O.given \cap {"d", "tod"} # {} /\ ctx.n > 0 /\ Len(ctx.T) < Len(Context(D, NoOptions).T) /\ Len(ctx.T) >= 2)
=============================================================================
