SPECIFICATION Spec
CONSTANT Kind = "acc"
INVARIANT InvAccIsPreAgg
INVARIANT InvCdfMonotone
INVARIANT InvPitRange
INVARIANT InvExpandSound
CHECK_DEADLOCK FALSE
