---------------------------- MODULE MC_ProbDiagrams ----------------------------
(* C16 (second tranche): two inputs with cumulative probabilities at the         *)
(* thresholds 1 and 2 and PIT values on 12 cases, patterns chosen so that         *)
(* several probability bins hold at least five cases and so that probabilities    *)
(* 0, 1/2 and 1 occur; reliability, discrimination, ROC, marginal, PIT histogram. *)
EXTENDS Diagrams, KnownFindings, Json, SequencesExt
CONSTANT Only            \* "all", or the one diagram to enumerate
VARIABLES g, d, phase
vars == <<g, d, phase>>
J(x) == IF IsNaN(x) THEN "nan" ELSE IF IsInf(x) THEN "inf" ELSE IF x[2] = 1 THEN x[1] ELSE x
N12 == 12
ObsPat(k) == IF k = 1 THEN <<0, 0, 2, 0, 1, 3, 0, 1, 2, 3, 1, 0>> ELSE IF k = 2 THEN <<3, 2, 2, 0, 1, 1, 0, 3, 2, 3, 1, 2>> ELSE <<0, 0, 0, 0, 0, 0, 0, 0, 0, 0, 0, 0>>
CdfPat(k) ==     \* cumulative probability at threshold 1 (eighths)
  IF k = 1 THEN <<0, 0, 0, 0, 0, 0, 4, 4, 4, 4, 4, 8>>
  ELSE IF k = 2 THEN <<1, 1, 1, 1, 1, 7, 7, 7, 7, 7, 7, 4>>
  ELSE <<8, 8, 8, 8, 8, 8, 0, 0, 0, 0, 0, 4>>
Cdf2(c) == IF c + 2 > 8 THEN 8 ELSE c + 2                          \* at threshold 2: a little more
Gens == {[obs |-> o, c |-> <<a, b>>, miss |-> m] : o \in 1..3, a \in 1..3, b \in 1..3, m \in BOOLEAN}
ObsOf(x) == [k \in 1..N12 |-> IF x.miss /\ k = 3 THEN NaN ELSE R(ObsPat(x.obs)[k])]
C1(x, i) == [k \in 1..N12 |-> Frac(CdfPat(x.c[i])[k], 8)]
C2(x, i) == [k \in 1..N12 |-> Frac(Cdf2(CdfPat(x.c[i])[k]), 8)]
PitOf(x, i) == [k \in 1..N12 |-> Frac((CdfPat(x.c[i])[k] + k) % 9, 8)]
\* deterministic forecast and the quantiles 0.1 / 0.5 / 0.9 (third tranche): spreads between 2 and 5, forecast errors 0..2
QMid(x, i)  == [k \in 1..N12 |-> R((ObsPat(x.obs)[k] + CdfPat(x.c[i])[k]) % 4)]
QLow(x, i)  == [k \in 1..N12 |-> Sub(QMid(x, i)[k], R(1 + (k % 2)))]
QHigh(x, i) == [k \in 1..N12 |-> Add(QMid(x, i)[k], R(1 + (k % 3)))]
FcstOf(x, i) == [k \in 1..N12 |-> Add(QMid(x, i)[k], Frac(k % 3, 2))]
QCases(x, i) == SelectSeq([k \in 1..N12 |-> <<ObsOf(x)[k], FcstOf(x, i)[k], QLow(x, i)[k], QMid(x, i)[k], QHigh(x, i)[k]>>], LAMBDA c : ~IsNaN(c[1]))
PCases(x, i, t) == [k \in 1..N12 |-> <<ObsOf(x)[k], IF t = 1 THEN C1(x, i)[k] ELSE C2(x, i)[k], One>>]
PE(x, i, bt, t) == EventPE(PCases(x, i, t), bt, R(t), R(t))
Variants == {[diagram |-> "reliability", bt |-> b, argv |-> <<"-m", "reliability", "-r", "1", "-b", b>>] : b \in {"below=", "above", "below", "above="}}
       \cup {[diagram |-> "discrimination", bt |-> b, argv |-> <<"-m", "discrimination", "-r", "1", "-b", b>>] : b \in {"below=", "above", "above="}}
       \cup {[diagram |-> "roc", bt |-> b, argv |-> <<"-m", "roc", "-r", "1", "-b", b>>] : b \in {"below=", "above", "above="}}
       \cup {[diagram |-> "marginal", bt |-> b, argv |-> <<"-m", "marginal", "-r", "1,2", "-b", b>>] : b \in {"below=", "above", "above="}}
       \cup {[diagram |-> "pithist", bt |-> "none", argv |-> <<"-m", "pithist">>]}
       \* third tranche
       \cup {[diagram |-> x, bt |-> b, argv |-> <<"-m", x, "-r", "1", "-b", b>>] : x \in {"murphy", "economicvalue", "bsdecomp", "igncontrib"}, b \in {"below=", "above", "above="}}
       \cup {[diagram |-> "invreliability", bt |-> "none", argv |-> <<"-m", "invreliability", "-q", "0.5", "-r", "0,1,2,3,4">>]}
       \cup {[diagram |-> "spreadskill", bt |-> "none", argv |-> <<"-m", "spreadskill", "-r", "1,2,3,4,5">>]}
       \cup {[diagram |-> "meteo", bt |-> "none", argv |-> <<"-m", "meteo">>]}
       \* the obs/fcst diagram with quantile lines: per location (one case each) the observation, every input's forecast and, for each
       \* requested level, every input's quantile -- each series under the name of the input it belongs to
       \cup {[diagram |-> "obsfcst", bt |-> "none", argv |-> <<"-m", "obsfcst", "-x", "location", "-q", q>>] : q \in {"0.1,0.9", "0.5", "0.9,0.5,0.1"}}
S(label, x, y) == [label |-> label, x |-> x, y |-> y]
SeriesFor(x, v, closedLast) ==
  CASE v.diagram = "reliability" -> [i \in 1..2 |-> LET r == ReliabilityXY(PE(x, i, v.bt, 1), 5, closedLast) IN S(InputLabel(i), r.x, r.y)]
    [] v.diagram = "discrimination" -> [n \in 1..4 |-> LET i == ((n - 1) \div 2) + 1  outcome == IF n % 2 = 1 THEN Zero ELSE One IN
                                          S(<<"#bars", i, IF outcome = One THEN " observed" ELSE " not observed">>, <<>>, DiscriminationY(PE(x, i, v.bt, 1), outcome, closedLast))]
    [] v.diagram = "roc" -> [i \in 1..2 |-> LET r == RocXY(PE(x, i, v.bt, 1)) IN S(InputLabel(i), r.x, r.y)]
    [] v.diagram = "marginal" -> [i \in 1..2 |-> S(InputLabel(i), <<Q(R(1)), Q(R(2))>>, MarginalY(<<PE(x, i, v.bt, 1), PE(x, i, v.bt, 2)>>))]
                                 \o <<S("obs", <<Q(R(1)), Q(R(2))>>, MarginalObsY(<<PE(x, 2, v.bt, 1), PE(x, 2, v.bt, 2)>>))>>
    [] v.diagram = "pithist" -> [i \in 1..2 |-> S(<<"#bars", i, "">>, <<>>, PitHistY(PitOf(x, i)))]
    [] v.diagram = "murphy" -> [i \in 1..2 |-> LET r == MurphyXY(PE(x, i, v.bt, 1)) IN S(InputLabel(i), r.x, r.y)]
    [] v.diagram = "economicvalue" -> [i \in 1..2 |-> LET r == EconomicXY(PE(x, i, v.bt, 1)) IN S(InputLabel(i), r.x, r.y)]
    [] v.diagram = "bsdecomp" -> [i \in 1..2 |-> LET r == BsDecompXY(PE(x, i, v.bt, 1)) IN S(InputLabel(i), r.x, r.y)]
    [] v.diagram = "igncontrib" -> [i \in 1..2 |-> LET r == IgnContribXY(PE(x, i, v.bt, 1)) IN S(InputLabel(i), r.x, r.y)]
    [] v.diagram = "invreliability" -> [i \in 1..2 |-> LET r == InvReliabilityXY(QCases(x, i), [k \in 1..5 |-> R(k - 1)]) IN S(InputLabel(i), r.x, r.y)]
    [] v.diagram = "spreadskill" -> [i \in 1..2 |-> LET r == SpreadSkillXY(QCases(x, i), [k \in 1..5 |-> R(k)]) IN S(InputLabel(i), r.x, r.y)]
    [] v.diagram = "obsfcst" ->
         LET xs == [k \in 1..N12 |-> Q(R(k))]
             vis(s) == [k \in 1..N12 |-> IF IsNaN(ObsOf(x)[k]) \/ IsNaN(s[k]) THEN NaNE ELSE Q(s[k])]
             levels == IF v.argv[6] = "0.1,0.9" THEN <<1, 3>> ELSE IF v.argv[6] = "0.5" THEN <<2>> ELSE <<3, 2, 1>>
             qname(l) == IF l = 1 THEN " 10%" ELSE IF l = 2 THEN " 50%" ELSE " 90%"
             qof(i, l) == IF l = 1 THEN QLow(x, i) ELSE IF l = 2 THEN QMid(x, i) ELSE QHigh(x, i)
         IN  <<S("obs", xs, [k \in 1..N12 |-> IF IsNaN(ObsOf(x)[k]) \/ IsNaN(FcstOf(x, 1)[k]) THEN NaNE ELSE Q(ObsOf(x)[k])])>> \o [i \in 1..2 |-> S(InputLabel(i), xs, vis(FcstOf(x, i)))]
             \o [n \in 1..(2 * Len(levels)) |-> LET l == levels[((n - 1) \div 2) + 1]  i == ((n - 1) % 2) + 1 IN S(<<"#", i, qname(l)>>, xs, vis(qof(i, l)))]
    \* meteo takes a single input (the first): at the only lead time, the means over the locations of the observations, the forecasts
    \* (each over its own valid cases) and the three quantiles
    [] v.diagram = "meteo" -> LET day == <<Q(Frac(1325376000, 86400))>>  valid(s) == SelectSeq(s, LAMBDA w : ~IsNaN(w)) IN
         <<S("Observed", day, <<Q(MeanSeq(valid(ObsOf(x))))>>), S("Forecast", day, <<Q(MeanSeq(FcstOf(x, 1)))>>),
           S("10%", day, <<Q(MeanSeq(QLow(x, 1)))>>), S("50%", day, <<Q(MeanSeq(QMid(x, 1)))>>), S("90%", day, <<Q(MeanSeq(QHigh(x, 1)))>>)>>
InJ(x, i) == [obs |-> [k \in 1..N12 |-> J(ObsOf(x)[k])], c1 |-> [k \in 1..N12 |-> J(C1(x, i)[k])], c2 |-> [k \in 1..N12 |-> J(C2(x, i)[k])],
              pit |-> [k \in 1..N12 |-> J(PitOf(x, i)[k])], fcst |-> [k \in 1..N12 |-> J(FcstOf(x, i)[k])],
              q |-> [k \in 1..N12 |-> <<J(QLow(x, i)[k]), J(QMid(x, i)[k]), J(QHigh(x, i)[k])>>]]
Emit == PrintT(ToJson([diagram |-> d.diagram, argv |-> d.argv, files |-> IF d.diagram = "meteo" THEN 1 ELSE 2, inputs |-> <<InJ(g, 1), InJ(g, 2)>>,
                       series |-> SeriesFor(g, d, TRUE),
                       \* F-p1-bin: what the code draws when a probability of exactly 1 falls in no bin (last bin half-open)
                       impl |-> SeriesFor(g, d, FALSE)]))
Init == g \in Gens /\ d \in {v \in Variants : Only = "all" \/ v.diagram = Only} /\ phase = "case"
Evaluate == phase = "case" /\ phase' = "emitted" /\ UNCHANGED <<g, d>> /\ Emit
Next == Evaluate
Spec == Init /\ [][Next]_vars
InvEveryCaseInOneBin == \A i \in 1..2 : \A b \in {"below=", "above"} : EveryCaseInOneBin(PE(g, i, b, 1), RelEdges) /\ EveryCaseInOneBin(PE(g, i, b, 1), TenBins)
InvPitBins == \A i \in 1..2 : SumInts([b \in 1..10 |-> Cardinality({k \in 1..N12 : ProbBin(PitOf(g, i)[k]) = b})]) = N12
=============================================================================
