--------------------------------- MODULE Cli ---------------------------------
(* C13: the command line of verif, from the --help text.                        *)
(*  (a) vector syntax: comma lists of  a | a:b | a:step:b  (end point included,  *)
(*      negative steps, date ranges stepping by calendar days);                  *)
(*  (b) the option grammar as a function  Meaning(set of option groups, files);  *)
(*  (c) the argument loop as the code has it: a first pass that splices the      *)
(*      tokens of every --config file at the END of the argument list, then one  *)
(*      pass consuming flags (arity 0 or 1) and input files.                     *)
(*  TLC checks that (c) refines (b) for every order of the groups and every      *)
(*  split of them between command line and config file.                          *)
EXTENDS Rat, Calendar, TLC

---------------------------------------------------------------------------
(* (a) vector syntax *)
\* an item is [kind |-> "single", a] | [kind |-> "range", a, b] | [kind |-> "step", a, s, b] ; values are Rat
RECURSIVE Steps(_, _, _, _)
Steps(x, s, b, fuel) ==        \* x, x+s, ... while not past b (in the direction of s)
  IF fuel = 0 \/ (Gt(s, Zero) /\ Gt(x, b)) \/ (Lt(s, Zero) /\ Lt(x, b)) THEN <<>>
  ELSE <<x>> \o Steps(Add(x, s), s, b, fuel - 1)
ExpandItem(it) ==
  IF it.kind = "single" THEN <<it.a>>
  ELSE IF it.kind = "range" THEN Steps(it.a, One, it.b, 400)
  ELSE Steps(it.a, it.s, it.b, 400)
ItemOk(it) == it.kind # "step" \/ it.s # Zero            \* a zero step is rejected
RECURSIVE ExpandList(_)
ExpandList(items) == IF items = <<>> THEN <<>> ELSE ExpandItem(Head(items)) \o ExpandList(Tail(items))
\* date ranges step by calendar days (positive steps; YYYYMMDD integers)
RECURSIVE DateSteps(_, _, _, _)
DateSteps(d, s, last, fuel) == IF fuel = 0 \/ d > last THEN <<>> ELSE <<d>> \o DateSteps(AddDays(d, s), s, last, fuel - 1)
ExpandDateItem(it) ==
  IF it.kind = "single" THEN <<Num(it.a)>>
  ELSE DateSteps(Num(it.a), IF it.kind = "step" THEN Num(it.s) ELSE 1, Num(it.b), 400)
RECURSIVE ExpandDateList(_)
ExpandDateList(items) == IF items = <<>> THEN <<>> ELSE ExpandDateItem(Head(items)) \o ExpandDateList(Tail(items))
\* lemmas
EndPointIncluded(it) == (it.kind = "range" /\ Le(it.a, it.b) /\ Den(Sub(it.b, it.a)) = 1) => ExpandItem(it)[Len(ExpandItem(it))] = it.b
StepLemma(it) == (it.kind = "step" /\ it.s # Zero) =>
                    LET e == ExpandItem(it) IN
                    /\ \A k \in 1..(Len(e) - 1) : Sub(e[k + 1], e[k]) = it.s
                    /\ (e # <<>> => e[1] = it.a)
                    /\ \A k \in DOMAIN e : IF Gt(it.s, Zero) THEN Le(e[k], it.b) ELSE Ge(e[k], it.b)
DateLemma(it) == LET e == ExpandDateItem(it) IN
                 /\ \A k \in DOMAIN e : ValidYYYYMMDD(e[k])
                 /\ \A k \in 1..(Len(e) - 1) : DayFromYYYYMMDD(e[k + 1]) - DayFromYYYYMMDD(e[k]) = (IF it.kind = "step" THEN Num(it.s) ELSE 1)

---------------------------------------------------------------------------
(* (b), (c) the option grammar *)
Switches == {"-acc", "-hist", "-sort", "-simple", "-sp", "-a", "-nogrid", "-nomargin", "-xlog", "-ylog",
             "--list-times", "--list-dates", "--list-locations", "--list-thresholds", "--list-quantiles", "--version", "--help"}
ValueFlags == {"-m", "-x", "-agg", "-r", "-q", "-b", "-obs", "-fcst", "-c", "-C", "-T", "-Tagg", "-Tx", "-t", "-d", "-tod", "-o", "-l", "-lx",
               "-latrange", "-lonrange", "-elevrange", "-obsrange", "-leg", "-type", "-f", "--config",
               "-title", "-xlabel", "-ylabel", "-clabel", "-xlim", "-ylim", "-clim", "-xticks", "-yticks", "-xticklabels", "-yticklabels",
               "-xrot", "-yrot", "-lc", "-ls", "-lw", "-ma", "-ms", "-labfs", "-tickfs", "-titlefs", "-legfs", "-afs", "-legloc",
               "-gc", "-gs", "-gw", "-aspect", "-fs", "-dpi", "-left", "-right", "-top", "-bottom", "-pad", "-af", "-cmap", "-maptype", "-obsleg"}
IsFlag(tok) == tok \in Switches \cup ValueFlags \/ tok \in {"-zzz", "--unknown"}          \* (the generator's unknown flags)
Known(tok) == tok \in Switches \cup ValueFlags

\* the abstract result of parsing: which switches are on, the value token of every value flag, the files in order
Parsed == [switches : SUBSET Switches, values : [ValueFlags -> STRING], files : Seq(STRING)]
NoValue == "(unset)"
EmptyParse == [status |-> "ok", switches |-> {}, values |-> [f \in ValueFlags |-> NoValue], files |-> <<>>]

\* (b) the documented meaning of a SET of groups and a file list: independent of any order
\* a group is <<flag>> or <<flag, value>> ; duplicates do not occur (documented grammar: option subsets)
Meaning(groups, files) ==
  IF \E g \in groups : ~Known(g[1]) THEN [EmptyParse EXCEPT !.status = "error:unknown-flag"]
  ELSE IF \E g \in groups : g[1] \in ValueFlags /\ Len(g) = 1 THEN [EmptyParse EXCEPT !.status = "error:missing-value"]
  ELSE [status |-> "ok", switches |-> {g[1] : g \in {h \in groups : h[1] \in Switches}},
        values |-> [f \in ValueFlags |-> IF \E g \in groups : g[1] = f THEN (CHOOSE g \in groups : g[1] = f)[2] ELSE NoValue],
        files |-> files]

\* (c) the loop.  cfgs: config file name -> its token sequence
RECURSIVE ConfigTokens(_, _, _)
ConfigTokens(argv, i, cfgs) ==
  IF i > Len(argv) THEN <<>>
  ELSE IF argv[i] = "--config" /\ i < Len(argv) THEN cfgs[argv[i + 1]] \o ConfigTokens(argv, i + 2, cfgs)
  ELSE ConfigTokens(argv, i + 1, cfgs)
Spliced(argv, cfgs) == argv \o ConfigTokens(argv, 1, cfgs)          \* pass 1: config tokens go to the END
\* pass 2, one step: the token group at position i is consumed; returns the next position and the updated result
StepAt(argv, i, acc) ==
  LET tok == argv[i] IN
  IF tok \in Switches THEN [i |-> i + 1, acc |-> [acc EXCEPT !.switches = @ \cup {tok}]]
  ELSE IF tok \in ValueFlags
       THEN IF i = Len(argv) THEN [i |-> i + 1, acc |-> [acc EXCEPT !.status = "error:missing-value"]]
            ELSE [i |-> i + 2, acc |-> IF tok = "--config" THEN acc ELSE [acc EXCEPT !.values[tok] = argv[i + 1]]]
  ELSE IF IsFlag(tok) THEN [i |-> i + 1, acc |-> [acc EXCEPT !.status = IF i = Len(argv) THEN "error:missing-value" ELSE "error:unknown-flag"]]
  ELSE [i |-> i + 1, acc |-> [acc EXCEPT !.files = Append(@, tok)]]
RECURSIVE Consume(_, _, _)
Consume(argv, i, acc) ==                                            \* pass 2: one token group per step
  IF i > Len(argv) \/ acc.status # "ok" THEN acc
  ELSE LET st == StepAt(argv, i, acc) IN Consume(argv, st.i, st.acc)
Loop(argv, cfgs) == Consume(Spliced(argv, cfgs), 1, EmptyParse)

\* flatten a sequence of groups into tokens
RECURSIVE Flatten(_)
Flatten(gs) == IF gs = <<>> THEN <<>> ELSE Head(gs) \o Flatten(Tail(gs))
SameOutcome(a, b) == a.status = b.status /\ (a.status = "ok" => (a.switches = b.switches /\ a.values = b.values /\ a.files = b.files))
\* every order of the groups (files keep their relative order) means the same
OrderIndependent(groupSeq, files) ==
  LET gset == {groupSeq[k] : k \in DOMAIN groupSeq}
      fileGroups == [k \in DOMAIN files |-> <<files[k]>>]
  IN  SameOutcome(Loop(Flatten(groupSeq \o fileGroups), <<>>), [Meaning(gset, files) EXCEPT !.values["--config"] = NoValue])
\* moving any subset of option groups into a config file changes nothing
ConfigEquivalent(inline, inConfig, files) ==
  LET fileGroups == [k \in DOMAIN files |-> <<files[k]>>]
      argvA == Flatten(inline \o inConfig \o fileGroups)
      argvB == Flatten(inline \o <<<<"--config", "cfg1">>>> \o fileGroups)
  IN  SameOutcome(Loop(argvA, <<>>), Loop(argvB, [n \in {"cfg1"} |-> Flatten(inConfig)]))
=============================================================================
