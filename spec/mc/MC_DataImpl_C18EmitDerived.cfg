SPECIFICATION Spec
CONSTANTS Family = "C18Derived"
          MaxLen = 2
          EmitLeaves = TRUE
          CopyOnAll = TRUE
INVARIANT HistoryIndependent
INVARIANT EarlierUnaltered
INVARIANT CacheCoherent
PROPERTY CacheGrows
CHECK_DEADLOCK FALSE
