"""C07 Event definitions. Spec: Events.tla (documented definition by cases, interval formulation, binary thresholding,
event probability from the CDF; partition / complement / NaN / agreement lemmas checked by TLC on every placement of a
value relative to the thresholds, and the order core by Apalache over unbounded integers in the thorough tier).
Conformance: every TLC case replayed into Interval.within (scalar and array), util.get_intervals, util.apply_threshold,
util.apply_threshold_prob."""
import math
import os
import subprocess
import shutil

from harness import tlc, par, core
from harness.materialize import num
from harness.dsreplay import quiet, exc_site, close


def _check_chunk(cases):
    import numpy as np
    import verif.util
    import verif.interval
    n = 0
    divs = []

    def bad(site, detail, c):
        divs.append((site, detail, {"kind": "event", "case": c}))

    for c in cases:
        try:
            with quiet():
                if c["kind"] == "prob":
                    got = verif.util.apply_threshold_prob(np.array([num(c["c1"])]), c["bt"], np.array([num(c["c2"])]))
                    n += 1
                    if not close(float(got[0]), num(c["p"])):
                        bad("apply_threshold_prob", "bin type %s cdf %r,%r: expected %r observed %r" % (c["bt"], c["c1"], c["c2"], num(c["p"]), float(got[0])), c)
                    continue
                x = num(c["x"])
                ths = np.array([num(t) for t in c["ths"]], float)
                ivs = verif.util.get_intervals(c["bt"], ths)
                n += 1
                if len(ivs) != c["nint"]:
                    bad("get_intervals:count", "%s %r: expected %d intervals, got %d" % (c["bt"], c["ths"], c["nint"], len(ivs)), c)
                    continue
                for k, e in enumerate(c["ivs"]):
                    iv = ivs[k]
                    n += 3
                    if float(iv.lower) != num(e["lo"]) or float(iv.upper) != num(e["hi"]):
                        bad("get_intervals:bounds", "%s %r interval %d: expected (%r,%r) got (%r,%r)" % (c["bt"], c["ths"], k, e["lo"], e["hi"], iv.lower, iv.upper), c)
                    s = iv.within(x)
                    arr = iv.within(np.array([x, x], float))
                    if e["member"] == "nan":
                        ok_s = isinstance(s, float) and math.isnan(s)
                        ok_a = bool(np.all(np.ma.getmaskarray(arr)))
                    else:
                        ok_s = bool(s) == bool(e["member"]) and not (isinstance(s, float) and math.isnan(s))
                        ok_a = (not np.any(np.ma.getmaskarray(arr))) and all(bool(v) == bool(e["member"]) for v in np.ma.getdata(arr))
                    site = "Interval.within"
                    if math.isinf(x) and e["member"] != e["memberImpl"]:
                        # recorded finding: matches only if BOTH forms return exactly what In_AsImplemented predicts
                        imp_s = bool(s) == bool(e["memberImpl"])
                        imp_a = (not np.any(np.ma.getmaskarray(arr))) and all(bool(v) == bool(e["memberImpl"]) for v in np.ma.getdata(arr))
                        if imp_s and imp_a:
                            site = "Interval.within:infinite-value"
                    if not ok_s:
                        bad(site, "%s thresholds %r interval %d, scalar x=%r: expected %r observed %r" % (c["bt"], c["ths"], k, c["x"], e["member"], s), c)
                    if not ok_a:
                        bad(site, "%s thresholds %r interval %d, array x=%r: expected %r observed %r" % (c["bt"], c["ths"], k, c["x"], e["member"], arr), c)
                    if not close(float(iv.center), num(e["center"])):
                        bad("Interval.center", "%s %r interval %d: expected %r observed %r" % (c["bt"], c["ths"], k, e["center"], iv.center), c)
                # contingency tables: a pair with a missing member belongs to no cell; (x, x) falls in `hit` or `correct rejection`
                if c["ivs"]:
                    import verif.metric
                    e = c["ivs"][0]
                    obs3 = np.array([x, x, np.nan, np.nan], float)
                    fc3 = np.array([x, np.nan, x, np.nan], float)
                    tab = [0 if np.ma.is_masked(v) else int(v) for v in verif.metric.Ets()._compute_abcd(obs3, fc3, ivs[0])]
                    want = [0, 0, 0, 0] if e["member"] == "nan" else [int(e["member"]), 0, 0, 1 - int(e["member"])]
                    n += 1
                    if tab != want and not math.isinf(x):
                        bad("contingency-table", "%s thresholds %r, pairs (x,x),(x,nan),(nan,x),(nan,nan) with x=%r: expected table %r observed %r"
                            % (c["bt"], c["ths"], c["x"], want, tab), c)
                if c["binary"] != "na":
                    t1 = num(c["ths"][0])
                    t2 = num(c["ths"][1]) if len(c["ths"]) > 1 else None
                    arr = np.array([x, x], float)
                    got = verif.util.apply_threshold(arr, c["bt"], t1, t2)
                    n += 1
                    if not all(close(float(g), num(c["binary"])) for g in got):
                        bad("apply_threshold", "%s thresholds %r x=%r: expected %r observed %r" % (c["bt"], c["ths"], c["x"], c["binary"], got.tolist()), c)
                    # the same array again (verif.data hands out its cached arrays): the second answer is the same event of the same values
                    again = verif.util.apply_threshold(arr, c["bt"], t1, t2)
                    n += 1
                    if not all(close(float(g), num(c["binary"])) for g in again):
                        bad("apply_threshold:second-call", "%s thresholds %r x=%r: the second evaluation of the same array gives %r, expected %r"
                            % (c["bt"], c["ths"], c["x"], again.tolist(), c["binary"]), c)
        except SystemExit:
            bad("event:error-exit", "case %r ended in an error exit" % (c,), c)
        except Exception as e:
            bad(exc_site(e), "case %r: %r" % (c, e), c)
    return n, divs


def _apalache(ctx):
    """unbounded-Int proof of the order lemmas at specification level"""
    out = os.path.join(core.BUILD, "apalache")
    shutil.rmtree(out, ignore_errors=True)
    os.makedirs(out)
    shutil.copy(os.path.join(core.ROOT, "spec", "mc", "MC_EventsInt.tla"), out)
    p = subprocess.run(["timeout", "300", "apalache-mc", "check", "--init=Init", "--next=Next", "--inv=Lemmas", "--length=1",
                        "--out-dir=" + os.path.join(out, "o"), "MC_EventsInt.tla"], cwd=out, stdout=subprocess.PIPE,
                       stderr=subprocess.STDOUT, text=True)
    ok = "The outcome is: NoError" in p.stdout
    ctx.extra["apalache_events_int"] = {"outcome": "NoError" if ok else "not proved", "cmd": "apalache-mc check --inv=Lemmas --length=1 MC_EventsInt.tla"}
    shutil.rmtree(out, ignore_errors=True)
    if not ok:
        raise tlc.TlcFailure("Apalache did not prove the Events order lemmas:\n" + p.stdout[-2000:])


def run(ctx):
    ctx.rule = ("case = (bin type, non-decreasing threshold list of length 1-3, value placed below/at/between/above the thresholds, "
                "NaN, -inf, +inf) or (bin type, pair of cumulative probabilities); non-trivial = value equals a threshold, or is NaN/infinite")
    ctx.assumptions = ["thresholds are finite"]
    res = tlc.run("MC_Events", "MC_Events", tag=ctx.pid + "_events", timeout_s=600)
    ctx.add_tlc("MC_Events", res)
    cases = res.emitted
    chunks = [cases[i:i + 100] for i in range(0, len(cases), 100)]
    for n, divs in par.pmap(_check_chunk, chunks, chunk=1):
        ctx.evaluations += n
        for site, detail, rep in divs:
            ctx.diverge(site, rep, as_implemented=(site == "Interval.within:infinite-value"), detail=detail)
    ctx.traces += len(cases)
    for c in cases:
        if c["kind"] == "member" and (c["x"] in ("nan", "inf", "-inf") or c["x"] in c["ths"]):
            ctx.nontriv(str((c["bt"], c["ths"], c["x"])))
    ctx.sample(cases[7])
    ctx.sample(cases[-3])
    ctx.exhaustive = True
    # frequency and histogram counts agree on the same events: the hist and freq diagrams of Diagrams.tla (C16's generator and projection)
    from harness.checks import c16
    res2 = tlc.run("MC_Diagrams", "MC_Diagrams_C12", tag=ctx.pid + "_diagrams", timeout_s=1500)
    ctx.add_tlc("MC_Diagrams/C12 (hist, freq)", res2)
    hcases = [c for c in res2.emitted if c["diagram"] in ("hist", "freq")]
    for n, divs in par.pmap(c16._check_chunk, [hcases[i:i + 6] for i in range(0, len(hcases), 6)], chunk=1):
        ctx.evaluations += n
        for site, detail, rep in divs:
            ctx.diverge(site, rep, detail=detail)
    ctx.traces += len(hcases)
    # event probabilities derived from ensemble members: a member ON the threshold belongs to the event "at or below"
    from harness.checks import c08
    c08._run(ctx, "ens", "small", limit=(400 if ctx.tier == "quick" else None))
    # the observed event behind the probabilistic scores (Brier family, ignorance): the same eight events, closed ends included
    c08._run(ctx, "event", "small", limit=(400 if ctx.tier == "quick" else None))
    # the event "the observation lies between two quantiles" (quantile coverage): each end closed as -b says (after seed C07-h)
    c08._run(ctx, "quant", "small", limit=(400 if ctx.tier == "quick" else None))
    par.clean_workdirs()
    if ctx.tier == "thorough":
        _apalache(ctx)


def replay(ctx, rep):
    n, divs = _check_chunk([rep["case"]])
    for site, detail, r in divs:
        ctx.diverge(site, r, detail=detail)
    print("replay: %d divergence(s)" % len(divs))
    return 1 if divs else 0
