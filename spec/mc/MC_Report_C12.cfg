SPECIFICATION Spec
CONSTANT Family = "C12"
INVARIANT InvShape
INVARIANT InvAcc
CHECK_DEADLOCK FALSE
