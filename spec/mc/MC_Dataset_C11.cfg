SPECIFICATION Spec
CONSTANT Family = "C11"
INVARIANT InvSameCases
INVARIANT InvSameObs
INVARIANT InvDims
INVARIANT InvPartition
INVARIANT InvNonInterference
CHECK_DEADLOCK FALSE
