SPECIFICATION Spec
CONSTANT Family = "C03K1"
INVARIANT InvSameCases
INVARIANT InvSameObs
INVARIANT InvDims
INVARIANT InvPartition
INVARIANT InvNonInterference
CHECK_DEADLOCK FALSE
