SPECIFICATION Spec
CONSTANT Family = "C01Mid"
INVARIANT InvSameCases
INVARIANT InvSameObs
INVARIANT InvDims
INVARIANT InvPartition
INVARIANT InvNonInterference
CHECK_DEADLOCK FALSE
