SPECIFICATION Spec
CONSTANT Universe = "full"
INVARIANT InvColumnOrder
INVARIANT InvRowOrder
INVARIANT InvIntended
INVARIANT InvLoopRefines
INVARIANT InvNoMass
CHECK_DEADLOCK FALSE
