"""C13 Command-line options mean what the help text says. Spec: Cli.tla (vector syntax with its lemmas; the option grammar as
Meaning(set of groups, files); the two-pass argument loop with --config splicing, checked by TLC to refine Meaning for every
order of the groups and every split with a config file) composed with Report.tla for the documented effect of the
selection / computation options. Conformance: every argv variant TLC emits is run through verif.driver.run on generated
files: exit status and error message class, the printed table against the expected one, and identical output across all
orders / config splits; vector syntax cases through util.parse_numbers."""
import os
import random

from harness import tlc, par, table, materialize as mat
from harness.materialize import num
from harness.dsreplay import quiet, exc_site
from harness.checks.c12 import run_verif


def _fmtnum(v):
    x = num(v)
    if x == int(x):
        return str(int(x))
    return ("%.6f" % x).rstrip("0").rstrip(".")


def render_items(items):
    out = []
    for it in items:
        if it["kind"] == "single":
            out.append(_fmtnum(it["a"]))
        elif it["kind"] == "range":
            out.append("%s:%s" % (_fmtnum(it["a"]), _fmtnum(it["b"])))
        else:
            out.append("%s:%s:%s" % (_fmtnum(it["a"]), _fmtnum(it["s"]), _fmtnum(it["b"])))
    return ",".join(out)


def _check_vec(cases):
    import verif.util
    n = 0
    divs = []
    for c in cases:
        text = render_items(c["items"])
        rep = {"kind": "vector", "text": text, "case": c}
        try:
            with quiet():
                got = verif.util.parse_numbers(text, c["date"])
            n += 1
            if not c["ok"]:
                divs.append(("vector:accepted-malformed", "'%s' must be rejected, parsed as %r" % (text, got), rep))
                continue
            want = [float(num(v)) if not isinstance(v, int) else float(v) for v in c["values"]]
            if len(got) != len(want) or any(abs(a - b) > 1e-6 for a, b in zip(got, want)):
                divs.append(("vector:values", "'%s'%s: expected %r observed %r" % (text, " (dates)" if c["date"] else "", want, [float(g) for g in got]), rep))
        except SystemExit:
            n += 1
            if c["ok"]:
                divs.append(("vector:rejected-wellformed", "'%s' was rejected" % text, rep))
        except Exception as e:
            divs.append((exc_site(e), "'%s': %r" % (text, e), rep))
    return n, divs


def _write_bad_nc(path, inp):
    """a NetCDF file with time, leadtime and location VARIABLES but the lead times on a dimension called `offset`: not the documented layout"""
    import netCDF4
    import numpy as np
    if os.path.exists(path):
        os.remove(path)             # a new file, also when a previous command line left the old one open
    f = netCDF4.Dataset(path, "w", format="NETCDF4")
    nt, nl, ns = len(inp["times"]), len(inp["leads"]), len(inp["locs"])
    f.createDimension("time", None)
    f.createDimension("offset", nl)
    f.createDimension("location", ns)
    f.createVariable("time", "f8", ("time",))[:] = np.array(inp["times"], float)
    f.createVariable("leadtime", "f4", ("offset",))[:] = np.array([mat.num(x) for x in inp["leads"]], float)
    f.createVariable("location", "i4", ("location",))[:] = np.array(inp["locs"], int)
    for name in ("obs", "fcst"):
        f.createVariable(name, "f4", ("time", "offset", "location"))[:] = np.array([0.0 if v == "nan" else mat.num(v) for v in inp[name]], float).reshape(nt, nl, ns)
    f.close()


def _check_cli(cases):
    import json as _json
    n = 0
    divs = []
    traces = []
    wd = par.workdir()
    hook = os.path.join(wd, "cli_hook.ndjson")
    paths = {"FILE1": os.path.join(wd, "FILE1"), "FILE2": os.path.join(wd, "FILE2"), "CLIM": os.path.join(wd, "CLIM"), "CLIM2": os.path.join(wd, "CLIM2"),
             "CFG": os.path.join(wd, "CFG"), "CFG2": os.path.join(wd, "CFG2"), "MISSINGFILE": os.path.join(wd, "does-not-exist"),
             "BADNCFILE": os.path.join(wd, "BADNCFILE")}
    written = None
    for c in cases:
        if written is None:
            from harness.dsreplay import with_extra
            mat.write_text(paths["FILE1"], with_extra(c["files"][0]))
            mat.write_text(paths["FILE2"], with_extra(c["files"][1]), row_order="reverse")
            mat.write_text(paths["CLIM"], c["clim"])
            mat.write_text(paths["CLIM2"], c["clim2"])
            _write_bad_nc(paths["BADNCFILE"], c["files"][0])
            written = True
        exp = c["expected"]
        outputs = []
        for v in c["variants"]:
            with open(paths["CFG"], "w") as f:
                f.write(" ".join(paths.get(t, t) for t in v["config"]) + "\n")
            with open(paths["CFG2"], "w") as f:
                f.write(" ".join(paths.get(t, t) for t in v.get("config2", [])) + "\n")
            argv = [paths.get(t, t) for t in v["argv"]]
            shown = " ".join(v["argv"]) + ((" [CFG: %s]" % " ".join(v["config"])) if v["config"] else "") + ((" [CFG2: %s]" % " ".join(v["config2"])) if v.get("config2") else "")
            rep = {"kind": "cli", "argv": v["argv"], "config": v["config"], "config2": v.get("config2", []), "expected": exp, "files": c["files"], "clim": c["clim"]}
            open(hook, "w").close()
            os.environ["VERIF_TLA_TRACE"] = hook
            try:
                status, text = run_verif(argv)
            finally:
                os.environ.pop("VERIF_TLA_TRACE", None)
            with open(hook) as hf:
                events = [_json.loads(x) for x in hf if x.strip()]
            traces.append({"argv": argv, "cfgname": paths["CFG"], "config": [paths.get(t, t) for t in v["config"]],
                           "cfgname2": paths["CFG2"], "config2": [paths.get(t, t) for t in v.get("config2", [])],
                           "events": [{k: ("(unset)" if val is None else val) for k, val in e.items()}
                                      for e in events if e["ev"] in ("CliSpliced", "Token", "Parsed", "ErrorExit")]} if events else {"nohooks": True})
            n += 1
            if status.startswith("exception"):
                site = status.split(" ")[0]
                divs.append((site, "%s -> %s (expected %s%s)" % (shown, status, exp["status"], ": " + exp["why"] if exp["why"] else ""), rep))
                continue
            clean = table.strip_warnings(text)
            if exp["status"] == "error":
                if status == "ok" or status in ("exit:0", "exit:None"):
                    divs.append(("cli:accepted:" + exp["why"].replace(" ", "-"), "%s must be rejected (%s) but ran: %r" % (shown, exp["why"], clean[:120]), rep))
                elif "Error" not in text:
                    divs.append(("cli:no-error-message", "%s exited with %s without an error message" % (shown, status), rep))
                continue
            if exp["status"] == "empty":
                header, rows = table.parse(text, "csv")
                nums = [x for r in rows for x in r[-2:] if x not in ("nan", "")]
                if "-acc" in v["argv"] + v["config"] + v.get("config2", []):
                    nums = [x for x in nums if _isnum(x) and float(x) != 0]      # envelope: the running sum of no data is 0
                if status == "ok" and any(_isnum(x) for x in nums):
                    divs.append(("cli:number-from-empty-selection", "%s: selection leaves nothing but numbers were printed: %r" % (shown, clean[:200]), rep))
                continue
            if status != "ok":
                divs.append(("cli:rejected-wellformed", "%s -> %s %r" % (shown, status, clean[:160]), rep))
                continue
            header, rows = table.parse(text, "csv")
            msgs = table.compare(exp["table"], exp["legend"], header, rows, 6, exp["axis"])
            rep["observed"] = clean
            for msg in msgs[:2]:
                divs.append(("cli:table", "%s: %s" % (shown, msg), rep))
            outputs.append((shown, clean))
        if len(set(o for _, o in outputs)) > 1:
            a = outputs[0]
            b = [x for x in outputs if x[1] != a[1]][0]
            divs.append(("cli:order-dependent", "different output for two orders/splits of the same options:\n  %s\n  %s" % (a[0], b[0]),
                         {"kind": "cli", "a": a, "b": b, "files": c["files"], "clim": c["clim"]}))
    return n, divs, traces


def _isnum(x):
    try:
        v = float(x)
        return v == v
    except ValueError:
        return False


def _validate_loop_traces(ctx, recorded):
    """code -> spec: the recorded argument-loop events of every run are checked by TLC against Cli.tla (Trace_Cli); white box only"""
    import json as _json
    from harness import core
    traces = [t for t in recorded if not t.get("nohooks")]
    if len(traces) < len(recorded):
        ctx.note_drift("driver hooks absent or silent in %d of %d runs; loop trace validation skipped for them" % (len(recorded) - len(traces), len(recorded)))
    if not traces:
        return
    for k, t in enumerate(traces):
        t["id"] = k + 1
    os.makedirs(os.path.join(core.BUILD, "traces"), exist_ok=True)
    ok = set()
    BATCH = 20000      # one JSON file per batch: every TLC worker deserialises the whole file once
    for b in range(0, len(traces), BATCH):
        part = traces[b:b + BATCH]
        path = os.path.join(core.BUILD, "traces", "C13_cli_%d_%d.json" % (os.getpid(), b // BATCH))
        with open(path, "w") as f:
            _json.dump({"traces": [dict(t, id=k + 1) for k, t in enumerate(part)]}, f)
        res = tlc.run("Trace_Cli", "Trace_Cli", tag=ctx.pid + "_trace", workers=16, timeout_s=2400, env={"TRACE_FILE": path}, require_emit=False)
        ctx.add_tlc("Trace_Cli (%d recorded argument-loop traces)" % len(part), res)
        ok |= set(part[o["accept"] - 1]["id"] for o in res.emitted if "accept" in o)
        os.remove(path)
    ctx.extra["loop_traces_accepted_by_tlc"] = len(ok)
    ctx.extra["loop_traces_recorded"] = len(traces)
    for t in [t for t in traces if t["id"] not in ok][:3]:
        ctx.note_drift("the argument loop of this run is not a behaviour of Cli.tla: argv=%r config=%r events=%r"
                       % ([os.path.basename(a) for a in t["argv"]], [os.path.basename(a) for a in t["config"]], [(e["ev"], e.get("pos"), os.path.basename(str(e.get("token")))) for e in t["events"]][:12]))
    rest = len(traces) - len(ok) - 3
    if rest > 0:
        ctx.drift["(further loop traces with drift)"] = rest


def run(ctx):
    ctx.rule = ("case = a vector-syntax string | a set of <= K option groups (28 well-formed selection/computation groups, 17 malformed ones, "
                "a dangling flag) in every order, with files first/last/in the middle and every split with a --config file; "
                "non-trivial = at least two groups, or a malformed group, or a config split")
    ctx.assumptions = ["no flag is given twice; config files hold options, not input files", "date ranges have a positive step",
                       "-T is checked for order independence and rejection here; its numeric effect is C15's"]
    res = tlc.run("MC_Cli", "MC_Cli_vec", tag=ctx.pid + "_vec", timeout_s=900)
    ctx.add_tlc("MC_Cli/vec", res, {"Kind": "vec"})
    vec = res.emitted
    for n, divs in par.pmap(_check_vec, [vec[i:i + 100] for i in range(0, len(vec), 100)], chunk=1):
        ctx.evaluations += n
        for site, detail, rep in divs:
            ctx.diverge(site, rep, detail=detail)
    ctx.traces += len(vec)
    for c in vec:
        if c["date"] or c["items"][0]["kind"] != "single":
            ctx.nontriv(render_items(c["items"]))
    cfg = "MC_Cli_k2" if ctx.tier == "quick" else "MC_Cli_k3"
    res = tlc.run("MC_Cli", cfg, tag=ctx.pid + "_" + cfg, timeout_s=3000)
    ctx.add_tlc("MC_Cli/" + cfg, res, {"Kind": "cli"})
    cli = res.emitted
    if ctx.tier == "quick" and len(cli) > 260:
        rng = random.Random(ctx.seed)
        bad = [c for c in cli if c["expected"]["status"] != "ok"]
        ok = [c for c in cli if c["expected"]["status"] == "ok"]
        full = cli
        cli = rng.sample(bad, min(len(bad), 110)) + rng.sample(ok, min(len(ok), 150))
        # every option group takes part in at least three sampled command lines
        count = {}
        for c in cli:
            for g in c["groups"]:
                count[tuple(g)] = count.get(tuple(g), 0) + 1
        # the options that only act on a categorical score (-b, -r) are always also tried together with -m ets
        for c in full:
            gs = [tuple(g) for g in c["groups"]]
            if ("-m", "ets") in gs and any(g[0] in ("-b", "-r") for g in gs) and c not in cli:
                cli.append(c)
        # -agg names the statistic of the score's own per-case quantity: every (-m, -agg) pair of the menu is always tried (after seed C13-j)
        for c in full:
            gs = [tuple(g) for g in c["groups"]]
            if any(g[0] == "-m" for g in gs) and any(g[0] == "-agg" for g in gs) and c not in cli:
                cli.append(c)
        for c in full:
            need = [g for g in c["groups"] if count.get(tuple(g), 0) < 3]
            if need and c not in cli:
                cli.append(c)
                for g in c["groups"]:
                    count[tuple(g)] = count.get(tuple(g), 0) + 1
    recorded = []
    for n, divs, traces in par.pmap(_check_cli, [cli[i:i + 6] for i in range(0, len(cli), 6)], chunk=1):
        ctx.evaluations += n
        recorded += traces
        for site, detail, rep in divs:
            ctx.diverge(site, rep, detail=detail)
    _validate_loop_traces(ctx, recorded)
    for c in cli:
        ctx.traces += len(c["variants"])
        if len(c["groups"]) >= 2 or c["expected"]["status"] != "ok":
            ctx.nontriv(str(c["groups"]) + str(c["dangling"]))
    if cli:
        c = cli[len(cli) // 2]
        ctx.sample({"groups": c["groups"], "expected_status": c["expected"]["status"], "first_variants": c["variants"][:3]})
    ctx.sample({"vector": render_items(vec[len(vec) // 2]["items"]), "values": vec[len(vec) // 2]["values"]})
    ctx.exhaustive = ctx.tier != "quick"
    par.clean_workdirs()


def replay(ctx, rep):
    print("replay: %r -- re-run ./check C13 quick" % (rep.get("argv") or rep.get("text"),))
    return 0
