"""C03 Verified dimensions = intersection of inputs and the user's subset. Spec: Dataset.tla CommonTimes/Leads/Locs,
SelTime/SelLead/SelLoc, obsrange in Val; TLC enumerates all option sets of up to k options (each option with values that
select everything / a strict subset / range ends equal to a coordinate / nothing)."""
from harness import par
from harness.checks import dscommon

replay = dscommon.replay


def dsreplay_list_options():
    from harness import dsreplay
    return dsreplay.LIST_OPTIONS


def run(ctx):
    ctx.rule = ("one case = (two inputs in different orders with different coverage [+ climatology], one set of <= k subsetting "
                "options) x request menu; non-trivial = at least one option given")
    ctx.assumptions = ["initialisation times are whole hours; option values from the 4-value menus of MC_Dataset!OptMenu"]
    # code -> spec: the Data objects the repository's OWN tests build (its -t/-d/-tod/-l/-lx/-latrange/-lonrange/-obsrange fixtures): their
    # verified dimensions, their error exits (allowed only for an empty selection) and the arrays they return are validated by TLC
    from harness import repotests
    repotests.validate(ctx, thorough=ctx.tier != "quick")
    if ctx.tier == "quick":
        dscommon.run_family(ctx, "C03K2", fmt="text", nontrivial_fn=lambda o: bool(o["opts"]["given"]), cli_lists=250)
        dscommon.run_family(ctx, "C03ClimK1", fmt="text", nontrivial_fn=lambda o: bool(o["opts"]["given"]), cli_lists=40)
        dscommon.run_family(ctx, "C03K1", fmt="netcdf", nontrivial_fn=lambda o: bool(o["opts"]["given"]))
        # every input of ONE Data object in turn: a selection (-obsrange above all) holds for every input, not only for the first one asked
        dscommon.run_family(ctx, "C03K1", fmt="text", fresh=False, nontrivial_fn=lambda o: bool(o["opts"]["given"]))
        # text files that give the initialisation time as date + hour columns (runs at 06 UTC on several consecutive rows)
        dscommon.run_family(ctx, "C03K1", fmt="text", variant={"time_format": "datehour"}, nontrivial_fn=lambda o: bool(o["opts"]["given"]), cli_lists=40)
        # lead times that are not whole hours (every lead time divided by 8: 12 h becomes 1.5 h)
        dscommon.run_family(ctx, "C03K1", fmt="text", variant={"lead_scale": 0.125}, nontrivial_fn=lambda o: bool(o["opts"]["given"]))
        # list options spelled in another order with every value twice (-l 3,2,3,2), next to a second option (after seed C03-i: a station
        # named twice slipped past -elevrange)
        dscommon.run_family(ctx, "C03K2", fmt="text", variant={"opt_spelling": "repeat"}, nontrivial_fn=lambda o: True,
                            select_fn=lambda o: len(o["opts"]["given"]) == 2 and any(n in o["opts"]["given"] for n in dsreplay_list_options()))
        # -d with dates in December, March of a non-leap year and on a leap day, on files that store unix times (family C11Sel; after seed C03-j)
        dscommon.run_family(ctx, "C11Sel", fmt="netcdf", nontrivial_fn=lambda o: True)
        # a NetCDF file whose integer time variable has an unwritten (missing) last entry: a missing coordinate is no initialisation time
        dscommon.run_family(ctx, "C03K1", fmt="netcdf", variant={"nc_pad_time": True, "nc_missing": "fill"}, nontrivial_fn=lambda o: bool(o["opts"]["given"]))
    else:
        dscommon.run_family(ctx, "C03K3", fmt="text", nontrivial_fn=lambda o: bool(o["opts"]["given"]), timeout_s=1800)
        dscommon.run_family(ctx, "C03K2", fmt="netcdf", nontrivial_fn=lambda o: bool(o["opts"]["given"]), cli_lists=10000)
        dscommon.run_family(ctx, "C03ClimK2", fmt="text", nontrivial_fn=lambda o: bool(o["opts"]["given"]))
        dscommon.run_family(ctx, "C03K2", fmt="text", fresh=False, nontrivial_fn=lambda o: bool(o["opts"]["given"]))
        dscommon.run_family(ctx, "C03K2", fmt="text", variant={"time_format": "datehour"}, nontrivial_fn=lambda o: bool(o["opts"]["given"]), cli_lists=2000)
        dscommon.run_family(ctx, "C03K2", fmt="netcdf", variant={"lead_scale": 0.125}, nontrivial_fn=lambda o: bool(o["opts"]["given"]))
        dscommon.run_family(ctx, "C03K3", fmt="text", variant={"opt_spelling": "repeat"}, nontrivial_fn=lambda o: True, timeout_s=1800,
                            select_fn=lambda o: len(o["opts"]["given"]) >= 2 and any(n in o["opts"]["given"] for n in dsreplay_list_options()))
        dscommon.run_family(ctx, "C11Sel", fmt="netcdf", nontrivial_fn=lambda o: True)
        dscommon.run_family(ctx, "C11Sel", fmt="text", nontrivial_fn=lambda o: True, cli_lists=10)
        ctx.exhaustive = True
    par.clean_workdirs()
