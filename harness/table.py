"""Projection of verif's text / csv tables (pi_table) and their comparison with Report.tla tables."""
import math
import re

from harness import expr
from harness.materialize import num

WARN = re.compile(r"^\x1b\[1;3[13]m")


def strip_warnings(text):
    return "\n".join(l for l in text.split("\n") if not WARN.match(l) and l.strip() != "")


def parse(text, kind):
    """-> (header cells, rows of cells) ; cells are stripped strings"""
    lines = [l for l in strip_warnings(text).split("\n") if l.strip()]
    if not lines:
        return [], []
    if kind == "csv":
        split = lambda l: [c.strip() for c in l.split(",")]
    else:
        split = lambda l: [c.strip() for c in l.rstrip().rstrip("|").split("|")]
    return split(lines[0]), [split(l) for l in lines[1:]]


def sig_close(want, got, sig, rtol=0.0):
    if want == "undef":
        return math.isnan(got) or math.isinf(got)
    if math.isnan(want):
        return math.isnan(got)
    if math.isinf(want):
        return got == want
    if math.isnan(got) or math.isinf(got):
        return False
    if want == 0:
        return abs(got) <= 1e-9
    unit = 10.0 ** (math.floor(math.log10(abs(want))) - (sig - 1))
    return abs(want - got) <= 0.5 * unit * 1.02 + 1e-12 + rtol * abs(want)      # rtol: scores the program computes in single precision


def desc_matches(desc, cells):
    """does the list of descriptor cells identify the expected slice? returns None or a message"""
    try:
        if desc["kind"] == "date":
            ints = [int(x) for x in re.findall(r"\d+", " ".join(cells))]
            ax = desc.get("axis_name")
            u = int(desc.get("unixtime", 0))
            full = [desc["y"], desc["m"], desc["d"], desc["H"], (u % 3600) // 60, u % 60]
            want = {"time": full, "year": full[:1], "month": full[:2], "day": full[:3], "week": full[:1]}[ax]
            got = ints[:len(want)]
            return None if got == want else "descriptor %r does not denote %r" % (cells, want)
        if desc["kind"] == "location":
            vals = [float(c) for c in cells]
            want = [float(desc["id"]), float(desc["lat"]), float(desc["lon"]), float(desc["elev"])]
            return None if len(vals) == 4 and all(abs(a - b) < 1e-6 for a, b in zip(vals, want)) else "location descriptor %r, expected %r" % (cells, want)
        if desc["kind"] == "threshold":
            return None if len(cells) == 1 and abs(float(cells[0]) - num(desc["center"])) < 1e-9 else "threshold descriptor %r, expected %r" % (cells, num(desc["center"]))
        return None if len(cells) == 1 and abs(float(cells[0]) - float(desc["value"])) < 1e-9 else "descriptor %r, expected %r" % (cells, desc["value"])
    except (ValueError, KeyError, IndexError) as e:
        return "unreadable descriptor %r (%r)" % (cells, e)


LOCATION_NAMES = {"location": "id", "id": "id", "lat": "lat", "lon": "lon", "elev": "elev", "altitude": "elev"}


def named_location_cells(desc, names, cells):
    """the header NAMES the descriptor columns: where it uses the usual names, the cell under `lat` is the latitude, and so on"""
    keys = [LOCATION_NAMES.get(str(h).strip().lower()) for h in names]
    if len(keys) != len(cells) or None in keys or len(set(keys)) != len(keys):
        return None
    for key, cell in zip(keys, cells):
        try:
            if abs(float(cell) - float(desc[key])) > 1e-6:
                return "the column headed %r holds %r, but the slice's %s is %r (header %r)" % (names[keys.index(key)], cell, key, desc[key], list(names))
        except (ValueError, KeyError):
            return None
    return None


def compare(expected_rows, legend, header, rows, sig, axis, rtol=0.0):
    """expected_rows: list of {desc, scores(Expr)}; returns list of messages"""
    n = len(legend)
    msgs = []
    if header[-n:] != list(legend):
        msgs.append("header %r does not end with the %d column names %r in command-line order" % (header, n, list(legend)))
    if len(rows) != len(expected_rows):
        msgs.append("expected %d rows, observed %d" % (len(expected_rows), len(rows)))
        return msgs
    # the leading fields IDENTIFY the slice: two different slices never carry the same leading fields (whatever the label's format,
    # e.g. however weeks are numbered)
    seen = {}
    for k, row in enumerate(rows):
        lead = tuple(str(c).strip() for c in row[:-n])
        if lead in seen and len(row) >= n + 1:
            msgs.append("rows %d and %d are different slices with the same leading fields %r" % (seen[lead] + 1, k + 1, list(lead)))
        seen.setdefault(lead, k)
    for k, (er, row) in enumerate(zip(expected_rows, rows)):
        if len(row) < n + 1:
            msgs.append("row %d has %d cells" % (k + 1, len(row)))
            continue
        desc = dict(er["desc"])
        desc["axis_name"] = axis
        m = desc_matches(desc, row[:-n])
        if m is None and desc.get("kind") == "location":
            m = named_location_cells(desc, header[:-n], row[:-n])
        if m:
            msgs.append("row %d: %s" % (k + 1, m))
        for i in range(n):
            want = expr.ev(er["scores"][i])
            try:
                got = float(row[len(row) - n + i])
            except ValueError:
                msgs.append("row %d column %d: not a number: %r" % (k + 1, i + 1, row[len(row) - n + i]))
                continue
            if not sig_close(want, got, sig, rtol):
                msgs.append("row %d column %d: expected %r printed %r" % (k + 1, i + 1, want, row[len(row) - n + i]))
    return msgs
