#!/usr/bin/env python3
"""Second-round prompt: like seed_prompt.py but tells the agent which mechanism the first seed used, so that it picks another."""
import json, subprocess, sys
pid, wt = sys.argv[1], sys.argv[2]
base = subprocess.run(["python3", "/verif/tools/seed_prompt.py", pid, wt], capture_output=True, text=True).stdout
try:
    m = json.load(open("/verif/seeded/%s-a/meta.json" % pid))
    first = "An earlier change for this property already did the following, so choose a DIFFERENT mechanism and a different part of the code: %s (it needed: %s)." % (m.get("summary", ""), m.get("needs", ""))
except Exception:
    first = ""
base = base.replace("expect 180 passed, 2 failed at HEAD; the 2 failures (test_bsdecomp, test_cond) are pre-existing", "expect 182 passed at HEAD")
base = base.replace("Requirements:", first + "\n\nRequirements:", 1)
print(base)
