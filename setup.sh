#!/bin/sh
# Offline setup: nothing is compiled; verify the tools the checks need.
set -e
cd "$(dirname "$0")"
java -version >/dev/null 2>&1
test -f /opt/veriftools/tla/tla2tools.jar
/venv/bin/python -c "import numpy, netCDF4, matplotlib, scipy"
mkdir -p build evidence
echo setup ok
