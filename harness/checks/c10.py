"""C10 NetCDF input agrees with the text format. Spec: NcFormat.tla (documented layout -> the same Input record as
TextFormat!Parse; DecodeNc for fill / masked / -999 / NaN / >1e30; EncodeNc; RoundTrip lemma checked by TLC). For every
generated Input both literal files are written (own writers), read with verif.input.get_input under swapped file-name
extensions, compared by coordinates with the expected Input and with each other; text2nc's output is read back with
netCDF4 directly."""
import math
import os
import runpy
import sys

from harness import core, tlc, par
from harness.materialize import num
from harness.dsreplay import quiet, exc_site, close
from harness.checks import c09

BIG = 9.0e35
FILL = -1.0e9


NC_FORMATS = ["NETCDF4", "NETCDF3_64BIT_OFFSET", "NETCDF4_CLASSIC", "NETCDF3_CLASSIC", "NETCDF3_64BIT_DATA"]


def write_nc(path, nc, nc_format="NETCDF4"):
    import netCDF4
    import numpy as np
    f = netCDF4.Dataset(path, "w", format=nc_format)
    nt, nl, ns = len(nc["time"]), len(nc["leadtime"]), len(nc["location"])
    f.createDimension("time", None)
    f.createDimension("leadtime", nl)
    f.createDimension("location", ns)
    f.createVariable("time", "f8", ("time",))[:] = np.array(nc["time"], float)
    f.createVariable("leadtime", "f4", ("leadtime",))[:] = np.array([num(x) for x in nc["leadtime"]], float)
    f.createVariable("location", "i4", ("location",))[:] = np.array(nc["location"], int)
    f.createVariable("lat", "f4", ("location",))[:] = np.array([num(x) for x in nc["lat"]], float)
    f.createVariable("lon", "f4", ("location",))[:] = np.array([num(x) for x in nc["lon"]], float)
    f.createVariable("altitude", "f4", ("location",))[:] = np.array([num(x) for x in nc["altitude"]], float)

    def put(name, data, dims, shape):
        kinds = [d[0] for d in data]
        kw = {"fill_value": FILL} if ("fill" in kinds or "masked" in kinds) else {}
        var = f.createVariable(name, "f4", dims, **kw)
        vals = np.zeros(len(data), float)
        mask = np.zeros(len(data), bool)
        for n, (kind, v) in enumerate(data):
            if kind == "val":
                vals[n] = num(v)
            elif kind == "nan":
                vals[n] = np.nan
            elif kind == "m999":
                vals[n] = -999
            elif kind == "big":
                vals[n] = BIG
            elif kind == "fill":
                vals[n] = FILL
            else:
                mask[n] = True
        var.set_auto_mask(True)
        var[:] = np.ma.masked_array(vals.reshape(shape), mask.reshape(shape))

    for v in nc["vars"]:
        put(v["name"], v["data"], ("time", "leadtime", "location"), (nt, nl, ns))
    if nc["thresholds"]:
        m = len(nc["thresholds"])
        f.createDimension("threshold", m)
        f.createVariable("threshold", "f4", ("threshold",))[:] = np.array([num(x) for x in nc["thresholds"]], float)
        put("cdf", nc["cdf"], ("time", "leadtime", "location", "threshold"), (nt, nl, ns, m))
    if nc["quantiles"]:
        m = len(nc["quantiles"])
        f.createDimension("quantile", m)
        f.createVariable("quantile", "f4", ("quantile",))[:] = np.array([num(x) for x in nc["quantiles"]], float)
        put("x", nc["x"], ("time", "leadtime", "location", "quantile"), (nt, nl, ns, m))
    if nc["nmembers"]:
        m = nc["nmembers"]
        f.createDimension("ensemble_member", m)
        put("ensemble", nc["ens"], ("time", "leadtime", "location", "ensemble_member"), (nt, nl, ns, m))
    a = nc["attrs"]
    if a["name"] != "(default)":
        f.long_name = a["name"]
    if a["units"] != "(default)":
        f.units = a["units"]
    if a["x0"] != "(default)":
        f.x0 = float(a["x0"])
    if a["x1"] != "(default)":
        f.x1 = float(a["x1"])
    f.close()


def project_any(inp):
    """like c09.project but also for Netcdf inputs (members are numbered 0..n-1 there)"""
    import numpy as np
    if not hasattr(inp, "members"):
        inp.members = np.arange(inp.num_members)
    if inp.threshold_scores is None:
        inp_threshold_scores = np.zeros((0,))
    return c09.project(_Wrap(inp))


class _Wrap(object):
    """uniform attribute access: arrays may be None in Netcdf inputs"""
    def __init__(self, inp):
        import numpy as np
        self._i = inp
        self.times = inp.times
        self.leadtimes = inp.leadtimes
        self.locations = inp.locations
        self.obs, self.fcst, self.pit = inp.obs, inp.fcst, inp.pit
        self.thresholds = inp.thresholds
        self.quantiles = inp.quantiles
        self.members = getattr(inp, "members", np.arange(inp.num_members))
        nt, nl, ns = len(inp.times), len(inp.leadtimes), len(inp.locations)
        self.threshold_scores = inp.threshold_scores if inp.threshold_scores is not None else np.zeros((nt, nl, ns, 0))
        self.quantile_scores = inp.quantile_scores if inp.quantile_scores is not None else np.zeros((nt, nl, ns, 0))
        self.ensemble = inp.ensemble if inp.ensemble is not None else np.zeros((nt, nl, ns, 0))
        self.other_fields = [f for f in inp.other_fields if f not in ("ensemble", "location", "lat", "lon", "altitude", "time", "leadtime")]
        self.variable = inp.variable

    def other_score(self, name):
        return self._i.other_score(name)


def expected_for_nc(obj):
    """the same expected Input, with other fields under their NetCDF variable names and units wrapped as the reader documents"""
    import copy
    e = copy.deepcopy(obj["input"])
    ren = {"".join(a): b for a, b in obj["othernames"]}
    for o in e["other"]:
        o["name"] = list(ren["".join(o["name"])])
    return e


def _check_chunk(jobs):
    import numpy as np
    import netCDF4
    import verif.input
    n = 0
    divs = []
    wd = par.workdir()
    for idx, obj in jobs:
        text = c09.render(obj)
        swap = idx % 2 == 1
        tpath = os.path.join(wd, "data.nc" if swap else "data.txt")       # file type must be detected from content
        npath = os.path.join(wd, "data.txt" if swap else "data.nc")
        for p in (tpath, npath):
            if os.path.exists(p):
                os.remove(p)
        ncf = NC_FORMATS[idx % len(NC_FORMATS)]           # every on-disk flavour of NetCDF is a NetCDF file
        rep = {"kind": "ncfile", "text": text, "nc": obj["nc"], "expected": obj["input"], "gen": obj["gen"], "swapped_names": swap, "nc_format": ncf}

        def bad(site, msg):
            divs.append((site, msg, rep))
        try:
            with open(tpath, "w") as f:
                f.write(text)
            write_nc(npath, obj["nc"], ncf)
            with quiet():
                ti = verif.input.get_input(tpath)
                ni = verif.input.get_input(npath)
                if not isinstance(ti, verif.input.Text) or not isinstance(ni, verif.input.Netcdf):
                    bad("nc:detection", "file type not detected from content: %s read as %s, %s read as %s"
                        % (os.path.basename(tpath), type(ti).__name__, os.path.basename(npath), type(ni).__name__))
                    continue
                gt = c09.project(ti)
                gn = c09.project(_Wrap(ni))
            n += 2
            for site, msg in c09.compare(obj["input"], gt):
                bad(site, "text file: " + msg)
            en = expected_for_nc(obj)
            en["variable"] = dict(en["variable"])
            if en["variable"]["units"] not in ("(default)", "%"):
                en["variable"]["units"] = "$" + en["variable"]["units"] + "$"      # documented: units are wrapped for the LaTeX renderer
            for site, msg in c09.compare(en, gn, ordered=False, rtol=2e-6):
                bad(site.replace("text:", "nc:"), "NetCDF file (missing encoded as %s, order %s): %s" % (obj["gen"]["enc"], obj["gen"]["ord"], msg))
            # text2nc
            out = os.path.join(wd, "converted.nc")
            if os.path.exists(out):
                os.remove(out)
            old = sys.argv
            sys.argv = ["text2nc", tpath, out]
            try:
                with quiet():
                    runpy.run_path(os.path.join(core.REPO, "scripts", "text2nc.py"), run_name="__main__")
            finally:
                sys.argv = old
            n += 1
            with quiet():
                ci = verif.input.Netcdf(out)
                gc = c09.project(_Wrap(ci))
            ec = expected_for_nc(obj)
            ec["variable"] = {"name": ec["variable"]["name"], "units": "(default)", "x0": "(default)", "x1": "(default)"}
            for o in ec["other"]:
                o["name"] = o["name"]
            # other fields keep their text names in text2nc
            ec["other"] = obj["input"]["other"]
            for site, msg in c09.compare(ec, gc, ordered=False, rtol=2e-6):
                site2 = site.replace("text:", "text2nc:")
                bad(site2, "text2nc output: " + msg)
        except SystemExit:
            bad("nc:error-exit", "error exit")
        except Exception as e:
            bad(exc_site(e), "%r" % (e,))
    return n, divs


def run(ctx):
    ctx.rule = ("case = one Input expressible in both formats (from MC_TextFormat's generator) x NetCDF missing-value encoding "
                "(nan, _FillValue, masked, -999, >1e30, mixed) x dimension order; both files + text2nc's output are read back; "
                "non-trivial = Input has missing cells or absent rows")
    ctx.assumptions = ["values are float32-representable", "the byte-level correctness of netCDF4/HDF5 is trusted"]
    u = "quick" if ctx.tier == "quick" else "full"
    res = tlc.run("MC_NcFormat", "MC_NcFormat_" + u, tag=ctx.pid + "_" + u, timeout_s=3000)
    ctx.add_tlc("MC_NcFormat/" + u, res, {"Universe": u})
    jobs = list(enumerate(res.emitted))
    chunks = [jobs[i:i + 12] for i in range(0, len(jobs), 12)]
    for n, divs in par.pmap(_check_chunk, chunks, chunk=1):
        ctx.evaluations += n
        for site, detail, rep in divs:
            ctx.diverge(site, rep, as_implemented=site.startswith("text2nc:"), detail=detail)
    ctx.traces += len(jobs)
    for _, o in jobs:
        if o["gen"]["enc"] != "nan" or o["gen"]["ord"] != "id":
            ctx.nontriv(str((o["header"], o["gen"])))
    if res.emitted:
        o = res.emitted[len(res.emitted) // 2]
        ctx.sample({"text_file": c09.render(o), "nc_encoding": o["gen"]["enc"], "nc_order": o["gen"]["ord"], "nc_time": o["nc"]["time"]})
    ctx.exhaustive = ctx.tier != "quick"
    par.clean_workdirs()


def replay(ctx, rep):
    print("replay: re-run ./check C10 quick (case gen=%r)" % (rep.get("gen"),))
    return 0
