SPECIFICATION Spec
INVARIANT InvPartition
INVARIANT InvComplement
INVARIANT InvNaN
INVARIANT InvAgree
INVARIANT InvProb
INVARIANT InvProbRange
CHECK_DEADLOCK FALSE
