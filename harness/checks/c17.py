"""C17 Plot appearance options. Spec: Figure.tla (every documented appearance option owns one figure property, may disturb a few
named others, and must leave all remaining properties as they are without it: Independent); TLC enumerates every set of up to
2 options (each with one of two values) on a standard plot and single options on two multi-axes diagrams. Conformance: the
matplotlib figure left by verif.driver.run (and the written image file) is projected into the abstract properties and compared
with the option's value (owned) and with the option-free baseline figure (unchanged)."""
import io
import os
import random
import sys

from harness import tlc, par, figproj, materialize as mat
from harness.dsreplay import exc_site
from harness.checks import c19

PLOTS = {"standard": ["-m", "mae", "-x", "leadtime"], "pithist": ["-m", "pithist"], "reliability": ["-m", "reliability", "-r", "2"],
         "obsfcst": ["-m", "obsfcst", "-x", "leadtime"], "map": ["-m", "mae", "-type", "map"],
         "bias": ["-m", "bias", "-x", "leadtime"], "taylor": ["-m", "taylor"]}
# diagrams with one main axes and a legend of their own: the legend's place is held there too
EXTRA_PROPS = {"reliability": {"legloc"}, "taylor": {"legloc"}}
# the Taylor diagram draws on axes of equal scale whose x- and y-range follow one radius: the limits, ticks and margins are the diagram's own
COUPLED = {"taylor": {"xlim", "ylim", "xticks", "yticks", "xticklabels", "yticklabels", "crop", "margins", "left", "right", "top", "bottom", "pixels"}}
# on the multi-axes diagrams only the properties that make sense on every sub-axes are held
MULTI_PROPS = {"crop", "clabel", "clim", "cmap", "obsleg", "xlim", "ylim", "xlabel", "ylabel", "labfs", "tickfs", "xrot", "yrot", "figsize", "dpi", "left", "right", "top", "bottom", "margins", "format", "pixels"}


def _figure(files, base, extra, out):
    import matplotlib
    matplotlib.use("Agg")
    import matplotlib.pyplot as mpl
    import verif.driver
    mpl.close("all")
    if os.path.exists(out):
        os.remove(out)
    old = sys.stdout
    sys.stdout = io.StringIO()
    real_savefig = mpl.savefig
    saved = {}

    def recording_savefig(*a, **kw):
        saved.update(kw)                  # the resolution the image is written with is savefig's dpi argument
        return real_savefig(*a, **kw)
    mpl.savefig = recording_savefig
    try:
        verif.driver.run(["verif"] + files + base + extra + ["-f", out])
        status = "ok"
    except SystemExit as e:
        status = "exit:%s" % (e.code,)
    except Exception as e:
        status = exc_site(e) + " " + repr(e)[:120]
    finally:
        sys.stdout = old
        mpl.savefig = real_savefig
    fig = mpl.gcf()
    fig._verif_saved_dpi = saved.get("dpi")
    return status, fig


def _log_ticks(ticks):
    """as-implemented predicate of finding F-ticks-log: the ticks are those of the logarithmic locator (powers of ten)"""
    import math
    return bool(ticks) and all(t > 0 and abs(math.log10(t) - round(math.log10(t))) < 1e-9 for t in ticks)


def _check_chunk(cases):
    import matplotlib.pyplot as mpl
    wd = par.workdir()
    files = []
    for w in (0, 1):
        p = os.path.join(wd, "fig_%d.txt" % w)
        if not os.path.exists(p):
            mat.write_text(p, c19.dataset("full", w))
        files.append(p)
    # the "bias" plot: forecasts that are too high everywhere, so that the perfect score (0) is not among the plotted values
    warm = []
    for w in (0, 1):
        p = os.path.join(wd, "warm_%d.txt" % w)
        if not os.path.exists(p):
            d = c19.dataset("full", w)
            d["fcst"] = [f if f == "nan" else f + 10 for f in d["fcst"]]
            mat.write_text(p, d)
        warm.append(p)
    std_files = files
    out = os.path.join(wd, "fig.png")
    base_cache = {}
    n = 0
    divs = []
    for c in cases:
        plot = c["plot"]
        multi = plot == "pithist"        # pithist adjusts every sub-axes; the inset of the reliability diagram is a decoration
        restricted = plot not in ("standard", "bias")
        files = warm if plot == "bias" else std_files
        names0 = [os.path.basename(p) for p in files]
        if plot not in base_cache:
            st, fig = _figure(files, PLOTS[plot], [], out)
            base_cache[plot] = figproj.project(fig, out, names0, all_axes=multi) if st == "ok" else None
        P0 = base_cache[plot]
        if P0 is None:
            divs.append(("figure:baseline", False, "baseline %s plot failed" % plot, {"kind": "figure", "case": c}))
            continue
        names = names0
        for flag, val in zip(c["argv"], c["argv"][1:]):
            if flag == "-leg":
                names = [x.replace("_", " ") for x in val.split(",")]
        st, fig = _figure(files, PLOTS[plot], c["argv"], out)
        n += 1
        rep = {"kind": "figure", "plot": plot, "argv": c["argv"], "expected": c["expected"]}
        if st != "ok":
            site = st.split(" ")[0] if st.startswith("exception") else "figure:" + st
            divs.append((site, False, "%s %s -> %s" % (plot, " ".join(c["argv"]), st), rep))
            continue
        P = figproj.project(fig, out, names, all_axes=multi)
        for prop, expected in c["expected"]:
            if restricted and prop not in (MULTI_PROPS | EXTRA_PROPS.get(plot, set())) - COUPLED.get(plot, set()):
                continue
            msg = figproj.owned_ok(prop, expected, P, P0)
            if msg:
                known = (prop == "xticks" and "-xlog" in c["flags"] and _log_ticks(P.get("xticks"))) or \
                        (prop == "yticks" and "-ylog" in c["flags"] and _log_ticks(P.get("yticks")))
                divs.append(("figure:option:%s%s" % (prop, ":with-log-axis" if known else ""), known, "%s plot with %s: %s" % (plot, " ".join(c["argv"]), msg), rep))
        for prop in c["unchanged"]:
            if restricted and prop not in (MULTI_PROPS | EXTRA_PROPS.get(plot, set())) - COUPLED.get(plot, set()):
                continue
            if not figproj.same(P.get(prop), P0.get(prop)):
                divs.append(("figure:interference:%s" % prop, False, "%s plot with %s: %s changed from %r to %r although no given option controls it"
                             % (plot, " ".join(c["argv"]), prop, P0.get(prop), P.get(prop)), rep))
        mpl.close("all")
    return n, divs


def _formats(ctx):
    """the image is written in the format implied by the extension"""
    import matplotlib.pyplot as mpl
    wd = par.workdir()
    files = []
    for w in (0, 1):
        p = os.path.join(wd, "fmt_%d.txt" % w)
        mat.write_text(p, c19.dataset("full", w))
        files.append(p)
    for ext in ("png", "pdf", "svg", "jpg", "eps"):
        out = os.path.join(wd, "image." + ext)
        st, fig = _figure(files, PLOTS["standard"], [], out)
        ctx.evaluations += 1
        got = figproj.file_format(out) if (st == "ok" and os.path.exists(out)) else st
        if got != ext:
            ctx.diverge("figure:format", {"kind": "figure", "ext": ext, "got": got}, detail="-f image.%s wrote a file recognised as %r" % (ext, got))
        mpl.close("all")


def run(ctx):
    ctx.rule = ("case = a set of <= 2 appearance options (45 options, two values each) on a standard plot, or one option on pithist / obsfcst / the map view / "
                "reliability; owned properties are compared with the option value, all properties no given option controls with the "
                "option-free baseline figure; non-trivial = two options, or a multi-axes diagram")
    ctx.assumptions = ["figures are compared as matplotlib artist properties, not pixels", "-maptype needs map tiles that are not available offline and is not in the option table; -simple is a per-diagram switch (C16 uses it)"]
    cfg = "MC_Figure_k2"
    res = tlc.run("MC_Figure", cfg, tag=ctx.pid + "_" + cfg, timeout_s=900)
    ctx.add_tlc(cfg, res, {"K": 2})
    cases = res.emitted
    if ctx.tier == "quick":
        rng = random.Random(ctx.seed)
        singles = [c for c in cases if len(c["flags"]) <= 1]
        pairs = [c for c in cases if len(c["flags"]) == 2]
        # options that only act together with another one (-af / -afs with -a, tick labels with tick positions) exist as pairs only: all kept
        needy = [c for c in pairs if set(c["flags"]) & {"-af", "-afs", "-xticklabels", "-yticklabels"}]
        rest = [c for c in pairs if c not in needy]
        cases = singles + needy + rng.sample(rest, min(len(rest), 380))
    cases.sort(key=lambda c: c["plot"])
    for n, divs in par.pmap(_check_chunk, [cases[i:i + 24] for i in range(0, len(cases), 24)], chunk=1):
        ctx.evaluations += n
        for site, known, detail, rep in divs:
            ctx.diverge(site, rep, as_implemented=known, detail=detail)
    _formats(ctx)
    ctx.traces += len(cases)
    for c in cases:
        if len(c["flags"]) == 2 or c["plot"] != "standard":
            ctx.nontriv(str((c["plot"], c["argv"])))
    if cases:
        ctx.sample(cases[len(cases) // 2])
    ctx.exhaustive = ctx.tier != "quick"
    par.clean_workdirs()


def replay(ctx, rep):
    n, divs = _check_chunk([{"plot": rep["plot"], "argv": rep["argv"], "expected": rep["expected"], "unchanged": [], "flags": []}])
    for site, known, detail, r in divs:
        ctx.diverge(site, r, as_implemented=known, detail=detail)
    print("replay: %d divergence(s)" % len(divs))
    return 1 if divs else 0
