----------------------------- MODULE MC_Dataset -----------------------------
(* Generator + model-checking wrapper for Dataset.tla.                      *)
(* One initial state per generated (dataset, options); the single action    *)
(* Evaluate emits, as one JSON line, the literal content of every input     *)
(* file together with the expected verified dimensions and the expected     *)
(* result of every request of the menu.  The invariants are the theorems of *)
(* Dataset.tla, so TLC checks them on every dataset it hands to the harness.*)
EXTENDS Dataset, TLC, Json, SequencesExt

CONSTANT Family            \* which universe to enumerate (see Universe below)
VARIABLES gen, phase, ctx
vars == <<gen, phase, ctx>>

---------------------------------------------------------------------------
(* pools: the coordinates files may contain *)
TimePool == <<1325376000, 1325397600, 1325462400, 1328054400>>  \* 2012-01-01 00Z, 06Z, 2012-01-02 00Z, 2012-02-01 00Z
LeadPool == <<0, 12, 24, 36>>
LocPool  == <<1, 2, 3, 4>>
LatOf(s)  == 40 + 10 * s          \* 50, 60, 70, 80
LonOf(s)  == IF s = 3 THEN 200 ELSE 10 * s     \* one station in the 0..360 convention
ElevOf(s) == 100 * (s - 1)
Code(t, l, s) == 100 * IndexIn(TimePool, t) + 10 * IndexIn(LeadPool, l) + IndexIn(LocPool, s)

Positions(ts, ls, ss) == {<<i, j, k>> : i \in DOMAIN ts, j \in DOMAIN ls, k \in DOMAIN ss}
IsFirst(seq, i) == \A j \in 1..(i - 1) : seq[j] # seq[i]
\* a repeated dimension entry holds a different value (+500), so "first occurrence" is observable
RepeatMark(ts, ls, ss, p) == IF IsFirst(ts, p[1]) /\ IsFirst(ls, p[2]) /\ IsFirst(ss, p[3]) THEN 0 ELSE 500

\* g = [ts, ls, ss, hasObs, mo, mf] ; j = owner (forecast offset) ; mo/mf = missing positions
MkInput(g, j) ==
  [times |-> g.ts, leads |-> g.ls, locs |-> g.ss,
   lat |-> [k \in DOMAIN g.ss |-> LatOf(g.ss[k])], lon |-> [k \in DOMAIN g.ss |-> LonOf(g.ss[k])],
   elev |-> [k \in DOMAIN g.ss |-> ElevOf(g.ss[k])],
   hasObs |-> g.hasObs,
   obs |-> [p \in Positions(g.ts, g.ls, g.ss) |->
              IF ~g.hasObs \/ p \in g.mo THEN NaN
              ELSE R(1000 + Code(g.ts[p[1]], g.ls[p[2]], g.ss[p[3]]) + RepeatMark(g.ts, g.ls, g.ss, p))],
   fcst |-> [p \in Positions(g.ts, g.ls, g.ss) |->
              IF p \in g.mf THEN NaN
              ELSE R(2000 + 10000 * j + g.bump + Code(g.ts[p[1]], g.ls[p[2]], g.ss[p[3]]) + RepeatMark(g.ts, g.ls, g.ss, p))]]

\* climatology forecast: "lin" keeps coordinates visible after subtraction, "small" has zeros for -C
MkClim(g) ==
  [times |-> g.ts, leads |-> g.ls, locs |-> g.ss,
   lat |-> [k \in DOMAIN g.ss |-> LatOf(g.ss[k])], lon |-> [k \in DOMAIN g.ss |-> LonOf(g.ss[k])],
   elev |-> [k \in DOMAIN g.ss |-> ElevOf(g.ss[k])],
   hasObs |-> g.hasObs,
   obs |-> [p \in Positions(g.ts, g.ls, g.ss) |->
              IF ~g.hasObs \/ p \in g.mo THEN NaN ELSE R(1000 + Code(g.ts[p[1]], g.ls[p[2]], g.ss[p[3]]))],
   fcst |-> [p \in Positions(g.ts, g.ls, g.ss) |->
              IF p \in g.mf THEN NaN
              ELSE LET c == Code(g.ts[p[1]], g.ls[p[2]], g.ss[p[3]])
                   IN  IF g.mode = "lin" THEN R(2 * c + 5) ELSE R((((c \div 100) + ((c \div 10) % 10) + (c % 10)) % 3) * 2)]]

NoClimGen == [on |-> FALSE, ts |-> <<TimePool[1]>>, ls |-> <<LeadPool[1]>>, ss |-> <<LocPool[1]>>, hasObs |-> FALSE,
              mo |-> {}, mf |-> {}, mode |-> "lin", type |-> "subtract"]

DsOf(g) == [inputs |-> [j \in DOMAIN g.inp |-> MkInput(g.inp[j], j)],
            hasClim |-> g.clim.on, clim |-> MkClim(g.clim), climType |-> g.clim.type]

---------------------------------------------------------------------------
(* Universes *)
T2 == <<TimePool[1], TimePool[2]>>
L1 == <<LeadPool[1]>>
S2 == <<LocPool[1], LocPool[2]>>
P212 == Positions(T2, L1, S2)
In212(hasObs, mo, mf) == [ts |-> T2, ls |-> L1, ss |-> S2, hasObs |-> hasObs, mo |-> mo, mf |-> mf, bump |-> 0]

\* C01 thorough: 2 inputs on a 2x1x2 grid, every missing pattern of obs and fcst of both inputs
UC01Full(u) == {[inp |-> <<In212(TRUE, a, b), In212(TRUE, c, d)>>, clim |-> NoClimGen, opt |-> NoOptions]
               : a \in SUBSET P212, b \in SUBSET P212, c \in SUBSET P212, d \in SUBSET P212}
\* C01 quick: only input 2 has missing cells
UC01Quick(u) == {[inp |-> <<In212(TRUE, {}, {}), In212(TRUE, c, d)>>, clim |-> NoClimGen, opt |-> NoOptions]
               : c \in SUBSET P212, d \in SUBSET P212}
\* obs-less second input
UC01NoObs(u) == {[inp |-> <<In212(TRUE, a, b), In212(FALSE, {}, d)>>, clim |-> NoClimGen, opt |-> NoOptions]
               : a \in SUBSET P212, b \in SUBSET P212, d \in SUBSET P212}
\* obs-less FIRST input (observations come from the second)
UC01NoObs1(u) == {[inp |-> <<In212(FALSE, {}, b), In212(TRUE, c, d)>>, clim |-> NoClimGen, opt |-> NoOptions]
               : b \in SUBSET P212, c \in SUBSET P212, d \in SUBSET P212}
\* three inputs, 1x1x2 grid
T1 == <<TimePool[1]>>
P112 == Positions(T1, L1, S2)
In112(hasObs, mo, mf) == [ts |-> T1, ls |-> L1, ss |-> S2, hasObs |-> hasObs, mo |-> mo, mf |-> mf, bump |-> 0]
UC01Three(u) == {[inp |-> <<In112(TRUE, a, b), In112(TRUE, c, d), In112(h, {}, f)>>, clim |-> NoClimGen, opt |-> NoOptions]
               : a \in SUBSET P112, b \in SUBSET P112, c \in SUBSET P112, d \in SUBSET P112, f \in SUBSET P112, h \in BOOLEAN}
\* climatology on a 1x1x2 grid with its own missing cells, subtract and divide
ClimGen(mf, mode, type) == [on |-> TRUE, ts |-> T1, ls |-> L1, ss |-> S2, hasObs |-> FALSE, mo |-> {}, mf |-> mf,
                            mode |-> mode, type |-> type]
UC01Clim(u) == {[inp |-> <<In112(TRUE, a, b), In112(TRUE, c, d)>>, clim |-> ClimGen(f, m[1], m[2]), opt |-> NoOptions]
               : a \in SUBSET P112, b \in SUBSET P112, c \in SUBSET P112, d \in SUBSET P112, f \in SUBSET P112,
                 m \in {<<"lin", "subtract">>, <<"small", "divide">>}}

\* (the universes take a dummy parameter so that TLC does not pre-evaluate all of them as constants)
Universe(u) ==
  CASE Family = "C01Full"   -> UC01Full(0)
    [] Family = "C01Quick"  -> UC01Quick(0)
    [] Family = "C01NoObs"  -> UC01NoObs(0) \cup UC01NoObs1(0)
    [] Family = "C01Three"  -> UC01Three(0)
    [] Family = "C01Clim"   -> UC01Clim(0)

---------------------------------------------------------------------------
(* request menu: every field combination, input, and every slice of the listed axes *)
FieldSeqs == {<<"obs">>, <<"fcst">>, <<"obs", "fcst">>}
MenuAxes == {"all", "no", "time", "leadtime", "location"}
Requests(n) ==
  {[fields |-> f, inp |-> i, axis |-> a, idx |-> k] :
     f \in FieldSeqs, i \in 1..n, a \in MenuAxes, k \in 1..3}
ReqOk(X, r) == IF r.axis = "all" THEN r.idx = 1 ELSE r.idx <= NumSlices(X, r.axis)

---------------------------------------------------------------------------
(* JSON rendering *)
J(x) == IF IsNaN(x) THEN "nan" ELSE IF IsInf(x) THEN (IF x[1] > 0 THEN "inf" ELSE "-inf")
        ELSE IF x[2] = 1 THEN x[1] ELSE x
Flat(I, F) ==
  LET nt == Len(I.times)  nl == Len(I.leads)  ns == Len(I.locs)
  IN  [n \in 1..(nt * nl * ns) |->
         J(F[<<((n - 1) \div (ns * nl)) + 1, (((n - 1) \div ns) % nl) + 1, ((n - 1) % ns) + 1>>])]
InputJson(I) == [times |-> I.times, leads |-> I.leads, locs |-> I.locs, lat |-> I.lat, lon |-> I.lon,
                 elev |-> I.elev, hasObs |-> I.hasObs, obs |-> Flat(I, I.obs), fcst |-> Flat(I, I.fcst)]
OptJson(O) == [given |-> SetToSeq(O.given), t |-> SortInts(O.t), d |-> SortInts(O.d), tod |-> SortInts(O.tod),
               o |-> SortInts(O.o), l |-> SortInts(O.l), lx |-> SortInts(O.lx), latrange |-> O.latrange,
               lonrange |-> O.lonrange, elevrange |-> O.elevrange,
               obsrange |-> <<J(O.obsrange[1]), J(O.obsrange[2])>>]
CaseList(X, r) ==
  LET cs == Cases(X, r)
      idxs == SortInts({X.pos[c] : c \in cs})
      byIdx == [n \in {X.pos[c] : c \in cs} |-> CHOOSE c \in cs : X.pos[c] = n]
  IN  [m \in DOMAIN idxs |->
         <<idxs[m]>> \o [k \in DOMAIN r.fields |-> J(X.adj[r.inp, r.fields[k], byIdx[idxs[m]]])]]
ReqJson(X, r) == [f |-> r.fields, i |-> r.inp, a |-> r.axis, k |-> r.idx, c |-> CaseList(X, r)]

D == DsOf(gen)
O == gen.opt
Err(DD, OO) == EmptySelection(DD, OO) \/ ~SomeObs(DD)
NoCtx == [T |-> <<>>, L |-> <<>>, S |-> <<>>, G |-> {}, n |-> 0, adj |-> <<>>, pos |-> <<>>]
GoodReqs(X) == {r \in Requests(X.n) : ReqOk(X, r)}

Emit(X) ==
  LET rseq == SetToSeq(GoodReqs(X))
  IN  PrintT(ToJson([fam |-> Family,
                     inputs |-> [j \in DOMAIN D.inputs |-> InputJson(D.inputs[j])],
                     hasClim |-> D.hasClim, clim |-> InputJson(D.clim), climType |-> D.climType,
                     opts |-> OptJson(O),
                     err |-> X.n = 0,
                     times |-> X.T, leads |-> X.L, locs |-> X.S,
                     req |-> [k \in DOMAIN rseq |-> ReqJson(X, rseq[k])]]))

Init == gen \in Universe(0) /\ phase = "generated" /\ ctx = NoCtx
Evaluate ==
  /\ phase = "generated" /\ phase' = "evaluated" /\ gen' = gen
  /\ ctx' = IF Err(D, O) THEN NoCtx ELSE Context(D, O)
  /\ Emit(ctx')
Next == Evaluate
Spec == Init /\ [][Next]_vars

---------------------------------------------------------------------------
(* Theorems of the abstract semantics on every enumerated dataset (ctx.n = 0: nothing to score) *)
ObsReqs(X) == {r \in GoodReqs(X) : \E k \in DOMAIN r.fields : r.fields[k] = "obs"}
InvSameCases == SameCases(ctx, GoodReqs(ctx))
InvSameObs   == SameObs(ctx, ObsReqs(ctx))
InvDims      == DimsWellFormed(ctx)
InvPartition == \A a \in MenuAxes : Partition(ctx, a)
\* C01 non-interference, as a two-copy property: bump every non-missing forecast of input k
Bump(g, k) == [g EXCEPT !.inp[k].bump = 7]
InvNonInterference ==
  ctx.n = 0 \/
  \A k \in 1..ctx.n :
     LET X2 == Context(DsOf(Bump(gen, k)), O)
     IN  \A r \in GoodReqs(ctx) : r.inp # k => Scores(X2, r) = Scores(ctx, r)
=============================================================================
