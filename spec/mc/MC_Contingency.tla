---------------------------- MODULE MC_Contingency ----------------------------
(* C06: every 2x2 table with total <= MaxN (kind "table"), and every pair       *)
(* vector of length <= 3 over the position classes x bin types x thresholds     *)
(* (kind "pairs").                                                              *)
EXTENDS Metrics, TLC, Json
CONSTANTS MaxN, Kind
VARIABLES c, phase
vars == <<c, phase>>

J(x) == IF IsNaN(x) THEN "nan" ELSE IF IsInf(x) THEN (IF x[1] > 0 THEN "inf" ELSE "-inf") ELSE IF x[2] = 1 THEN x[1] ELSE x
Tables(u) == {T \in (0..MaxN) \X (0..MaxN) \X (0..MaxN) \X (0..MaxN) : T[1] + T[2] + T[3] + T[4] <= MaxN /\ T[1] + T[2] + T[3] + T[4] >= 1}
\* values below / at / between / at / above the two thresholds 1 and 2, and missing
PVals == {R(0), R(1), Frac(3, 2), R(2), R(3), NaN}
PPairs == PVals \X PVals
PairVectors(u) == {<<x>> : x \in PPairs} \cup {<<x, y>> : x \in PPairs, y \in PPairs}
                  \cup {<<x, y, z>> : x \in {q \in PPairs : q[1] # NaN}, y \in {q \in PPairs : q[2] # R(3)}, z \in {<<R(1), R(2)>>, <<R(2), R(2)>>, <<NaN, R(1)>>, <<R(3), R(0)>>}}
\* ... and a value one millionth above the first threshold (not ON it: counts as above it for every bin type)
QVals == {R(0), R(1), R(2), R(3), NaN, Frac(1000001, 1000000)}
QuickVectors(u) == {<<x>> : x \in QVals \X QVals} \cup {<<x, y>> : x \in QVals \X QVals, y \in QVals \X QVals}
Cases(u) == IF Kind = "pairsquick" THEN {[kind |-> "pairs", T |-> <<0, 0, 0, 0>>, v |-> v, bt |-> bt] : v \in QuickVectors(u), bt \in BinTypes}
            ELSE IF Kind = "table" THEN {[kind |-> "table", T |-> T, v |-> <<>>, bt |-> "above"] : T \in Tables(u)}
            ELSE {[kind |-> "pairs", T |-> <<0, 0, 0, 0>>, v |-> v, bt |-> bt] : v \in PairVectors(u), bt \in BinTypes}

T1 == R(1)
T2 == R(2)
obsSeq == [k \in DOMAIN c.v |-> c.v[k][1]]
fcstSeq == [k \in DOMAIN c.v |-> c.v[k][2]]
P == TablePairs(obsSeq, fcstSeq)
Tab == IF c.kind = "table" THEN c.T ELSE Table(P, c.bt, T1, T2)

Emit == PrintT(ToJson([kind |-> c.kind, T |-> Tab, bt |-> c.bt, t |-> <<1, 2>>,
                       o |-> [k \in DOMAIN c.v |-> J(c.v[k][1])], f |-> [k \in DOMAIN c.v |-> J(c.v[k][2])],
                       scores |-> [m \in CatMetrics |-> Cat(m, Tab)]]))
Init == c \in Cases(0) /\ phase = "case"
Evaluate == phase = "case" /\ phase' = "emitted" /\ c' = c /\ Emit
Next == Evaluate
Spec == Init /\ [][Next]_vars

InvCountsSum == c.kind = "pairs" => CountsSum(P, c.bt, T1, T2)
InvSwapTable == c.kind = "pairs" => SwapTable(P, c.bt, T1, T2)
InvComplementTable == c.kind = "pairs" => ComplementTable(P, T1)
InvSwap == SwapLemma(Tab)
InvCompl == ComplLemma(Tab)
InvPerfect == PerfectTable(Tab)
InvBounds == Bounds01(Tab)
\* ---- witnesses against vacuity (tools/vacuity.py): each is the NEGATION of a lemma's antecedent and must be VIOLATED by some enumerated case ----
W_PerfectTable == ~(c.kind = "table" /\ c.T[2] = 0 /\ c.T[3] = 0 /\ c.T[1] > 0 /\ c.T[4] > 0)
=============================================================================
