"""Code -> spec on the REPOSITORY'S OWN test-suite: the tests of verif/tests that build verif.data.Data objects are run with the
trace hooks on and with harness/repotrace_plugin.py recording, for every Data object, the files it was built from (projected),
its options, the verified dimensions and every returned array.  Each object becomes one trace for Trace_DataImpl: TLC decides
whether the recorded execution is a behaviour of DataImpl.tla (and therefore of Dataset.tla), with HistoryIndependent /
EarlierUnaltered / CacheCoherent evaluated at every step.  The tests' own assertions (a handful of hand-computed numbers) play no
part in the verdict; a trace TLC cannot follow on observables is a VIOLATION, internals that differ are MODEL-DRIFT."""
import json
import os
import subprocess
import sys

from harness import core, par, tracecheck

TEST_FILES = ["verif/tests/test_data.py", "verif/tests/test_output.py", "verif/tests/test_metric.py", "verif/tests/test_input_text.py",
              "verif/tests/test_input_netcdf.py"]
TEST_FILES_THOROUGH = TEST_FILES      # (test_integration builds its objects from the example files: 1525 cells per input, outside what TLC evaluates in reasonable time)
AXIS = {"All": "all", "No": "no", "Time": "time", "Leadtime": "leadtime", "Location": "location"}
MODEL_AXES = {"all", "no", "time", "leadtime", "location", "year", "month", "week", "day", "timeofday", "dayofyear", "dayofmonth",
              "monthofyear", "leadtimeday"}
MODEL_FIELDS = {"obs", "fcst"}


def record(test_files, timeout_s=1500):
    """run the repository's tests in a fresh interpreter with the recorder; returns (records, hook events, pytest summary line)"""
    wd = par.workdir()
    out = os.path.join(wd, "repotests.json")
    hooks = os.path.join(wd, "repotests.ndjson")
    for p in (out, hooks):
        if os.path.exists(p):
            os.remove(p)
    env = dict(os.environ, PYTHONPATH=core.ROOT + os.pathsep + core.REPO, VERIF_REPOTRACE_OUT=out, VERIF_TLA_TRACE=hooks, MPLBACKEND="Agg")
    files = [f for f in test_files if os.path.exists(os.path.join(core.REPO, f))]
    p = subprocess.run([sys.executable, "-m", "pytest", "-q", "-p", "no:cacheprovider", "-p", "harness.repotrace_plugin", "--timeout=900"] + files,
                       cwd=core.REPO, env=env, stdout=subprocess.PIPE, stderr=subprocess.STDOUT, timeout=timeout_s)
    text = p.stdout.decode("utf-8", "replace")
    summary = [l for l in text.strip().split("\n") if l.strip()][-1] if text.strip() else ""
    if not os.path.exists(out):
        raise RuntimeError("the repository's tests did not run to the end of the session: %s" % text[-600:])
    with open(out) as f:
        records = json.load(f)
    events = []
    if os.path.exists(hooks):
        with open(hooks) as f:
            events = [json.loads(x) for x in f if x.strip()]
    return records, events, summary, p.returncode


def _attach_events(records, events):
    """the k-th DataInit event belongs to the k-th successfully built object; later events carry the object's id"""
    ok = [r for r in records if r.get("init") == "ok"]
    current = {}
    k = 0
    for e in events:
        if e["ev"] == "DataInit":
            if k < len(ok) and ok[k]["oid"] == e["data"]:
                ok[k]["events"] = []
                current[e["data"]] = ok[k]
            else:
                current.pop(e["data"], None)
            k += 1
        elif "data" in e and e["data"] in current:
            current[e["data"]]["events"].append(e)


def build_trace(rec):
    """one recorded Data object -> (trace for Trace_DataImpl, all calls modelled?) or (None, reason)"""
    if "skip" in rec:
        return None, rec["skip"]
    base = {"inputs": rec["inputs"], "hasClim": rec["hasClim"], "clim": rec["clim"], "climType": rec["climType"], "opts": rec["opts"],
            "test": rec["test"], "files": [i["name"] for i in rec["inputs"]]}
    if rec.get("init") == "error-exit":
        return dict(base, events=[{"ev": "InitError"}]), True
    if rec.get("init") != "ok":
        return None, "constructor raised %s" % rec.get("init")
    evs = [dict(rec["dims"], ev="Dims")]
    ids = {}

    def rid(x):
        if x not in ids:
            ids[x] = len(ids) + 1
        return ids[x]
    pure = True
    hook_calls = []
    steps = []
    for e in rec.get("events", []):
        if e["ev"] == "Load":
            steps.append({"ev": "Load", "field": e["field"].lower(), "ids": [rid(i) for i in e["ids"]], "propagated": 0, "input": 0, "masked": 0})
        elif e["ev"] == "Propagate":
            if steps and steps[-1]["ev"] == "Load" and steps[-1]["field"] == e["field"].lower():
                steps[-1]["propagated"] = e["changed"]
        elif e["ev"] == "ObsRange":
            steps.append({"ev": "ObsRange", "input": e["input"] + 1, "masked": e["masked"], "field": "obs", "ids": [], "propagated": 0})
        elif e["ev"] == "GetScores":
            hook_calls.append({"hit": e["hit"], "ids": [rid(i) for i in e["ids"]], "steps": steps})
            steps = []
    have_hooks = len(hook_calls) == len(rec["calls"]) and "events" in rec
    for n, c in enumerate(rec["calls"]):
        if "skip" in c:
            pure = False
            continue
        fields = [f.lower() for f in c["fields"]]
        axis = AXIS.get(c["axis"], c["axis"].lower())
        if not set(fields) <= MODEL_FIELDS or axis not in MODEL_AXES:
            pure = False          # a request outside the trace model (other fields, label-ordered axes): not judged
            continue
        ev = {"ev": "GetScores", "fields": fields, "input": c["input"] + 1, "axis": axis, "index": 1 if c["index"] is None else c["index"] + 1,
              "values": c["values"], "hit": False, "ids": [], "steps": []}
        if have_hooks:
            ev.update(hook_calls[n])
        evs.append(ev)
    return dict(base, events=evs, nohooks=not have_hooks), pure and have_hooks


BIG = 200          # cells per input above which a trace is cut to its first BIG_CALLS requests (TLC evaluates CacheCoherent over the
BIG_CALLS = 6      # whole request cache at every step: quadratic in the length of a trace, linear in the grid)


def validate(ctx, thorough=False, max_big=0):
    records, events, summary, rc = record(TEST_FILES_THOROUGH if thorough else TEST_FILES)
    _attach_events(records, events)
    strict, lax, skipped = [], [], {}
    big = 0
    for rec in records:
        t, pure = build_trace(rec)
        if t is None:
            skipped[pure] = skipped.get(pure, 0) + 1
            continue
        if max(len(i["fcst"]) for i in t["inputs"]) > BIG:
            big += 1
            if big > max_big:
                skipped["further objects built from the example files (more than %d cells)" % BIG] = \
                    skipped.get("further objects built from the example files (more than %d cells)" % BIG, 0) + 1
                continue
            t["events"] = t["events"][:1 + BIG_CALLS]       # a prefix of an execution is an execution
        nohooks = t.pop("nohooks", False)
        (strict if pure is True and not nohooks else lax).append(t)
    n_calls = sum(len(t["events"]) for t in strict + lax)
    info = {"pytest": summary, "data_objects": len(records), "traces_full": len(strict), "traces_observables_only": len(lax),
            "events": n_calls, "outside_the_model": skipped}
    ctx.extra["repository_tests"] = info
    if not strict and not lax:
        raise RuntimeError("the repository's tests built no Data object inside the model: %r" % (info,))
    rejected = []
    info["accepted_with_internals"] = 0
    info["accepted_on_observables"] = 0

    def is_big(t):
        return max(len(i["fcst"]) for i in t["inputs"]) > BIG
    # TLC re-reads the batch file whenever the trace is referenced: the traces over the example files go one per batch
    groups = [("repotests", [t for t in strict if not is_big(t)], True), ("repotests_obs", [t for t in lax if not is_big(t)], False)]
    groups += [("repotests_big%d" % n, [t], t in strict) for n, t in enumerate([t for t in strict + lax if is_big(t)])]
    for tag, traces, full in groups:
        if not traces:
            continue
        if full:
            ok, drift, rej = tracecheck.validate(ctx, "Trace_DataImpl", traces, tag)
            ctx.traces += len(ok) + len(drift)
            info["accepted_with_internals"] += len(ok)
            for t in drift[:3]:
                ctx.note_drift("a Data object of the repository's test %s follows Dataset.tla on every returned value but not DataImpl.tla's internals"
                               % t["test"])
        else:
            ok, rej = tracecheck.validate_lax(ctx, "Trace_DataImpl", traces, tag)
            ctx.traces += len(ok)
            info["accepted_on_observables"] += len(ok)
        rejected += rej
    ctx.evaluations += n_calls
    for t in rejected:
        what = [(e["ev"], e.get("fields"), e.get("input"), e.get("axis"), e.get("index")) for e in t["events"]]
        ctx.diverge("repotests:trace-rejected", {"kind": "trace", "trace": t},
                    detail="a Data object built by the repository's own test %s from %s (options %s) is not a behaviour of the specification: TLC cannot "
                           "follow %s" % (t["test"], t["files"], t["opts"]["given"], what))
    return info
