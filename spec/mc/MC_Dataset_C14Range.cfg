SPECIFICATION Spec
CONSTANT Family = "C14Range"
INVARIANT InvSameCases
INVARIANT InvSameObs
INVARIANT InvDims
INVARIANT InvPartition
INVARIANT InvNonInterference
INVARIANT InvShiftEquiv
INVARIANT InvClimNeverScored
CHECK_DEADLOCK FALSE
