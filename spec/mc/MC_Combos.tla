------------------------------ MODULE MC_Combos ------------------------------
(* C19: the full cross product (70 metrics + 28 diagrams) x (19 dimensions +    *)
(* default) x 8 output types, plus the option variants on a reduced set of       *)
(* dimensions and types (plot, csv, impact).  One state per combination.                            *)
EXTENDS Combos, TLC, Json
CONSTANT Part          \* "cross" | "variants"
VARIABLES c, phase
vars == <<c, phase>>
Cross == {[m |-> m, x |-> x, t |-> t, v |-> "plain"] : m \in AllNames, x \in AxisNames, t \in TypeNames}
Vars == UNION {{[m |-> m, x |-> x, t |-> t, v |-> v] : x \in {"(default)", "leadtime", "threshold", "no", "location"}, t \in {"plot", "csv", "impact"},
                 v \in Variants(m) \ {"plain"}} : m \in AllNames}
\* the same command lines on THREE input files (views that compare the inputs with each other: rank, maprank; and the plain ones)
Three == {[m |-> m, x |-> x, t |-> t, v |-> "three-files"] : m \in AllNames, x \in {"(default)", "leadtime", "location", "no"}, t \in {"rank", "maprank", "plot", "csv"}}
\* the dimensions whose slices are VALUE bins (-x obs, -x fcst, -x threshold) together with an explicit list of bin edges, on every table / plot type
Cond == {[m |-> m, x |-> x, t |-> t, v |-> v] : m \in AllNames, x \in {"obs", "fcst", "threshold"}, t \in {"plot", "text", "csv"}, v \in {"r-given", "r-single", "b-within"}}
Init == c \in (IF Part = "cross" THEN Cross ELSE Vars \cup Three \cup Cond) /\ phase = "combo"
Evaluate == phase = "combo" /\ phase' = "emitted" /\ c' = c
            /\ PrintT(ToJson([m |-> c.m, x |-> c.x, t |-> c.t, v |-> c.v, argv |-> ArgvOf(c.m, c.x, c.t, c.v), predict |-> Predict(c.m, c.x, c.t, c.v)]))
Next == Evaluate
Spec == Init /\ [][Next]_vars
InvPrediction == Predict(c.m, c.x, c.t, c.v) \in {"output", "error", "either"}
InvCounts == Cardinality(MetricNames) = 70 /\ Cardinality(DiagramNames) = 28 /\ Cardinality(AxisNames) = 20 /\ Cardinality(TypeNames) = 8
=============================================================================
